SPECIFICATION GSpec
CONSTANTS Keys = {"a", "b", "c"}
 MaxItems = 3
 MaxTicket = 40
 NoKey = "none"
 Depth = 40
INVARIANTS NoLostWakeup NoStreamLost Emit
CONSTRAINT Stop
CHECK_DEADLOCK FALSE
