SPECIFICATION Spec
CONSTANTS Keys = {a, b}
 MaxItems = 3
 MaxTicket = 12
 NoKey = NoKey
INVARIANTS NoLostWakeup NoStreamLost ReadyHasSignal FairBoundTight
CHECK_DEADLOCK FALSE
