SPECIFICATION Spec
CONSTANTS Keys = {a, b}
 MaxItems = 2
 MaxTicket = 12
 NoKey = NoKey
INVARIANTS NoLostWakeup NoStreamLost
PROPERTY Live
CHECK_DEADLOCK FALSE
