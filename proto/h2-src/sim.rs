#![allow(dead_code)]
use bytes::Bytes;
use futures::task::ArcWake;
use futures::{AsyncRead, AsyncWrite, FutureExt};
use std::collections::VecDeque;
use std::future::Future;
use std::pin::Pin;
use std::sync::atomic::{AtomicBool, AtomicUsize, Ordering};
use std::sync::{Arc, Mutex};
use std::task::{Context, Poll, Waker};

#[derive(Default)]
pub struct Chan { pub buf: VecDeque<u8>, pub eof: bool, pub rwaker: Option<Waker>, pub wwaker: Option<Waker>, pub credit: Option<usize>, pub tap: Vec<u8>, pub broken: bool, pub rdropped: bool, pub wdropped: bool }
#[derive(Clone)] pub struct H(pub Arc<Mutex<Chan>>);
pub struct R(pub H); pub struct W(pub H);
impl Drop for R { fn drop(&mut self) { self.0 .0.lock().unwrap().rdropped = true; } }
impl Drop for W { fn drop(&mut self) { self.0 .0.lock().unwrap().wdropped = true; } }
impl AsyncRead for R {
    fn poll_read(self: Pin<&mut Self>, cx: &mut Context<'_>, out: &mut [u8]) -> Poll<std::io::Result<usize>> {
        let mut c = self.0 .0.lock().unwrap();
        if c.buf.is_empty() { if c.eof { return Poll::Ready(Ok(0)); } c.rwaker = Some(cx.waker().clone()); return Poll::Pending; }
        let n = out.len().min(c.buf.len());
        for b in out.iter_mut().take(n) { *b = c.buf.pop_front().unwrap(); }
        Poll::Ready(Ok(n))
    }
}
impl AsyncWrite for W {
    fn poll_write(self: Pin<&mut Self>, cx: &mut Context<'_>, data: &[u8]) -> Poll<std::io::Result<usize>> {
        let mut c = self.0 .0.lock().unwrap();
        if c.broken { return Poll::Ready(Err(std::io::ErrorKind::BrokenPipe.into())); }
        let n = match c.credit { None => data.len(), Some(0) => { c.wwaker = Some(cx.waker().clone()); return Poll::Pending; } Some(k) => k.min(data.len()) };
        if let Some(k) = c.credit.as_mut() { *k -= n; }
        c.tap.extend_from_slice(&data[..n]);
        Poll::Ready(Ok(n))
    }
    fn poll_flush(self: Pin<&mut Self>, _: &mut Context<'_>) -> Poll<std::io::Result<()>> { Poll::Ready(Ok(())) }
    fn poll_close(self: Pin<&mut Self>, _: &mut Context<'_>) -> Poll<std::io::Result<()>> { Poll::Ready(Ok(())) }
}
impl H {
    pub fn new() -> Self { H(Arc::new(Mutex::new(Chan::default()))) }
    pub fn push(&self, b: &[u8]) { let w = { let mut c = self.0.lock().unwrap(); c.buf.extend(b.iter().copied()); c.rwaker.take() }; if let Some(w) = w { w.wake(); } }
    pub fn close(&self) { let w = { let mut c = self.0.lock().unwrap(); c.eof = true; c.rwaker.take() }; if let Some(w) = w { w.wake(); } }
    pub fn credit(&self, k: Option<usize>) { let w = { let mut c = self.0.lock().unwrap(); c.credit = k; c.wwaker.take() }; if let Some(w) = w { w.wake(); } }
    pub fn tap(&self) -> Vec<u8> { self.0.lock().unwrap().tap.clone() }
    pub fn flags(&self) -> (bool, bool) { let c = self.0.lock().unwrap(); (c.rdropped, c.wdropped) }
}
pub struct CountWaker(pub AtomicUsize);
impl ArcWake for CountWaker { fn wake_by_ref(a: &Arc<Self>) { a.0.fetch_add(1, Ordering::SeqCst); } }
pub fn poll_once<F: Future + ?Sized>(f: &mut Pin<Box<F>>, w: &Arc<CountWaker>) -> Poll<F::Output> {
    let waker = futures::task::waker(w.clone()); let mut cx = Context::from_waker(&waker); f.as_mut().poll(&mut cx)
}
pub fn greeting() -> Vec<u8> { let mut g = vec![0u8; 64]; g[0]=0xff; g[9]=0x7f; g[10]=3; g[12..16].copy_from_slice(b"NULL"); g }
pub fn ready(st: &str) -> Vec<u8> { let mut b = vec![5u8]; b.extend_from_slice(b"READY"); b.push(11); b.extend_from_slice(b"Socket-Type"); b.extend_from_slice(&(st.len() as u32).to_be_bytes()); b.extend_from_slice(st.as_bytes()); let mut o = vec![4, b.len() as u8]; o.extend(b); o }
pub fn frame(more: bool, d: &[u8]) -> Vec<u8> { let mut o = vec![more as u8, d.len() as u8]; o.extend_from_slice(d); o }
pub fn decode_frames(mut b: &[u8]) -> Vec<String> { // after greeting; returns printable items
    let mut out = vec![]; if b.len() >= 64 { b = &b[64..]; out.push("G".into()); }
    while b.len() >= 2 { let fl = b[0]; let (len, hdr) = if fl & 2 != 0 { (u64::from_be_bytes(b[1..9].try_into().unwrap()) as usize, 9) } else { (b[1] as usize, 2) };
        if b.len() < hdr + len { out.push(format!("PARTIAL({})", b.len())); return out; }
        let body = &b[hdr..hdr+len]; out.push(format!("{}{}:{:?}", if fl & 4 != 0 {"C"} else {"F"}, if fl & 1 != 0 {"+"} else {""}, String::from_utf8_lossy(body))); b = &b[hdr+len..]; }
    out }


impl H { pub fn break_pipe(&self) { let w = { let mut c = self.0.lock().unwrap(); c.broken = true; c.wwaker.take() }; if let Some(w) = w { w.wake(); } } }
pub fn ready_id(st: &str, id: &[u8]) -> Vec<u8> { let mut b = vec![5u8]; b.extend_from_slice(b"READY"); b.push(11); b.extend_from_slice(b"Socket-Type"); b.extend_from_slice(&(st.len() as u32).to_be_bytes()); b.extend_from_slice(st.as_bytes()); b.push(8); b.extend_from_slice(b"Identity"); b.extend_from_slice(&(id.len() as u32).to_be_bytes()); b.extend_from_slice(id); let mut o = vec![4, b.len() as u8]; o.extend(b); o }
pub fn msg(frames: &[&[u8]]) -> Vec<u8> { let mut o = vec![]; for (i, f) in frames.iter().enumerate() { o.extend(frame(i + 1 < frames.len(), f)); } o }
pub struct Peer { pub to_lib: H, pub from_lib: H }
impl Peer { pub fn items(&self) -> Vec<String> { let v = decode_frames(&self.from_lib.tap()); v[2.min(v.len())..].to_vec() } }
pub async fn attach_peer(backend: std::sync::Arc<dyn zeromq::MultiPeerBackend>, hello_ready: Vec<u8>) -> (Peer, zeromq::ZmqResult<zeromq::util::PeerIdentity>) {
    let (to_lib, from_lib) = (H::new(), H::new()); let mut hello = greeting(); hello.extend(hello_ready); to_lib.push(&hello);
    let r = zeromq::__verif::attach(backend, R(to_lib.clone()), W(from_lib.clone())).await; (Peer { to_lib, from_lib }, r) }
