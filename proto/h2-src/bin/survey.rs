#[path = "../sim.rs"] mod sim;
use sim::*;
use std::sync::atomic::AtomicUsize;
use std::sync::Arc;
use std::task::Poll;
use zeromq::prelude::*;
use zeromq::*;
fn show(m: &ZmqMessage) -> Vec<String> { m.iter().map(|f| if f.len() > 20 { format!("<{}B>", f.len()) } else { String::from_utf8_lossy(f).to_string() }).collect() }
fn main() {
    let rt = tokio::runtime::Builder::new_current_thread().enable_all().build().unwrap();
    rt.block_on(async {
        let w = Arc::new(CountWaker(AtomicUsize::new(0)));
        println!("== S1 PUSH round robin");
        let mut push = PushSocket::new();
        let r = push.send(ZmqMessage::from("m0")).await; println!("no peers: {:?}", r.map_err(|e| match e { ZmqError::ReturnToSender { message, .. } => format!("ReturnToSender{:?}", show(&message)), e => e.to_string() }));
        let mut peers = vec![]; for _ in 0..3 { peers.push(attach_peer(push.backend(), ready("PULL")).await.0); }
        for i in 0..7 { push.send(ZmqMessage::from(format!("m{}", i + 1))).await.unwrap(); if i == 3 { peers.push(attach_peer(push.backend(), ready("PULL")).await.0); println!("  (4th peer joined after m4)"); } }
        for (i, p) in peers.iter().enumerate() { println!("peer{} got {:?}", i, p.items()); }
        peers[0].from_lib.credit(Some(3)); peers[1].from_lib.credit(Some(0));
        for i in 0..2 { let mut f = Box::pin(push.send(ZmqMessage::from(format!("x{}", i)))); let mut polls = 0; let mut done = false; for _ in 0..3 { polls += 1; if poll_once(&mut f, &w).is_ready() { done = true; break; } } println!("send x{} with peer0 credit=3/peer1 stalled: done={} after {} polls", i, done, polls); if !done { break; } }

        println!("== S3 ROUTER identities and routing");
        let mut router = RouterSocket::new();
        let (pa, ra) = attach_peer(router.backend(), ready_id("DEALER", b"A")).await; let (pb, rb) = attach_peer(router.backend(), ready("DEALER")).await;
        println!("attach A -> {:?}; attach auto -> id {} bytes", ra.map(|i| i.to_vec()), rb.unwrap().len());
        pa.to_lib.push(&msg(&[b"hello", b"from-A"])); pb.to_lib.push(&msg(&[b"from-auto"]));
        let m1 = router.recv().await.unwrap(); let m2 = router.recv().await.unwrap();
        println!("recv1 {:?}\nrecv2 first-frame-len={} rest={:?}", show(&m1), m2.get(0).unwrap().len(), &show(&m2)[1..]);
        let auto_id = if m1.get(0).unwrap().as_ref() == b"A" { m2.get(0).unwrap().clone() } else { m1.get(0).unwrap().clone() };
        let mk = |frames: Vec<bytes::Bytes>| ZmqMessage::try_from(frames).unwrap();
        println!("send to A -> {:?}", router.send(mk(vec!["A".into(), "".into(), "to-A".into()])).await.map_err(|e| e.to_string()));
        println!("send to auto -> {:?}", router.send(mk(vec![auto_id.clone(), "to-auto".into()])).await.map_err(|e| e.to_string()));
        println!("send to unknown -> {:?}", router.send(mk(vec!["nobody".into(), "x".into()])).await.map_err(|e| e.to_string()));
        println!("A got {:?}; auto got {:?}", pa.items(), pb.items());
        pa.to_lib.close(); pa.from_lib.break_pipe();
        { let mut f = Box::pin(router.recv()); let _ = poll_once(&mut f, &w); }
        println!("after A closed+broken: send to A -> {:?}", router.send(mk(vec!["A".into(), "late".into()])).await.map_err(|e| e.to_string()));
        println!("A halves released (r,w) = {:?}", (pa.to_lib.flags().0, pa.from_lib.flags().1));

        println!("== S4 REP envelope");
        let mut rep = RepSocket::new();
        let (pd, _) = attach_peer(rep.backend(), ready("DEALER")).await; let (pq, _) = attach_peer(rep.backend(), ready("REQ")).await;
        pd.to_lib.push(&msg(&[b"id1", b"id2", b"", b"p1", b"", b"p3"]));
        let m = rep.recv().await.unwrap(); println!("recv {:?}", show(&m));
        pq.to_lib.push(&msg(&[b"", b"q1"]));
        println!("send reply -> {:?}", rep.send(ZmqMessage::from("r1")).await.map_err(|e| e.to_string()));
        println!("dealer-peer got {:?}; req-peer got {:?}", pd.items(), pq.items());
        println!("send without request -> {:?}", rep.send(ZmqMessage::from("r2")).await.map_err(|e| e.to_string()));
        let m = rep.recv().await.unwrap(); println!("recv {:?}", show(&m)); rep.send(ZmqMessage::from("r-q1")).await.unwrap(); println!("req-peer got {:?}", pq.items());
        pq.to_lib.push(&msg(&[b"single"])); println!("single-frame request -> {:?}", rep.recv().await.map(|m| show(&m)).map_err(|e| e.to_string()));

        println!("== S5 XPUB verbatim + subscription takes effect at recv");
        let mut xpub = XPubSocket::new();
        let (ps, _) = attach_peer(xpub.backend(), ready("SUB")).await;
        ps.to_lib.push(&msg(&[b"\x01a"])); ps.to_lib.push(&msg(&[b"\x07junk", b"second"]));
        xpub.send(ZmqMessage::from("a-before-recv")).await.unwrap();
        println!("recv {:?}", show(&xpub.recv().await.unwrap())); xpub.send(ZmqMessage::from("a-after-recv")).await.unwrap();
        println!("recv {:?}", show(&xpub.recv().await.unwrap()));
        println!("sub got {:?}", ps.items());

        println!("== S6 proxy(ROUTER, DEALER, capture PUSH) polled by hand");
        let (front, back, cap) = (RouterSocket::new(), DealerSocket::new(), PushSocket::new());
        let (c1, _) = attach_peer(front.backend(), ready_id("REQ", b"c1")).await; let (c2, _) = attach_peer(front.backend(), ready_id("REQ", b"c2")).await;
        let (w1, _) = attach_peer(back.backend(), ready("REP")).await; let (w2, _) = attach_peer(back.backend(), ready("REP")).await;
        let (cp, _) = attach_peer(cap.backend(), ready("PULL")).await;
        let mut px = Box::pin(proxy(front, back, Some(Box::new(cap))));
        c1.to_lib.push(&msg(&[b"", b"req-c1", b"part2"])); c2.to_lib.push(&msg(&[b"", b"req-c2"])); w1.to_lib.push(&msg(&[b"c2", b"", b"early-reply-to-c2"]));
        let mut polls = 0; loop { let before = w.0.load(std::sync::atomic::Ordering::SeqCst); polls += 1; match poll_once(&mut px, &w) { Poll::Ready(r) => { println!("proxy ended: {:?}", r.map_err(|e| e.to_string())); break; } Poll::Pending => { if w.0.load(std::sync::atomic::Ordering::SeqCst) == before { break; } } } }
        println!("proxy parked after {} polls", polls);
        println!("w1 got {:?}\nw2 got {:?}\nc1 got {:?}\nc2 got {:?}\ncapture got {:?}", w1.items(), w2.items(), c1.items(), c2.items(), cp.items());

        println!("== S7 ROUTER/REP/SUB peer cut mid-frame, other peer healthy");
        let mut router = RouterSocket::new();
        let (bad, _) = attach_peer(router.backend(), ready_id("DEALER", b"bad")).await; let (good, _) = attach_peer(router.backend(), ready_id("DEALER", b"good")).await;
        bad.to_lib.push(&[0x00, 0x09, b'x']); bad.to_lib.close(); good.to_lib.push(&msg(&[b"g1"])); good.to_lib.push(&msg(&[b"g2"]));
        for i in 0..3 { let mut f = Box::pin(router.recv()); let r = poll_once(&mut f, &w); println!("router recv#{} -> {:?}", i, match r { Poll::Ready(r) => format!("{:?}", r.map(|m| show(&m)).map_err(|e| e.to_string())), Poll::Pending => "Pending".into() }); }
        println!("bad halves released (r,w) = {:?}", (bad.to_lib.flags().0, bad.from_lib.flags().1));
        let mut sub = SubSocket::new();
        let (bad, _) = attach_peer(sub.backend(), ready("PUB")).await; let (good, _) = attach_peer(sub.backend(), ready("PUB")).await;
        bad.to_lib.push(&[0x00, 0x09, b'x']); bad.to_lib.close(); good.to_lib.push(&msg(&[b"g1"])); good.to_lib.push(&msg(&[b"g2"]));
        for i in 0..5 { let mut f = Box::pin(sub.recv()); let r = poll_once(&mut f, &w); println!("sub recv#{} -> {:?}", i, match r { Poll::Ready(r) => format!("{:?}", r.map(|m| show(&m)).map_err(|e| e.to_string())), Poll::Pending => "Pending".into() }); }

        println!("== S9 SUB duplicate subscribe then unsubscribe");
        let mut sub = SubSocket::new();
        let (old, _) = attach_peer(sub.backend(), ready("PUB")).await;
        sub.subscribe("t").await.unwrap(); sub.subscribe("t").await.unwrap(); sub.unsubscribe("t").await.unwrap();
        let (late, _) = attach_peer(sub.backend(), ready("PUB")).await;
        println!("old peer told {:?}; late joiner told {:?}", old.items(), late.items());
        old.from_lib.break_pipe();
        println!("subscribe with one broken peer -> {:?}", sub.subscribe("u").await.map_err(|e| e.to_string()));
        println!("late joiner now told {:?}", late.items());

        println!("== S11 incompatible / bad handshake releases the connection");
        let pull = PullSocket::new();
        let (p, r) = attach_peer(pull.backend(), ready("REQ")).await; println!("PULL<-REQ attach -> {:?}; halves released {:?}", r.map_err(|e| e.to_string()).map(|_| ()), (p.to_lib.flags().0, p.from_lib.flags().1));
        let big_id = vec![b'i'; 256]; let mut rd = ready_id("PUSH", &big_id); rd[0] = 0x06; let body_len = rd.len() - 2; let mut long = vec![0x06u8]; long.extend_from_slice(&(body_len as u64).to_be_bytes()); long.extend_from_slice(&rd[2..]);
        let (p, r) = attach_peer(pull.backend(), long).await; println!("identity 256B attach -> {:?}; halves released {:?}", r.map_err(|e| e.to_string()).map(|_| ()), (p.to_lib.flags().0, p.from_lib.flags().1));
    });
}
