// Prototype: replay TLC-generated FairQueue behaviours on the real fair queue.
use futures::task::ArcWake;
use futures::Stream;
use serde_json::Value;
use std::collections::HashMap;
use std::pin::Pin;
use std::sync::atomic::{AtomicUsize, Ordering};
use std::sync::{Arc, Mutex};
use std::task::{Context, Poll, Waker};
use zeromq::__verif::{FairQueueProbe, ProbeHandle};

#[derive(Default)]
struct Src { avail: usize, closed: bool, waker: Option<Waker>, seq: usize }
struct World {
    script: Vec<Value>, cur: usize, srcs: HashMap<String, Src>,
    handle: Option<ProbeHandle<Scripted, String>>, drift: Vec<String>,
}
type W = Arc<Mutex<World>>;
struct Scripted { k: String, w: W }

fn other_thread_action(w: &W, e: &Value) {
    // executes one "other thread" model action against the real queue / scripted sources
    let a = e["a"].as_str().unwrap(); let k = e["k"].as_str().unwrap().to_string();
    match a {
        "Insert" => { let h = { let mut g = w.lock().unwrap(); g.srcs.insert(k.clone(), Src::default()); g.handle.clone().unwrap() }; h.insert(k.clone(), Scripted { k, w: w.clone() }); }
        "Produce" => { w.lock().unwrap().srcs.get_mut(&k).unwrap().avail += 1; }
        "Close" => { w.lock().unwrap().srcs.get_mut(&k).unwrap().closed = true; }
        "Fire" => { let wk = w.lock().unwrap().srcs.get_mut(&k).unwrap().waker.take(); match wk { Some(wk) => wk.wake(), None => w.lock().unwrap().drift.push(format!("Fire({}) but no waker registered", k)) } }
        _ => unreachable!("{}", a),
    }
}
fn is_other(e: &Value) -> bool { matches!(e["a"].as_str().unwrap(), "Insert" | "Produce" | "Close" | "Fire") }

impl Stream for Scripted {
    type Item = (String, usize);
    fn poll_next(self: Pin<&mut Self>, cx: &mut Context<'_>) -> Poll<Option<Self::Item>> {
        let w = self.w.clone();
        // 1. the model must be at L1(res=poll, k=self.k), possibly after L3 / skipped L1s
        loop {
            let e = { let g = w.lock().unwrap(); g.script.get(g.cur).cloned() };
            let Some(e) = e else { w.lock().unwrap().drift.push("script exhausted inside window".into()); break };
            let a = e["a"].as_str().unwrap();
            if a == "L3" || (a == "L1" && e["res"] == "l1") { w.lock().unwrap().cur += 1; continue; }
            if a == "L1" && e["res"] == "poll" { if e["k"].as_str().unwrap() != self.k { w.lock().unwrap().drift.push(format!("model polls {} but code polls {}", e["k"], self.k)); } w.lock().unwrap().cur += 1; break; }
            w.lock().unwrap().drift.push(format!("code polls stream {} but model is at {}", self.k, e)); break;
        }
        // 2. pre-window other-thread actions, until PollStream
        loop {
            let e = { let g = w.lock().unwrap(); g.script.get(g.cur).cloned() };
            match e { Some(e) if is_other(&e) => { w.lock().unwrap().cur += 1; other_thread_action(&w, &e); } _ => break }
        }
        // 3. the stream's own answer
        let res = { let mut g = w.lock().unwrap(); let s = g.srcs.get_mut(&self.k).unwrap();
            if s.avail > 0 { s.avail -= 1; s.seq += 1; Poll::Ready(Some((self.k.clone(), s.seq))) } else if s.closed { Poll::Ready(None) } else { s.waker = Some(cx.waker().clone()); Poll::Pending } };
        { let mut g = w.lock().unwrap(); let e = g.script.get(g.cur).cloned();
          let want = match &res { Poll::Ready(Some(_)) => "l2", Poll::Ready(None) => "l1", Poll::Pending => "l3" };
          match e { Some(e) if e["a"] == "PollStream" => { if e["res"] != want { g.drift.push(format!("PollStream model {} code {}", e["res"], want)); } g.cur += 1; } other => g.drift.push(format!("expected PollStream, model at {:?}", other)) } }
        // 4. post-window other-thread actions, until L2/L3/L1
        loop {
            let e = { let g = w.lock().unwrap(); g.script.get(g.cur).cloned() };
            match e { Some(e) if is_other(&e) => { w.lock().unwrap().cur += 1; other_thread_action(&w, &e); } _ => break }
        }
        res
    }
}
struct CountWaker(AtomicUsize);
impl ArcWake for CountWaker { fn wake_by_ref(a: &Arc<Self>) { a.0.fetch_add(1, Ordering::SeqCst); } }

fn snap_eq(model: &Value, h: &ProbeHandle<Scripted, String>, wakes: usize, delivered: &HashMap<String, usize>) -> Result<(), String> {
    let s = h.snapshot();
    let mut mready: Vec<(usize, String)> = model["ready"].as_array().unwrap().iter().map(|e| (e[0].as_u64().unwrap() as usize, e[1].as_str().unwrap().to_string())).collect(); mready.sort();
    let mut mstreams: Vec<String> = model["streams"].as_array().unwrap().iter().map(|e| e.as_str().unwrap().to_string()).collect(); mstreams.sort();
    if mready != s.ready { return Err(format!("ready model {:?} code {:?}", mready, s.ready)); }
    if mstreams != s.streams { return Err(format!("streams model {:?} code {:?}", mstreams, s.streams)); }
    if model["waker"].as_bool().unwrap() != s.waker { return Err(format!("waker model {} code {}", model["waker"], s.waker)); }
    if model["counter"].as_u64().unwrap() as usize != s.counter { return Err(format!("counter model {} code {}", model["counter"], s.counter)); }
    if model["wakes"].as_u64().unwrap() as usize != wakes { return Err(format!("wakes model {} code {}", model["wakes"], wakes)); }
    for (k, v) in model["delivered"].as_object().unwrap() { if v.as_u64().unwrap() as usize != *delivered.get(k).unwrap_or(&0) { return Err(format!("delivered[{}] model {} code {:?}", k, v, delivered.get(k))); } }
    Ok(())
}

fn main() {
    let path = std::env::args().nth(1).unwrap();
    let (mut nbeh, mut nsteps, mut ncmp, mut ndrift, mut nwindow) = (0, 0, 0, 0, 0);
    for line in std::fs::read_to_string(path).unwrap().lines() {
        let script: Vec<Value> = serde_json::from_str(line).unwrap();
        nbeh += 1; nsteps += script.len();
        let mut probe: FairQueueProbe<Scripted, String> = FairQueueProbe::new(true);
        let w: W = Arc::new(Mutex::new(World { script, cur: 0, srcs: HashMap::new(), handle: Some(probe.handle()), drift: vec![] }));
        let cw = Arc::new(CountWaker(AtomicUsize::new(0))); let waker = futures::task::waker(cw.clone());
        let mut delivered: HashMap<String, usize> = HashMap::new(); let mut last_seq: HashMap<String, usize> = HashMap::new();
        loop {
            let e = { let g = w.lock().unwrap(); g.script.get(g.cur).cloned() };
            let Some(e) = e else { break };
            let a = e["a"].as_str().unwrap().to_string();
            if is_other(&e) { w.lock().unwrap().cur += 1; other_thread_action(&w, &e); continue; }
            match a.as_str() {
                "Cancel" => { w.lock().unwrap().cur += 1; }
                "Begin" => {
                    w.lock().unwrap().cur += 1;
                    let before = w.lock().unwrap().cur;
                    let mut cx = Context::from_waker(&waker);
                    let r = probe.poll_next(&mut cx);
                    // consume the poller's trailing actions and find the expected snapshot
                    let mut expect: Option<Value> = None;
                    loop {
                        let e = { let g = w.lock().unwrap(); g.script.get(g.cur).cloned() };
                        let Some(e) = e else { break };
                        let a = e["a"].as_str().unwrap();
                        if a == "L3" || (a == "L1" && e["res"] == "l1") { w.lock().unwrap().cur += 1; continue; }
                        if a == "L2" { if !matches!(r, Poll::Ready(Some(_))) { w.lock().unwrap().drift.push(format!("model L2 but code returned {:?}", r.is_ready())); } expect = Some(e["snap"].clone()); w.lock().unwrap().cur += 1; break; }
                        if a == "L1" && e["res"] == "parked" { if !r.is_pending() { w.lock().unwrap().drift.push("model parked but code returned Ready".into()); } expect = Some(e["snap"].clone()); w.lock().unwrap().cur += 1; break; }
                        w.lock().unwrap().drift.push(format!("after poll_next model is at {}", e)); break;
                    }
                    if w.lock().unwrap().cur - before > 2 { nwindow += 1; }
                    if let Poll::Ready(Some((k, (_, seq)))) = &r { *delivered.entry(k.clone()).or_default() += 1; let l = last_seq.entry(k.clone()).or_default(); if *seq != *l + 1 { w.lock().unwrap().drift.push(format!("A-LEVEL: out of order {} {}", k, seq)); } *l = *seq; }
                    if let Some(snap) = expect { ncmp += 1; if let Err(m) = snap_eq(&snap, &probe.handle(), cw.0.load(Ordering::SeqCst), &delivered) { w.lock().unwrap().drift.push(m); } }
                }
                other => { w.lock().unwrap().drift.push(format!("unexpected top-level model action {}", other)); w.lock().unwrap().cur += 1; }
            }
            if !w.lock().unwrap().drift.is_empty() { break; }
        }
        let d = w.lock().unwrap().drift.clone();
        if !d.is_empty() { ndrift += 1; if ndrift <= 5 { println!("behaviour {}: DRIFT {:?} at step {}", nbeh, d, w.lock().unwrap().cur); } }
        w.lock().unwrap().handle = None; // break Arc cycle
    }
    println!("behaviours={} model_steps={} polls_compared={} polls_with_window_activity={} drifted={}", nbeh, nsteps, ncmp, nwindow, ndrift);
}
