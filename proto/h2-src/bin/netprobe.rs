// Prototype: how deterministic are listener semantics on real TCP/IPC in this sandbox?
use std::time::{Duration, Instant};
use tokio::io::{AsyncReadExt, AsyncWriteExt};
use tokio::net::{TcpStream, UnixStream};
use zeromq::prelude::*;
use zeromq::*;

fn greeting() -> Vec<u8> { let mut g = vec![0u8; 64]; g[0]=0xff; g[9]=0x7f; g[10]=3; g[12..16].copy_from_slice(b"NULL"); g }
fn ready(st: &str) -> Vec<u8> { let mut b = vec![5u8]; b.extend_from_slice(b"READY"); b.push(11); b.extend_from_slice(b"Socket-Type"); b.extend_from_slice(&(st.len() as u32).to_be_bytes()); b.extend_from_slice(st.as_bytes()); let mut o = vec![4, b.len() as u8]; o.extend(b); o }
async fn tcp_probe(addr: &str) -> &'static str { match tokio::time::timeout(Duration::from_secs(5), TcpStream::connect(addr)).await { Ok(Ok(_)) => "accepted", Ok(Err(e)) if e.kind() == std::io::ErrorKind::ConnectionRefused => "refused", Ok(Err(_)) => "other-error", Err(_) => "timeout" } }
async fn ipc_probe(p: &str) -> &'static str { match UnixStream::connect(p).await { Ok(_) => "accepted", Err(e) if e.kind() == std::io::ErrorKind::ConnectionRefused => "refused", Err(e) if e.kind() == std::io::ErrorKind::NotFound => "notfound", Err(_) => "other-error" } }
fn fds() -> usize { std::fs::read_dir("/proc/self/fd").unwrap().count() }

#[tokio::main(flavor = "multi_thread", worker_threads = 4)]
async fn main() {
    let n: usize = std::env::args().nth(1).map(|s| s.parse().unwrap()).unwrap_or(100);
    let dir = format!("/tmp/exp/ipc-{}", std::process::id()); std::fs::create_dir_all(&dir).unwrap();
    let mut stats = std::collections::BTreeMap::<String, usize>::new();
    let mut bump = |k: String| *stats.entry(k).or_default() += 1;
    let fd0 = fds();
    let tasks0 = tokio::runtime::Handle::current().metrics().num_alive_tasks();
    for i in 0..n {
        for host in ["127.0.0.1", "[::1]", "localhost"] {
            // bind -> probe accepted -> handshake -> unbind -> probe refused immediately -> established conn still works
            let mut pull = PullSocket::new();
            let ep = pull.bind(&format!("tcp://{}:0", host)).await.unwrap();
            let addr = ep.to_string().replace("tcp://", "");
            bump(format!("tcp {} after-bind {}", host, tcp_probe(&addr).await));
            let mut s = TcpStream::connect(&addr).await.unwrap();
            s.write_all(&greeting()).await.unwrap(); s.write_all(&ready("PUSH")).await.unwrap();
            let mut buf = vec![0u8; 64 + 28]; s.read_exact(&mut buf).await.unwrap(); // lib greeting + READY(PULL)
            pull.unbind(ep.clone()).await.unwrap();
            bump(format!("tcp {} after-unbind {}", host, tcp_probe(&addr).await));
            s.write_all(&[0, 2, b'h', b'i']).await.unwrap();
            let r = tokio::time::timeout(Duration::from_secs(5), pull.recv()).await;
            bump(format!("tcp {} established-after-unbind {}", host, if matches!(r, Ok(Ok(_))) { "delivers" } else { "BROKEN" }));
            // drop without close: how long until the peer sees EOF
            let ep2 = pull.bind(&format!("tcp://{}:0", host)).await.unwrap();
            let addr2 = ep2.to_string().replace("tcp://", "");
            drop(pull);
            let t = Instant::now(); let mut settled = "not-settled";
            while t.elapsed() < Duration::from_secs(5) { if tcp_probe(&addr2).await == "refused" { settled = "settled"; break; } tokio::time::sleep(Duration::from_millis(1)).await; }
            bump(format!("tcp {} drop-listener {} <{}ms", host, settled, (t.elapsed().as_millis() / 10 + 1) * 10));
            let t = Instant::now(); let mut b1 = [0u8; 1];
            let r = tokio::time::timeout(Duration::from_secs(5), s.read(&mut b1)).await;
            bump(format!("tcp {} drop-peer-eof {:?} <{}ms", host, r.map(|r| r.map_err(|e| e.kind())), (t.elapsed().as_millis() / 10 + 1) * 10));
        }
        // ipc
        let path = format!("{}/s{}", dir, i);
        let mut rep = RepSocket::new();
        let ep = rep.bind(&format!("ipc://{}", path)).await.unwrap();
        bump(format!("ipc after-bind {} file={}", ipc_probe(&path).await, std::path::Path::new(&path).exists()));
        bump(format!("ipc dup-bind {}", if rep.bind(&format!("ipc://{}", path)).await.is_err() { "fails" } else { "SUCCEEDS" }));
        bump(format!("ipc after-failed-dup-bind {} binds={}", ipc_probe(&path).await, rep.binds().len()));
        rep.unbind(ep).await.unwrap();
        bump(format!("ipc after-unbind {} file={}", ipc_probe(&path).await, std::path::Path::new(&path).exists()));
        let _ = rep.bind(&format!("ipc://{}", path)).await.unwrap();
        let errs = rep.close().await;
        bump(format!("ipc after-close errs={} {} file={}", errs.len(), ipc_probe(&path).await, std::path::Path::new(&path).exists()));
    }
    tokio::time::sleep(Duration::from_millis(200)).await;
    for (k, v) in &stats { println!("{:6} {}", v, k); }
    println!("fds before={} after={}; alive tasks before={} after={}", fd0, fds(), tasks0, tokio::runtime::Handle::current().metrics().num_alive_tasks());
    let _ = std::fs::remove_dir_all(&dir);
}
