use bytes::Bytes;
use futures::task::ArcWake;
use futures::{AsyncRead, AsyncWrite, FutureExt};
use std::collections::VecDeque;
use std::future::Future;
use std::pin::Pin;
use std::sync::atomic::{AtomicBool, AtomicUsize, Ordering};
use std::sync::{Arc, Mutex};
use std::task::{Context, Poll, Waker};
use zeromq::prelude::*;
use zeromq::*;

#[derive(Default)]
struct Chan { buf: VecDeque<u8>, eof: bool, rwaker: Option<Waker>, wwaker: Option<Waker>, credit: Option<usize>, tap: Vec<u8>, broken: bool, rdropped: bool, wdropped: bool }
#[derive(Clone)] struct H(Arc<Mutex<Chan>>);
struct R(H); struct W(H);
impl Drop for R { fn drop(&mut self) { self.0 .0.lock().unwrap().rdropped = true; } }
impl Drop for W { fn drop(&mut self) { self.0 .0.lock().unwrap().wdropped = true; } }
impl AsyncRead for R {
    fn poll_read(self: Pin<&mut Self>, cx: &mut Context<'_>, out: &mut [u8]) -> Poll<std::io::Result<usize>> {
        let mut c = self.0 .0.lock().unwrap();
        if c.buf.is_empty() { if c.eof { return Poll::Ready(Ok(0)); } c.rwaker = Some(cx.waker().clone()); return Poll::Pending; }
        let n = out.len().min(c.buf.len());
        for b in out.iter_mut().take(n) { *b = c.buf.pop_front().unwrap(); }
        Poll::Ready(Ok(n))
    }
}
impl AsyncWrite for W {
    fn poll_write(self: Pin<&mut Self>, cx: &mut Context<'_>, data: &[u8]) -> Poll<std::io::Result<usize>> {
        let mut c = self.0 .0.lock().unwrap();
        if c.broken { return Poll::Ready(Err(std::io::ErrorKind::BrokenPipe.into())); }
        let n = match c.credit { None => data.len(), Some(0) => { c.wwaker = Some(cx.waker().clone()); return Poll::Pending; } Some(k) => k.min(data.len()) };
        if let Some(k) = c.credit.as_mut() { *k -= n; }
        c.tap.extend_from_slice(&data[..n]);
        Poll::Ready(Ok(n))
    }
    fn poll_flush(self: Pin<&mut Self>, _: &mut Context<'_>) -> Poll<std::io::Result<()>> { Poll::Ready(Ok(())) }
    fn poll_close(self: Pin<&mut Self>, _: &mut Context<'_>) -> Poll<std::io::Result<()>> { Poll::Ready(Ok(())) }
}
impl H {
    fn new() -> Self { H(Arc::new(Mutex::new(Chan::default()))) }
    fn push(&self, b: &[u8]) { let w = { let mut c = self.0.lock().unwrap(); c.buf.extend(b.iter().copied()); c.rwaker.take() }; if let Some(w) = w { w.wake(); } }
    fn close(&self) { let w = { let mut c = self.0.lock().unwrap(); c.eof = true; c.rwaker.take() }; if let Some(w) = w { w.wake(); } }
    fn credit(&self, k: Option<usize>) { let w = { let mut c = self.0.lock().unwrap(); c.credit = k; c.wwaker.take() }; if let Some(w) = w { w.wake(); } }
    fn tap(&self) -> Vec<u8> { self.0.lock().unwrap().tap.clone() }
    fn flags(&self) -> (bool, bool) { let c = self.0.lock().unwrap(); (c.rdropped, c.wdropped) }
}
struct CountWaker(AtomicUsize);
impl ArcWake for CountWaker { fn wake_by_ref(a: &Arc<Self>) { a.0.fetch_add(1, Ordering::SeqCst); } }
fn poll_once<F: Future + ?Sized>(f: &mut Pin<Box<F>>, w: &Arc<CountWaker>) -> Poll<F::Output> {
    let waker = futures::task::waker(w.clone()); let mut cx = Context::from_waker(&waker); f.as_mut().poll(&mut cx)
}
fn greeting() -> Vec<u8> { let mut g = vec![0u8; 64]; g[0]=0xff; g[9]=0x7f; g[10]=3; g[12..16].copy_from_slice(b"NULL"); g }
fn ready(st: &str) -> Vec<u8> { let mut b = vec![5u8]; b.extend_from_slice(b"READY"); b.push(11); b.extend_from_slice(b"Socket-Type"); b.extend_from_slice(&(st.len() as u32).to_be_bytes()); b.extend_from_slice(st.as_bytes()); let mut o = vec![4, b.len() as u8]; o.extend(b); o }
fn frame(more: bool, d: &[u8]) -> Vec<u8> { let mut o = vec![more as u8, d.len() as u8]; o.extend_from_slice(d); o }
fn decode_frames(mut b: &[u8]) -> Vec<String> { // after greeting; returns printable items
    let mut out = vec![]; if b.len() >= 64 { b = &b[64..]; out.push("G".into()); }
    while b.len() >= 2 { let fl = b[0]; let (len, hdr) = if fl & 2 != 0 { (u64::from_be_bytes(b[1..9].try_into().unwrap()) as usize, 9) } else { (b[1] as usize, 2) };
        if b.len() < hdr + len { out.push(format!("PARTIAL({})", b.len())); return out; }
        let body = &b[hdr..hdr+len]; out.push(format!("{}{}:{:?}", if fl & 4 != 0 {"C"} else {"F"}, if fl & 1 != 0 {"+"} else {""}, String::from_utf8_lossy(body))); b = &b[hdr+len..]; }
    out }

struct GateImpl { hold: AtomicBool, reached: AtomicBool, waker: Mutex<Option<Waker>> }
impl zeromq::__verif::Gate for GateImpl {
    fn at(&self, name: &'static str) -> Pin<Box<dyn Future<Output = ()> + Send>> {
        let me: &'static GateImpl = unsafe { &*(self as *const GateImpl) }; // scratch prototype only
        Box::pin(futures::future::poll_fn(move |cx| { if me.hold.load(Ordering::SeqCst) { println!("  [gate] task held at {}", name); me.reached.store(true, Ordering::SeqCst); *me.waker.lock().unwrap() = Some(cx.waker().clone()); Poll::Pending } else { Poll::Ready(()) } }))
    }
}

fn main() {
    let rt = tokio::runtime::Builder::new_current_thread().enable_all().build().unwrap();
    let gate: &'static GateImpl = Box::leak(Box::new(GateImpl { hold: AtomicBool::new(false), reached: AtomicBool::new(false), waker: Mutex::new(None) }));
    zeromq::__verif::install_gate(unsafe { Arc::from_raw(gate as *const GateImpl) });
    rt.block_on(async {
        let w = Arc::new(CountWaker(AtomicUsize::new(0)));
        // (d) hand-over + (a) REQ cancel
        println!("== REQ: handshake in one write, cancel recv");
        let mut req = ReqSocket::new();
        let (to_lib, from_lib) = (H::new(), H::new());
        let mut hello = greeting(); hello.extend(ready("REP")); to_lib.push(&hello);
        let mut att = Box::pin(zeromq::__verif::attach(req.backend(), R(to_lib.clone()), W(from_lib.clone())));
        let mut n = 0; let id = loop { n += 1; if let Poll::Ready(r) = poll_once(&mut att, &w) { break r; } };
        println!("attach after {} polls -> {:?}; lib wrote {:?}", n, id.is_ok(), decode_frames(&from_lib.tap()));
        drop(att);
        let r = req.send(ZmqMessage::from("req1")).await; println!("send1 -> {:?}", r.is_ok());
        { let mut rf = Box::pin(req.recv()); println!("recv poll#1 -> {:?}", poll_once(&mut rf, &w).map(|r| r.map(|m| m.len()))); } // dropped here
        let r = req.send(ZmqMessage::from("req2")).await; println!("send2 after abandoned recv -> {:?}  (property: must be refused)", r.as_ref().map_err(|e| e.to_string()));
        let mut rep = frame(true, b""); rep.extend(frame(false, b"reply-to-req1")); to_lib.push(&rep);
        let r = req.recv().await; println!("recv -> {:?}", r.map(|m| String::from_utf8_lossy(m.get(0).unwrap()).to_string()));
        println!("wire from REQ: {:?}", decode_frames(&from_lib.tap()));

        // (b) SUB join race
        println!("== SUB: subscribe during join window");
        let mut sub = SubSocket::new();
        sub.subscribe("a").await.unwrap();
        let (to_lib, from_lib) = (H::new(), H::new());
        let mut hello = greeting(); hello.extend(ready("PUB")); to_lib.push(&hello);
        gate.hold.store(true, Ordering::SeqCst);
        let mut att = Box::pin(zeromq::__verif::attach(sub.backend(), R(to_lib.clone()), W(from_lib.clone())));
        let mut n = 0; while !gate.reached.load(Ordering::SeqCst) { n += 1; assert!(poll_once(&mut att, &w).is_pending()); }
        println!("attach held after {} polls", n);
        sub.subscribe("b").await.unwrap();
        gate.hold.store(false, Ordering::SeqCst);
        let r = loop { if let Poll::Ready(r) = poll_once(&mut att, &w) { break r; } };
        println!("attach -> {:?}; peer was told {:?}  (property: a and b)", r.is_ok(), &decode_frames(&from_lib.tap())[2..]);

        // (c) PULL orderly EOF: is the connection released?
        println!("== PULL: orderly EOF");
        let mut pull = PullSocket::new();
        let (to_lib, from_lib) = (H::new(), H::new());
        let mut hello = greeting(); hello.extend(ready("PUSH")); hello.extend(frame(false, b"m1")); to_lib.push(&hello);
        zeromq::__verif::attach(pull.backend(), R(to_lib.clone()), W(from_lib.clone())).await.unwrap();
        println!("recv -> {:?}", pull.recv().await.map(|m| m.len()));
        to_lib.close();
        { let mut rf = Box::pin(pull.recv()); for i in 0..3 { println!("recv poll#{} -> {:?} wakes={}", i, poll_once(&mut rf, &w).map(|r| r.map(|m| m.len()).map_err(|e| e.to_string())), w.0.load(Ordering::SeqCst)); } }
        println!("after EOF observed: (read half dropped, write half dropped) = {:?}  (property: both)", to_lib.flags().0 .then(|| ()).map(|_| (to_lib.flags().0, from_lib.flags().1)).unwrap_or((to_lib.flags().0, from_lib.flags().1)));

        // PUB with library-spawned reader tasks: quiescence by yield rounds
        println!("== PUB: spawned reader tasks, quiescence by yield rounds");
        let mut publ = PubSocket::new();
        let mut peers = vec![];
        for _ in 0..2 { let (to_lib, from_lib) = (H::new(), H::new()); let mut hello = greeting(); hello.extend(ready("SUB")); to_lib.push(&hello);
            zeromq::__verif::attach(publ.backend(), R(to_lib.clone()), W(from_lib.clone())).await.unwrap(); peers.push((to_lib, from_lib)); }
        peers[0].0.push(&frame(false, b"\x01a"));
        peers[1].0.push(&frame(false, b"\x01")); peers[1].0.push(&frame(false, b"\x00"));
        let consumed = |ps: &Vec<(H, H)>| -> usize { ps.iter().map(|p| p.0 .0.lock().unwrap().buf.len()).sum() };
        let mut rounds = 0; let mut stable = 0; let mut last = consumed(&peers);
        while stable < 2 { tokio::task::yield_now().await; rounds += 1; let c = consumed(&peers); if c == last { stable += 1 } else { stable = 0; last = c; } }
        println!("quiescent after {} yield rounds; unread bytes left in pipes = {}", rounds, last);
        for m in ["ab", "b", "a"] { let mut f = Box::pin(publ.send(ZmqMessage::from(m))); let mut n = 0; loop { n += 1; if poll_once(&mut f, &w).is_ready() { break; } } println!("publish {:?} completed after {} poll(s)", m, n); }
        for (i, p) in peers.iter().enumerate() { println!("subscriber {} received {:?}", i, &decode_frames(&p.1.tap())[2..]); }
        // stalled subscriber: credit 0 -> publishes must still complete in one poll
        peers[0].1.credit(Some(0));
        let big = vec![b'a'; 100_000];
        for i in 0..4 { let mut f = Box::pin(publ.send(ZmqMessage::from(big.clone()))); let done = poll_once(&mut f, &w).is_ready(); println!("publish big#{} with subscriber 0 stalled: completed in one poll = {}", i, done); }
        peers[0].1.credit(None);
        let mut f = Box::pin(publ.send(ZmqMessage::from("a-last"))); let _ = poll_once(&mut f, &w); drop(f);
        let items = decode_frames(&peers[0].1.tap()); println!("subscriber 0 after resume: {} items, last = {:?}, big copies = {}", items.len(), items.last().map(|s| s.chars().take(12).collect::<String>()), items.iter().filter(|s| s.len() > 1000).count());

        // (8b) DEALER mid-frame EOF repeated errors
        println!("== DEALER: EOF inside a frame");
        let mut dealer = DealerSocket::new();
        let (to_lib, from_lib) = (H::new(), H::new());
        let mut hello = greeting(); hello.extend(ready("REP")); hello.extend(&[0x00, 0x05, b'x']); to_lib.push(&hello);
        zeromq::__verif::attach(dealer.backend(), R(to_lib.clone()), W(from_lib.clone())).await.unwrap();
        to_lib.close();
        for i in 0..3 { let r = tokio::time::timeout(std::time::Duration::from_millis(50), dealer.recv()).await; println!("recv#{} -> {:?}", i, r.map(|r| r.map(|m| m.len()).map_err(|e| e.to_string())).map_err(|_| "pending")); }
    });
}
