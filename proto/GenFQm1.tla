---- MODULE GenFQm1 ----
EXTENDS FQm1, Json
CONSTANT Depth
VARIABLES hist, wakes
gvars == <<vars, hist, wakes>>
Snap == [ready |-> heap', streams |-> streams', waker |-> wslot', counter |-> counter', wakes |-> wakes', delivered |-> delivered']
Inj == pc \in {"idle", "parked", "poll", "l2", "l3"}     \* points where harness code can run
Log(r) == hist' = Append(hist, r)
GInit == Init /\ hist = <<>> /\ wakes = 0
GNext ==
  \/ \E k \in Keys : Inj /\ Insert(k) /\ wakes' = wakes + (IF wslot THEN 1 ELSE 0) /\ Log([a |-> "Insert", k |-> k])
  \/ \E k \in Keys : Inj /\ Produce(k) /\ UNCHANGED wakes /\ Log([a |-> "Produce", k |-> k])
  \/ \E k \in Keys : Inj /\ Close(k) /\ UNCHANGED wakes /\ Log([a |-> "Close", k |-> k])
  \/ \E k \in Keys : Inj /\ Fire(k) /\ wakes' = wakes + (IF wslot THEN 1 ELSE 0) /\ Log([a |-> "Fire", k |-> k])
  \/ Begin /\ UNCHANGED wakes /\ Log([a |-> "Begin"])
  \/ L1 /\ UNCHANGED wakes /\ Log([a |-> "L1", res |-> pc', k |-> IF cur' = <<>> THEN "" ELSE cur'[2], snap |-> Snap])
  \/ PollStream /\ UNCHANGED wakes /\ Log([a |-> "PollStream", res |-> pc'])
  \/ L2 /\ UNCHANGED wakes /\ Log([a |-> "L2", k |-> cur[2], snap |-> Snap])
  \/ L3 /\ UNCHANGED wakes /\ Log([a |-> "L3"])
  \/ pc = "parked" /\ ~notified /\ pc' = "idle" /\ UNCHANGED <<heap, streams, counter, wslot, cur, avail, left, closed, reg, fire, notified, joined, delivered, wait, wakes>> /\ Log([a |-> "Cancel"])
GSpec == GInit /\ [][GNext]_gvars
Bound == Len(hist) <= Depth
AtRest == pc \in {"idle", "parked"}
Emit == (Len(hist) >= Depth /\ AtRest) => PrintT(<<"REPLAY", ToJson(hist)>>)
Stop == ~(Len(hist) >= Depth /\ AtRest)
====
