SPECIFICATION GSpec
CONSTANTS Keys = {"a", "b"}
 MaxItems = 2
 MaxTicket = 12
 NoKey = "none"
 Depth = 100
INVARIANTS NoLostWakeup
CHECK_DEADLOCK FALSE
