---- MODULE FairQueue ----
(* Prototype: implementation-shaped model of src/fair_queue.rs at lock granularity. *)
EXTENDS Naturals, Sequences, FiniteSets, TLC, SequencesExt
CONSTANTS Keys, MaxItems, MaxTicket, NoKey

VARIABLES
  heap,      \* set of <<ticket, key, n>> events; n disambiguates duplicates
  streams,   \* keys whose stream object is in the map
  counter,
  wslot,     \* receiver waker slot is Some
  pc,        \* "idle" | "l1" | "poll" | "l2" | "l3" | "parked"
  cur,       \* event checked out by the poller, or <<>>
  avail,     \* avail[k]: items readable now
  left,      \* left[k]: items the peer will still produce
  closed,    \* closed[k]: peer has closed (EOF after avail drained)
  reg,       \* reg[k]: 0 = no waker registered, else ticket+1 of registered StreamWaker
  fire,      \* fire[k]: source has decided to wake its registered waker (pending call)
  notified,  \* receiver task has been woken and not yet re-polled
  joined,    \* keys ever inserted
  delivered, \* delivered[k]: count
  wait       \* wait[k]: deliveries to others since k became ready+signalled

vars == <<heap, streams, counter, wslot, pc, cur, avail, left, closed, reg, fire, notified, joined, delivered, wait>>

Ev(t, k) == <<t, k>>
HasEv(k) == \E e \in heap : e[2] = k
MinEv == CHOOSE e \in heap : \A f \in heap : e[1] < f[1] \/ (e[1] = f[1] /\ e[3] <= f[3])
NextDup(t, k) == Cardinality({e \in heap : e[1] = t /\ e[2] = k})

Init ==
  /\ heap = {} /\ streams = {} /\ counter = 0 /\ wslot = FALSE /\ pc = "idle" /\ cur = <<>>
  /\ avail = [k \in Keys |-> 0] /\ left = [k \in Keys |-> MaxItems] /\ closed = [k \in Keys |-> FALSE]
  /\ reg = [k \in Keys |-> 0] /\ fire = [k \in Keys |-> FALSE] /\ notified = FALSE /\ joined = {}
  /\ delivered = [k \in Keys |-> 0] /\ wait = [k \in Keys |-> 0]

\* ---- other threads -------------------------------------------------------
Insert(k) ==
  /\ k \notin joined /\ counter < MaxTicket
  /\ joined' = joined \cup {k}
  /\ streams' = streams \cup {k}
  /\ heap' = heap \cup {<<counter, k, 0>>}
  /\ counter' = counter + 1
  /\ notified' = (notified \/ wslot)      \* wake_by_ref without take
  /\ UNCHANGED <<wslot, pc, cur, avail, left, closed, reg, fire, delivered, wait>>

Produce(k) ==
  /\ k \in joined /\ left[k] > 0 /\ ~closed[k]
  /\ left' = [left EXCEPT ![k] = @ - 1]
  /\ avail' = [avail EXCEPT ![k] = @ + 1]
  /\ fire' = [fire EXCEPT ![k] = (reg[k] # 0)]
  /\ UNCHANGED <<heap, streams, counter, wslot, pc, cur, closed, reg, notified, joined, delivered, wait>>

Close(k) ==
  /\ k \in joined /\ ~closed[k]
  /\ closed' = [closed EXCEPT ![k] = TRUE]
  /\ fire' = [fire EXCEPT ![k] = (reg[k] # 0)]
  /\ UNCHANGED <<heap, streams, counter, wslot, pc, cur, avail, left, reg, notified, joined, delivered, wait>>

\* StreamWaker::wake_by_ref, under the queue lock
Fire(k) ==
  /\ fire[k] /\ reg[k] # 0
  /\ LET t == reg[k] - 1 IN heap' = heap \cup {<<t, k, NextDup(t, k)>>}
  /\ reg' = [reg EXCEPT ![k] = 0]
  /\ fire' = [fire EXCEPT ![k] = FALSE]
  /\ notified' = (notified \/ wslot)
  /\ wslot' = FALSE                         \* waker.take()
  /\ UNCHANGED <<streams, counter, pc, cur, avail, left, closed, joined, delivered, wait>>

\* ---- receiver task -------------------------------------------------------
Begin ==  \* app calls recv / executor re-polls after a wake
  /\ \/ pc = "idle"
     \/ pc = "parked" /\ notified
  /\ pc' = "l1" /\ notified' = FALSE
  /\ UNCHANGED <<heap, streams, counter, wslot, cur, avail, left, closed, reg, fire, joined, delivered, wait>>

L1 ==  \* first critical section of one loop iteration
  /\ pc = "l1"
  /\ wslot' = TRUE
  /\ IF heap = {}
       THEN /\ pc' = "parked" /\ UNCHANGED <<heap, streams, cur>>
       ELSE LET e == MinEv IN
            /\ heap' = heap \ {e}
            /\ IF e[2] \in streams
                 THEN /\ streams' = streams \ {e[2]} /\ cur' = e /\ pc' = "poll"
                 ELSE /\ UNCHANGED <<streams, cur>> /\ pc' = "l1"
  /\ UNCHANGED <<counter, avail, left, closed, reg, fire, notified, joined, delivered, wait>>

PollStream ==  \* stream polled outside the lock with StreamWaker(cur)
  /\ pc = "poll"
  /\ LET k == cur[2] IN
     IF avail[k] > 0
       THEN /\ avail' = [avail EXCEPT ![k] = @ - 1] /\ pc' = "l2" /\ UNCHANGED <<reg, fire, cur>>
       ELSE IF closed[k]
         THEN /\ pc' = "l1" /\ cur' = <<>> /\ UNCHANGED <<avail, reg, fire>>   \* Ready(None): drop stream
         ELSE /\ reg' = [reg EXCEPT ![k] = cur[1] + 1] /\ fire' = [fire EXCEPT ![k] = FALSE]
              /\ pc' = "l3" /\ UNCHANGED <<avail, cur>>
  /\ UNCHANGED <<heap, streams, counter, wslot, left, closed, notified, joined, delivered, wait>>

L2 ==  \* Ready(Some): re-queue with fresh ticket, put stream back, return item
  /\ pc = "l2" /\ counter < MaxTicket
  /\ LET k == cur[2] IN
     /\ heap' = heap \cup {<<counter, k, 0>>}
     /\ streams' = streams \cup {k}
     /\ delivered' = [delivered EXCEPT ![k] = @ + 1]
     /\ wait' = [j \in Keys |-> IF j = k THEN 0
                               ELSE IF j \in joined /\ avail[j] > 0 /\ HasEv(j) THEN wait[j] + 1 ELSE wait[j]]
  /\ counter' = counter + 1 /\ cur' = <<>> /\ pc' = "idle"
  /\ UNCHANGED <<wslot, avail, left, closed, reg, fire, notified, joined>>

L3 ==  \* Pending: put stream back, continue
  /\ pc = "l3"
  /\ streams' = streams \cup {cur[2]} /\ cur' = <<>> /\ pc' = "l1"
  /\ UNCHANGED <<heap, counter, wslot, avail, left, closed, reg, fire, notified, joined, delivered, wait>>

Next == \/ \E k \in Keys : Insert(k) \/ Produce(k) \/ Close(k) \/ Fire(k)
        \/ Begin \/ L1 \/ PollStream \/ L2 \/ L3

Spec == Init /\ [][Next]_vars /\ WF_vars(Begin \/ L1 \/ PollStream \/ L2 \/ L3) /\ \A k \in Keys : WF_vars(Fire(k))

\* ---- properties ----------------------------------------------------------
Signalled(k) == HasEv(k) \/ (reg[k] # 0 /\ fire[k]) \/ (cur # <<>> /\ cur[2] = k)
NoLostWakeup ==
  (pc = "parked" /\ ~notified) =>
     \A k \in joined : (k \in streams /\ (avail[k] > 0 \/ closed[k])) => (reg[k] # 0 /\ fire[k])
NoStreamLost == \A k \in joined : (~closed[k] \/ avail[k] > 0) => (k \in streams \/ (cur # <<>> /\ cur[2] = k))
ReadyHasSignal == \A k \in joined : (k \in streams /\ avail[k] > 0) => (HasEv(k) \/ reg[k] # 0)
FairBound == \A k \in Keys : wait[k] <= 2 * (Cardinality(Keys) - 1)
FairBoundTight == \A k \in Keys : wait[k] <= Cardinality(Keys) - 1
AllDelivered == <>[](\A k \in Keys : k \in joined => (left[k] = 0 => avail[k] = 0))
Live == \A k \in Keys : [](avail[k] > 0 => <>(avail[k] = 0))
====
