SPECIFICATION TSpec
INVARIANT NoNewViolation
POSTCONDITION Accepted
CHECK_DEADLOCK FALSE
