---- MODULE RefDec ----
EXTENDS Naturals, Sequences, FiniteSets, TLC, Json, SequencesExt
\* Reference decoder over a byte sequence that follows a valid greeting.
\* Result: [items |-> <<...>>, tail |-> "needmore" | "error:<class>" | "clean", partial |-> n]
BE(bs) == LET RECURSIVE F(_, _) F(i, acc) == IF i > Len(bs) THEN acc ELSE F(i + 1, acc * 256 + bs[i]) IN F(1, 0)
Huge(bs) == \E i \in 1..4 : bs[i] # 0 \/ bs[5] >= 128     \* >= 2^31 : do not compute
Sub(s, a, b) == IF a > b THEN <<>> ELSE SubSeq(s, a, b)

RECURSIVE Props(_)
Props(b) ==  \* b: remaining command body after the name; returns "ok" / error class
  IF b = <<>> THEN "ok"
  ELSE LET nl == b[1] IN
       IF Len(b) < 1 + nl + 4 THEN "cmd-prop-truncated"
       ELSE LET vlb == Sub(b, 2 + nl, 5 + nl) IN
            IF vlb[1] # 0 \/ vlb[2] # 0 THEN "cmd-prop-value-beyond"
            ELSE LET vl == BE(vlb) IN
                 IF Len(b) < 1 + nl + 4 + vl THEN "cmd-prop-value-beyond"
                 ELSE Props(Sub(b, 1 + nl + 4 + vl + 1, Len(b)))
Cmd(body) ==
  IF body = <<>> THEN "cmd-empty"
  ELSE LET nl == body[1] IN
       IF Len(body) < 1 + nl THEN "cmd-name-beyond"
       ELSE IF Sub(body, 2, 1 + nl) # <<82, 69, 65, 68, 89>> THEN "cmd-unknown"
       ELSE Props(Sub(body, 2 + nl, Len(body)))

RECURSIVE Dec(_, _, _)
Dec(s, items, partial) ==
  IF s = <<>> THEN [items |-> items, tail |-> "clean", partial |-> Len(partial)]
  ELSE LET fl == s[1]
           long == (fl \div 2) % 2 = 1
           more == fl % 2 = 1
           cmd == (fl \div 4) % 2 = 1
           hdr == IF long THEN 9 ELSE 2 IN
       IF Len(s) < hdr THEN [items |-> items, tail |-> "needmore", partial |-> Len(partial)]
       ELSE IF long /\ Huge(Sub(s, 2, 9)) THEN [items |-> items, tail |-> "needmore-huge", partial |-> Len(partial)]
       ELSE LET len == IF long THEN BE(Sub(s, 2, 9)) ELSE s[2] IN
            IF Len(s) < hdr + len THEN [items |-> items, tail |-> "needmore", partial |-> Len(partial)]
            ELSE LET body == Sub(s, hdr + 1, hdr + len)
                     rest == Sub(s, hdr + len + 1, Len(s)) IN
                 IF cmd THEN LET c == Cmd(body) IN
                      IF c = "ok" THEN Dec(rest, Append(items, "C"), partial)
                      ELSE [items |-> items, tail |-> "error:" \o c, partial |-> Len(partial)]
                 ELSE IF more THEN Dec(rest, items, Append(partial, len))
                 ELSE Dec(rest, Append(items, Append(partial, len)), <<>>)

Alphabet == {0, 1, 2, 3, 4, 5, 6, 7, 127, 255, 82}
RECURSIVE Strs(_)
Strs(n) == IF n = 0 THEN {<<>>} ELSE {Append(s, b) : s \in Strs(n - 1), b \in Alphabet}
N == 5
All == UNION {Strs(k) : k \in 0..N}
Vec(s) == LET r == Dec(s, <<>>, <<>>) IN [b |-> s, items |-> r.items, tail |-> r.tail, partial |-> r.partial]
ASSUME PrintT(<<"count", Cardinality(All)>>)
ASSUME ndJsonSerialize("vec.ndjson", SetToSeq({Vec(s) : s \in All}))
====
