SPECIFICATION Spec
CONSTANTS Keys = {a, b}
 MaxItems = 4
 MaxTicket = 12
 NoKey = NoKey
INVARIANTS NoLostWakeup NoStreamLost ReadyHasSignal FairBound
CHECK_DEADLOCK FALSE
