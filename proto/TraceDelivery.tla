---- MODULE TraceDelivery ----
EXTENDS DeliveryAbs, Json, IOUtils, TLC
Rec == ndJsonDeserialize(IOEnv.TRACE)
Known == {"C16/eof/peer-entry-retained"}
VARIABLES l, viol, poisoned, scen
tvars == <<absvars, l, viol, poisoned, scen>>
TInit == AInit /\ l = 1 /\ viol = {} /\ poisoned = {} /\ scen = 0
E == Rec[l]
Flag(code, c) == viol' = viol \cup {<<scen, code>>} /\ poisoned' = poisoned \cup {c} /\ UNCHANGED absvars
Ok == UNCHANGED <<viol, poisoned>>
Step(ev, body) == l <= Len(Rec) /\ E.ev = ev /\ l' = l + 1 /\ body
TReset == Step("reset", pending' = <<>> /\ conn' = {} /\ credit' = {} /\ scen' = scen + 1 /\ poisoned' = {} /\ UNCHANGED viol)
   \* AInit' : primed initial predicate re-initialises the abstract state
TAttach == Step("attach", UNCHANGED scen /\ IF CanAttach(E.c) THEN DoAttach(E.c) /\ Ok ELSE Flag("harness/double-attach", E.c))
TWrote == Step("peer_wrote", UNCHANGED scen /\ IF CanWrote(E.c) THEN DoWrote(E.c, E.tag) /\ Ok ELSE Flag("harness/wrote-unattached", E.c))
TCut == Step("peer_cut", UNCHANGED scen /\ DoCut(E.c) /\ Ok)
TRecvOk == Step("recv_ok", UNCHANGED scen /\
   LET c == E.tag[1] IN
   IF c \in poisoned THEN UNCHANGED absvars /\ Ok
   ELSE IF CanRecvOk(c, E.tag) THEN DoRecvOk(c) /\ Ok
   ELSE IF E.tag \in {Pend(c)[i] : i \in 1..Len(Pend(c))} THEN Flag("C05/reordered-or-skipped", c)
   ELSE Flag("C05/duplicate-or-invented", c))
TRecvErr == Step("recv_err", UNCHANGED scen /\ IF CanRecvErr THEN DoRecvErr /\ Ok ELSE Flag("C16/unattributable-error", 0))
TQuiescent == Step("quiescent", UNCHANGED scen /\ UNCHANGED absvars /\
   IF E.recv_pending /\ ~CanParkQuiescent /\ ({c \in conn : Pend(c) # <<>>} \ poisoned) # {}
   THEN viol' = viol \cup {<<scen, "C06/parked-with-message-available">>} /\ UNCHANGED poisoned ELSE Ok)
TReleased == Step("released", UNCHANGED scen /\ UNCHANGED absvars /\ Ok)
TNext == TReset \/ TAttach \/ TWrote \/ TCut \/ TRecvOk \/ TRecvErr \/ TQuiescent \/ TReleased
TSpec == TInit /\ [][TNext]_tvars
Codes == {v[2] : v \in viol}
NoNewViolation == Codes \subseteq Known
Accepted == /\ IF TLCGet("stats").diameter - 1 = Len(Rec) THEN TRUE ELSE Print(<<"UNCONSUMED at", TLCGet("stats").diameter>>, FALSE)
View == <<l>>
====
