SPECIFICATION Spec
CONSTANTS Keys = {a, b, c}
 MaxItems = 2
 MaxTicket = 12
 NoKey = NoKey
INVARIANTS NoLostWakeup NoStreamLost ReadyHasSignal FairBoundTight
CHECK_DEADLOCK FALSE
