---- MODULE RefDecBFS ----
EXTENDS RefDecOps
VARIABLE s
Init == s = <<>>
Next == Len(s) < N /\ \E b \in Alphabet : s' = Append(s, b)
Spec == Init /\ [][Next]_s
Emit == PrintT(ToJson(Vec(s)))
====
