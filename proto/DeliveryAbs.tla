---- MODULE DeliveryAbs ----
(* Prototype of the layer-A delivery specification: guards + effects, reused by the monitor. *)
EXTENDS Naturals, Sequences, FiniteSets
VARIABLES pending,   \* pending[c] : sequence of tags completely written by peer c, not yet received
          conn,      \* connected connections
          credit     \* error credits (connections whose fault may surface as one recv error)
absvars == <<pending, conn, credit>>
AInit == pending = <<>> /\ conn = {} /\ credit = {}
Pend(c) == IF c \in DOMAIN pending THEN pending[c] ELSE <<>>
SetPend(c, s) == [x \in (DOMAIN pending) \cup {c} |-> IF x = c THEN s ELSE pending[x]]
\* guards
CanAttach(c) == c \notin conn
CanWrote(c) == c \in conn
CanRecvOk(c, tag) == c \in conn /\ Pend(c) # <<>> /\ Head(Pend(c)) = tag
CanRecvErr == credit # {}
CanParkQuiescent == \A c \in conn : Pend(c) = <<>>
\* effects
DoAttach(c) == conn' = conn \cup {c} /\ pending' = SetPend(c, <<>>) /\ UNCHANGED credit
DoWrote(c, tag) == pending' = SetPend(c, Append(Pend(c), tag)) /\ UNCHANGED <<conn, credit>>
DoRecvOk(c) == pending' = SetPend(c, Tail(Pend(c))) /\ UNCHANGED <<conn, credit>>
DoCut(c) == credit' = credit \cup {c} /\ UNCHANGED <<pending, conn>>
DoRecvErr == credit' = credit \ {CHOOSE c \in credit : TRUE} /\ UNCHANGED <<pending, conn>>
====
