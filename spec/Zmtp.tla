------------------------------- MODULE Zmtp -------------------------------
(* Layer A for the wire format: RFC 23 (ZMTP 3.0) framing as pure functions over byte sequences.

   - FrameHdr / MsgWire / GreetingBytes / ReadyBody / CmdWire : what a conforming sender writes
     (bodies are not materialised: a frame of length n is represented by its header bytes and n)
   - Dec : a total reference decoder of a byte sequence that follows a valid greeting
   - ParseCmd / ParseProps : bounds-checked command parser (name + properties) or an error class
   8-byte sizes are handled as byte sequences so that TLC's 32-bit integers never overflow.     *)
EXTENDS Naturals, Sequences, FiniteSets, TLC

Sub(s, a, b) == IF a > b THEN <<>> ELSE SubSeq(s, a, b)
RECURSIVE BEacc(_, _, _)
BEacc(bs, i, acc) == IF i > Len(bs) THEN acc ELSE BEacc(bs, i + 1, acc * 256 + bs[i])
BE(bs) == BEacc(bs, 1, 0)
\* an 8-byte size >= 2^31: never computed
Huge(bs) == \E i \in 1..4 : bs[i] # 0 \/ bs[5] >= 128
RECURSIVE BytesOf(_, _)
BytesOf(n, k) == IF k = 0 THEN <<>> ELSE Append(BytesOf(n \div 256, k - 1), n % 256)   \* big-endian, k bytes

\* ---- sender side ---------------------------------------------------------------------------
\* flags: bit0 MORE, bit1 LONG, bit2 COMMAND; bits 3-7 reserved (zero)
FrameHdr(len, more, cmd) ==
  LET base == (IF more THEN 1 ELSE 0) + (IF cmd THEN 4 ELSE 0) IN
  IF len <= 255 THEN <<base, len>> ELSE <<base + 2>> \o BytesOf(len, 8)
HdrLen(len) == IF len <= 255 THEN 2 ELSE 9
\* canonical wire skeleton of a message whose frames have lengths lens: one header per frame
MsgHdrs(lens) == [i \in 1..Len(lens) |-> FrameHdr(lens[i], i < Len(lens), FALSE)]
RECURSIVE SumLens(_)
SumLens(lens) == IF lens = <<>> THEN 0 ELSE HdrLen(Head(lens)) + Head(lens) + SumLens(Tail(lens))

Str(s) == s     \* strings are given as byte sequences by the callers
NULLmech == <<78, 85, 76, 76>>
Zeros(n) == [i \in 1..n |-> 0]
GreetingBytes(major, minor, mech, asServer) ==
  <<255>> \o Zeros(8) \o <<127, major, minor>> \o mech \o Zeros(20 - Len(mech)) \o <<IF asServer THEN 1 ELSE 0>> \o Zeros(31)
Prop(name, value) == <<Len(name)>> \o name \o BytesOf(Len(value), 4) \o value
READYname == <<82, 69, 65, 68, 89>>
CmdBody(name, props) == <<Len(name)>> \o name \o props
CmdWire(body) == FrameHdr(Len(body), FALSE, TRUE) \o body

\* ---- receiver side: bounds-checked command parser ----------------------------------------
RECURSIVE ParseProps(_, _)
ParseProps(b, acc) ==    \* b: remaining body after the name; acc: sequence of <<name, value>>
  IF b = <<>> THEN [ok |-> TRUE, props |-> acc, err |-> "none"]
  ELSE LET nl == b[1] IN
       IF Len(b) < 1 + nl + 4 THEN [ok |-> FALSE, props |-> acc, err |-> "cmd-prop-truncated"]
       ELSE LET vlb == Sub(b, 2 + nl, 5 + nl) IN
            IF vlb[1] # 0 \/ vlb[2] # 0 THEN [ok |-> FALSE, props |-> acc, err |-> "cmd-prop-value-beyond"]
            ELSE LET vl == BE(vlb) IN
                 IF Len(b) < 1 + nl + 4 + vl THEN [ok |-> FALSE, props |-> acc, err |-> "cmd-prop-value-beyond"]
                 ELSE ParseProps(Sub(b, 1 + nl + 4 + vl + 1, Len(b)),
                                 Append(acc, <<Sub(b, 2, 1 + nl), Sub(b, 6 + nl, 5 + nl + vl)>>))
ParseCmd(body) ==
  IF body = <<>> THEN [ok |-> FALSE, name |-> <<>>, props |-> <<>>, err |-> "cmd-empty"]
  ELSE LET nl == body[1] IN
       IF Len(body) < 1 + nl THEN [ok |-> FALSE, name |-> <<>>, props |-> <<>>, err |-> "cmd-name-beyond"]
       ELSE LET p == ParseProps(Sub(body, 2 + nl, Len(body)), <<>>) IN
            [ok |-> p.ok, name |-> Sub(body, 2, 1 + nl), props |-> p.props, err |-> p.err]
PropVal(props, name) == LET I == {i \in 1..Len(props) : props[i][1] = name} IN
                        IF I = {} THEN <<"absent">> ELSE <<"present", props[CHOOSE i \in I : \A j \in I : i >= j][2]>>

\* ---- receiver side: reference stream decoder (after the greeting) ---------------------------
\* items: "C" for a well-formed READY-style command, a sequence of frame lengths for a message.
\* tail:  "clean" | "needmore" | "needmore-huge" | "error:<class>"
RECURSIVE Dec(_, _, _)
Dec(s, items, partial) ==
  IF s = <<>> THEN [items |-> items, tail |-> "clean", partial |-> Len(partial)]
  ELSE LET fl == s[1]
           long == (fl \div 2) % 2 = 1
           more == fl % 2 = 1
           cmd == (fl \div 4) % 2 = 1
           hdr == IF long THEN 9 ELSE 2 IN
       IF Len(s) < hdr THEN [items |-> items, tail |-> "needmore", partial |-> Len(partial)]
       ELSE IF long /\ Huge(Sub(s, 2, 9)) THEN [items |-> items, tail |-> "needmore-huge", partial |-> Len(partial)]
       ELSE LET len == IF long THEN BE(Sub(s, 2, 9)) ELSE s[2] IN
            IF Len(s) < hdr + len THEN [items |-> items, tail |-> "needmore", partial |-> Len(partial)]
            ELSE LET body == Sub(s, hdr + 1, hdr + len)
                     rest == Sub(s, hdr + len + 1, Len(s)) IN
                 IF cmd THEN LET c == ParseCmd(body) IN
                      IF ~c.ok THEN [items |-> items, tail |-> "error:" \o c.err, partial |-> Len(partial)]
                      ELSE IF c.name # READYname THEN [items |-> items, tail |-> "error:cmd-unknown", partial |-> Len(partial)]
                      ELSE Dec(rest, Append(items, "C"), partial)
                 ELSE IF more THEN Dec(rest, items, Append(partial, len))
                 ELSE Dec(rest, Append(items, Append(partial, len)), <<>>)
Decode(s) == Dec(s, <<>>, <<>>)

\* Lenient variant for hostile input (C03): a malformed or unknown command is recorded ("E") and skipped, decoding
\* continues behind it.  Whatever a tolerant implementation may still deliver afterwards is in this list.
RECURSIVE DecL(_, _, _, _)
DecL(s, items, msgs, partial) ==
  IF s = <<>> THEN [items |-> items, msgs |-> msgs, tail |-> "clean", partial |-> Len(partial)]
  ELSE LET fl == s[1]
           long == (fl \div 2) % 2 = 1
           more == fl % 2 = 1
           cmd == (fl \div 4) % 2 = 1
           hdr == IF long THEN 9 ELSE 2 IN
       IF Len(s) < hdr THEN [items |-> items, msgs |-> msgs, tail |-> "needmore", partial |-> Len(partial)]
       ELSE IF long /\ Huge(Sub(s, 2, 9)) THEN [items |-> items, msgs |-> msgs, tail |-> "needmore-huge", partial |-> Len(partial)]
       ELSE LET len == IF long THEN BE(Sub(s, 2, 9)) ELSE s[2] IN
            IF Len(s) < hdr + len THEN [items |-> items, msgs |-> msgs, tail |-> "needmore", partial |-> Len(partial)]
            ELSE LET body == Sub(s, hdr + 1, hdr + len)
                     rest == Sub(s, hdr + len + 1, Len(s)) IN
                 IF cmd THEN LET c == ParseCmd(body) IN
                      IF ~c.ok THEN DecL(rest, Append(items, "E:" \o c.err), msgs, partial)
                      ELSE IF c.name # READYname THEN DecL(rest, Append(items, "E:cmd-unknown"), msgs, partial)
                      ELSE DecL(rest, Append(items, "C"), msgs, partial)
                 ELSE IF more THEN DecL(rest, items, msgs, Append(partial, len))
                 ELSE DecL(rest, Append(items, Append(partial, len)), Append(msgs, Append(partial, len)), <<>>)
DecodeLenient(s) == DecL(s, <<>>, <<>>, <<>>)
=============================================================================
