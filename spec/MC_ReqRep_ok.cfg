SPECIFICATION Spec
CONSTANTS
 Peers = {1, 2}
 MaxCalls = 6
 Dev = {}
INVARIANTS Refines MarkerMirrorsOwed
CHECK_DEADLOCK FALSE
