SPECIFICATION GSpec
CONSTANTS
 Keys = {"a", "b", "c"}
 MaxItems = 3
 MaxTicket = 40
 MaxStale = 4
 MaxExh = 2
 MaxReins = 2
 AllowRemove = TRUE
 Dev = {}
 Depth = 40
INVARIANTS NoLostWakeup Emit
CONSTRAINT Stop
CHECK_DEADLOCK FALSE
