------------------------------ MODULE SubSync ------------------------------
(* C13, layers A and B (src/sub.rs): the SUB socket's subscription set, its registered peers, and
   what each peer has been told (told[p], a sequence of <<"S"|"U", topic>>).
   subscribe/unsubscribe are multi-step: update the set, then visit the registered peers one by one
   (an await between peers); a join is multi-step: read the set (snapshot), send it, register the
   peer.  Layer A, at every quiescent state (no call, no join in flight): for every registered peer
   whose connection has not failed, folding told[p] with the publisher's counting rule (C11) gives
   exactly the socket's set.  Dev names the deviations of the code from a correct algorithm:
     "join_snapshot_then_register"  nothing orders a join's snapshot/registration against a
                                    concurrent subscribe (OPEN finding, see known_findings.json)
     "resend_on_duplicate"          a repeated subscribe / never-subscribed unsubscribe is sent again
     "abort_on_first_error"         the first failing peer ends the call, later peers are not told
   With Dev = {} the module is the corrected algorithm and satisfies layer A.                     *)
EXTENDS Naturals, Sequences, FiniteSets, TLC
CONSTANTS Peers, Topics, MaxCalls, Dev
VARIABLES subs, reg, told, failed, call, todo, jpc, snap, ncalls
vars == <<subs, reg, told, failed, call, todo, jpc, snap, ncalls>>
Init == subs = {} /\ reg = {} /\ told = [p \in Peers |-> <<>>] /\ failed = {} /\ call = <<>> /\ todo = {}
        /\ jpc = [p \in Peers |-> "out"] /\ snap = [p \in Peers |-> {}] /\ ncalls = 0
Joining == {p \in Peers : jpc[p] \in {"snap", "sent"}}
\* ---- API call: first the set, then the peers -------------------------------------------------
CallStart(op, t) ==
  /\ call = <<>> /\ ncalls < MaxCalls /\ ncalls' = ncalls + 1
  /\ ("join_snapshot_then_register" \in Dev \/ Joining = {})          \* corrected algorithm: serialised with joins
  /\ LET changes == IF op = "S" THEN t \notin subs ELSE t \in subs
         send == changes \/ "resend_on_duplicate" \in Dev IN
     /\ subs' = IF op = "S" THEN subs \cup {t} ELSE subs \ {t}
     /\ call' = IF send THEN <<op, t>> ELSE <<>>
     /\ todo' = IF send THEN reg ELSE {}
  /\ UNCHANGED <<reg, told, failed, jpc, snap>>
CallStep(p) ==
  /\ call # <<>> /\ p \in todo
  /\ IF p \in failed
       THEN /\ todo' = IF "abort_on_first_error" \in Dev THEN {} ELSE todo \ {p}
            /\ UNCHANGED told
       ELSE /\ told' = [told EXCEPT ![p] = Append(@, call)] /\ todo' = todo \ {p}
  /\ call' = IF todo' = {} THEN <<>> ELSE call
  /\ UNCHANGED <<subs, reg, failed, jpc, snap, ncalls>>
CallEnd == call # <<>> /\ todo = {} /\ call' = <<>> /\ UNCHANGED <<subs, reg, told, failed, todo, jpc, snap, ncalls>>
\* ---- a peer joins (connect or accept) --------------------------------------------------------
JoinSnap(p) == /\ jpc[p] = "out" /\ ("join_snapshot_then_register" \in Dev \/ call = <<>>)
               /\ jpc' = [jpc EXCEPT ![p] = "snap"] /\ snap' = [snap EXCEPT ![p] = subs]
               /\ UNCHANGED <<subs, reg, told, failed, call, todo, ncalls>>
RECURSIVE SetToSeq(_)
SetToSeq(S) == IF S = {} THEN <<>> ELSE LET x == CHOOSE x \in S : TRUE IN <<<<"S", x>>>> \o SetToSeq(S \ {x})
JoinSend(p) == /\ jpc[p] = "snap" /\ jpc' = [jpc EXCEPT ![p] = "sent"]
               /\ told' = [told EXCEPT ![p] = @ \o SetToSeq(snap[p])]
               /\ UNCHANGED <<subs, reg, failed, call, todo, snap, ncalls>>
JoinRegister(p) == /\ jpc[p] = "sent" /\ jpc' = [jpc EXCEPT ![p] = "in"] /\ reg' = reg \cup {p}
                   \* the running call's iteration over the peer table may or may not still reach the new entry
                   /\ todo' \in (IF call # <<>> THEN {todo, todo \cup {p}} ELSE {todo})
                   /\ UNCHANGED <<subs, told, failed, call, snap, ncalls>>
Fail(p) == /\ p \in reg /\ p \notin failed /\ Cardinality(failed) = 0 /\ failed' = failed \cup {p}
           /\ UNCHANGED <<subs, reg, told, call, todo, jpc, snap, ncalls>>
Next == \/ \E t \in Topics : CallStart("S", t) \/ CallStart("U", t)
        \/ \E p \in Peers : CallStep(p) \/ JoinSnap(p) \/ JoinSend(p) \/ JoinRegister(p) \/ Fail(p)
        \/ CallEnd
Spec == Init /\ [][Next]_vars
\* ---- layer A ---------------------------------------------------------------------------------
RECURSIVE Count(_, _)
Count(s, t) == IF s = <<>> THEN 0
               ELSE LET c == Count(SubSeq(s, 1, Len(s) - 1), t) e == s[Len(s)] IN
                    IF e[2] # t THEN c ELSE IF e[1] = "S" THEN c + 1 ELSE IF c > 0 THEN c - 1 ELSE 0
Active(p) == {t \in Topics : Count(told[p], t) > 0}
Quiescent == call = <<>> /\ Joining = {}
AllPeersAgree == Quiescent => \A p \in reg \ failed : Active(p) = subs
=============================================================================
