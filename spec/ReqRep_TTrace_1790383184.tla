---- MODULE ReqRep_TTrace_1790383184 ----
EXTENDS Sequences, TLCExt, Toolbox, Naturals, TLC, ReqRep

_expression ==
    LET ReqRep_TEExpression == INSTANCE ReqRep_TEExpression
    IN ReqRep_TEExpression!expression
----

_trace ==
    LET ReqRep_TETrace == INSTANCE ReqRep_TETrace
    IN ReqRep_TETrace!trace
----

_inv ==
    ~(
        TLCGet("level") = Len(_TETrace)
        /\
        rr = (<<2, 1>>)
        /\
        wire = (<<<<>>, <<>>>>)
        /\
        ncalls = (2)
        /\
        nreq = (1)
        /\
        owed = (FALSE)
        /\
        bad = ({"C08/foreign-reply"})
        /\
        last = ("recv_done")
        /\
        fut = ("none")
        /\
        marker = (0)
        /\
        apeer = (0)
    )
----

_init ==
    /\ rr = _TETrace[1].rr
    /\ wire = _TETrace[1].wire
    /\ bad = _TETrace[1].bad
    /\ ncalls = _TETrace[1].ncalls
    /\ last = _TETrace[1].last
    /\ apeer = _TETrace[1].apeer
    /\ marker = _TETrace[1].marker
    /\ nreq = _TETrace[1].nreq
    /\ owed = _TETrace[1].owed
    /\ fut = _TETrace[1].fut
----

_next ==
    /\ \E i,j \in DOMAIN _TETrace:
        /\ \/ /\ j = i + 1
              /\ i = TLCGet("level")
        /\ rr  = _TETrace[i].rr
        /\ rr' = _TETrace[j].rr
        /\ wire  = _TETrace[i].wire
        /\ wire' = _TETrace[j].wire
        /\ bad  = _TETrace[i].bad
        /\ bad' = _TETrace[j].bad
        /\ ncalls  = _TETrace[i].ncalls
        /\ ncalls' = _TETrace[j].ncalls
        /\ last  = _TETrace[i].last
        /\ last' = _TETrace[j].last
        /\ apeer  = _TETrace[i].apeer
        /\ apeer' = _TETrace[j].apeer
        /\ marker  = _TETrace[i].marker
        /\ marker' = _TETrace[j].marker
        /\ nreq  = _TETrace[i].nreq
        /\ nreq' = _TETrace[j].nreq
        /\ owed  = _TETrace[i].owed
        /\ owed' = _TETrace[j].owed
        /\ fut  = _TETrace[i].fut
        /\ fut' = _TETrace[j].fut

\* Uncomment the ASSUME below to write the states of the error trace
\* to the given file in Json format. Note that you can pass any tuple
\* to `JsonSerialize`. For example, a sub-sequence of _TETrace.
    \* ASSUME
    \*     LET J == INSTANCE Json
    \*         IN J!JsonSerialize("ReqRep_TTrace_1790383184.json", _TETrace)

=============================================================================

 Note that you can extract this module `ReqRep_TEExpression`
  to a dedicated file to reuse `expression` (the module in the 
  dedicated `ReqRep_TEExpression.tla` file takes precedence 
  over the module `ReqRep_TEExpression` below).

---- MODULE ReqRep_TEExpression ----
EXTENDS Sequences, TLCExt, Toolbox, Naturals, TLC, ReqRep

expression == 
    [
        \* To hide variables of the `ReqRep` spec from the error trace,
        \* remove the variables below.  The trace will be written in the order
        \* of the fields of this record.
        rr |-> rr
        ,wire |-> wire
        ,bad |-> bad
        ,ncalls |-> ncalls
        ,last |-> last
        ,apeer |-> apeer
        ,marker |-> marker
        ,nreq |-> nreq
        ,owed |-> owed
        ,fut |-> fut
        
        \* Put additional constant-, state-, and action-level expressions here:
        \* ,_stateNumber |-> _TEPosition
        \* ,_rrUnchanged |-> rr = rr'
        
        \* Format the `rr` variable as Json value.
        \* ,_rrJson |->
        \*     LET J == INSTANCE Json
        \*     IN J!ToJson(rr)
        
        \* Lastly, you may build expressions over arbitrary sets of states by
        \* leveraging the _TETrace operator.  For example, this is how to
        \* count the number of times a spec variable changed up to the current
        \* state in the trace.
        \* ,_rrModCount |->
        \*     LET F[s \in DOMAIN _TETrace] ==
        \*         IF s = 1 THEN 0
        \*         ELSE IF _TETrace[s].rr # _TETrace[s-1].rr
        \*             THEN 1 + F[s-1] ELSE F[s-1]
        \*     IN F[_TEPosition - 1]
    ]

=============================================================================



Parsing and semantic processing can take forever if the trace below is long.
 In this case, it is advised to uncomment the module below to deserialize the
 trace from a generated binary file.

\*
\*---- MODULE ReqRep_TETrace ----
\*EXTENDS IOUtils, TLC, ReqRep
\*
\*trace == IODeserialize("ReqRep_TTrace_1790383184.bin", TRUE)
\*
\*=============================================================================
\*

---- MODULE ReqRep_TETrace ----
EXTENDS TLC, ReqRep

trace == 
    <<
    ([rr |-> <<1, 2>>,wire |-> <<<<>>, <<>>>>,ncalls |-> 0,nreq |-> 0,owed |-> FALSE,bad |-> {},last |-> "init",fut |-> "none",marker |-> 0,apeer |-> 0]),
    ([rr |-> <<2, 1>>,wire |-> <<<<>>, <<>>>>,ncalls |-> 1,nreq |-> 1,owed |-> TRUE,bad |-> {},last |-> "send",fut |-> "none",marker |-> 1,apeer |-> 1]),
    ([rr |-> <<2, 1>>,wire |-> <<<<>>, <<>>>>,ncalls |-> 2,nreq |-> 1,owed |-> TRUE,bad |-> {},last |-> "recv_start",fut |-> "pending",marker |-> 1,apeer |-> 1]),
    ([rr |-> <<2, 1>>,wire |-> <<<<>>, <<0>>>>,ncalls |-> 2,nreq |-> 1,owed |-> TRUE,bad |-> {},last |-> "unsolicited",fut |-> "pending",marker |-> 1,apeer |-> 1]),
    ([rr |-> <<2, 1>>,wire |-> <<<<>>, <<>>>>,ncalls |-> 2,nreq |-> 1,owed |-> FALSE,bad |-> {"C08/foreign-reply"},last |-> "recv_done",fut |-> "none",marker |-> 0,apeer |-> 0])
    >>
----


=============================================================================

---- CONFIG ReqRep_TTrace_1790383184 ----
CONSTANTS
    Peers = { 1 , 2 }
    MaxCalls = 6
    Dev = { "recv_any_peer" }

INVARIANT
    _inv

CHECK_DEADLOCK
    \* CHECK_DEADLOCK off because of PROPERTY or INVARIANT above.
    FALSE

INIT
    _init

NEXT
    _next

CONSTANT
    _TETrace <- _trace

ALIAS
    _expression
=============================================================================
\* Generated on Sat Sep 26 00:39:45 UTC 2026