------------------------------ MODULE Envelopes ------------------------------
(* Pure layer-A operators: how each socket type reads a wire message (envelope rules of REQ, REP,
   ROUTER).  Messages are sequences of frame descriptors; Empty is the zero-length frame.        *)
EXTENDS Naturals, Sequences, FiniteSets

Empty == "s"   \* descriptor of the zero-length frame (harness/src/refcodec.rs fdesc)

\* ---- per-type view of a wire message -------------------------------------------------------
FirstEmpty(m) == IF \E i \in 1..Len(m) : m[i] = Empty
                   THEN CHOOSE i \in 1..Len(m) : m[i] = Empty /\ \A j \in 1..(i - 1) : m[j] # Empty
                   ELSE 0
\* does the wire message obey the socket type's envelope rules?
WellFormed(t, m) ==
  CASE t = "REP" -> Len(m) >= 2 /\ FirstEmpty(m) # 0 /\ FirstEmpty(m) < Len(m)
    [] t = "REQ" -> Len(m) >= 2 /\ m[1] = Empty
    [] OTHER -> Len(m) >= 1
\* what recv hands to the application for wire message m arriving on connection c
Xform(t, id, m) ==
  CASE t = "ROUTER" -> <<id>> \o m
    [] t = "REP" -> SubSeq(m, FirstEmpty(m) + 1, Len(m))
    [] t = "REQ" -> Tail(m)
    [] OTHER -> m

=============================================================================
