SPECIFICATION Spec
CONSTANTS
 Hs = {h1, h2}
 Threads = 2
 Pinned = TRUE
 Dev = {}
INVARIANTS NeverStuck
PROPERTY Terminates
CHECK_DEADLOCK FALSE
