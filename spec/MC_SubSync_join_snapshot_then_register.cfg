SPECIFICATION Spec
CONSTANTS
 Peers = {1, 2}
 Topics = {"a", "b"}
 MaxCalls = 4
 Dev = {"join_snapshot_then_register"}
INVARIANT AllPeersAgree
CHECK_DEADLOCK FALSE
