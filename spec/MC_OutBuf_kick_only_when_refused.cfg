SPECIFICATION Spec
CONSTANTS
 HWM = 8
 Sizes = {1, 4, 7, 8, 9}
 MaxPub = 3
 MaxCredit = 12
 Dev = {"kick_only_when_refused"}
INVARIANTS NoWithheld
CHECK_DEADLOCK FALSE
