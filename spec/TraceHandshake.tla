--------------------------- MODULE TraceHandshake ---------------------------
(* Layer-A monitor for C04: each logged handshake attempt carries the configuration cell the scripted
   raw peer presented; the verdict of HandshakeAbs.Admit is recomputed here and compared with what
   the real handshake did (result, identity registered, halves released, later traffic).         *)
EXTENDS HandshakeAbs, TraceCommon
VARIABLES l, viol
tvars == <<l, viol>>
E == Rec[l]
Flag(code) == Report(l, code, l) /\ viol' = viol \cup {code}
NoFlag == UNCHANGED viol
TInit == l = 1 /\ viol = {}
THs == l <= NRec /\ E.ev = "hs" /\ l' = l + 1 /\
  LET c == E.cell IN
  IF E.res = "panic" THEN Flag("C04/panic")
  ELSE IF Admit(c) THEN
        (IF E.res # "ok" THEN Flag("C04/rejected-valid")
         ELSE IF ~E.idok THEN Flag("C04/identity-mismatch")
         ELSE IF ~E.traffic THEN Flag("C04/not-registered-once")
         ELSE NoFlag)
  ELSE (IF E.res = "ok" THEN Flag("C04/admitted:" \o Reason(c))
        ELSE IF ~E.rel THEN Flag("C04/rejected-not-closed")
        ELSE IF E.traffic THEN Flag("C04/rejected-exchanges-traffic")
        ELSE NoFlag)
TCompat == l <= NRec /\ E.ev = "compat" /\ l' = l + 1 /\
  IF E.res = "panic" THEN Flag("C04/compatible-panics")
  ELSE IF (E.res = "true") # Compatible(E.a, E.b) THEN Flag("C04/compatible-wrong")
  ELSE NoFlag
TUnique == l <= NRec /\ E.ev = "autoids" /\ l' = l + 1 /\
  IF E.distinct # E.total THEN Flag("C04/identity-mismatch") ELSE NoFlag
TNext == THs \/ TCompat \/ TUnique
TSpec == TInit /\ [][TNext]_tvars
Accepted == Consumed
=============================================================================
