SPECIFICATION Spec
CONSTANTS
 Keys = {a, b}
 MaxItems = 3
 MaxTicket = 10
 MaxStale = 0
 MaxExh = 0
 MaxReins = 0
 AllowRemove = FALSE
 Dev = {"stale_ticket"}
INVARIANTS FairBoundTight
CHECK_DEADLOCK FALSE
