SPECIFICATION Spec
CONSTANTS
 Conns = {1, 2}
 HasRot = TRUE
 HasFQ = TRUE
 Dev = {}
INVARIANTS Reach_TwoRegistered
CHECK_DEADLOCK FALSE
