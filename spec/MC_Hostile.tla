----------------------------- MODULE MC_Hostile -----------------------------
(* C03 vector generator and totality check of the reference: breadth-first enumeration of EVERY byte
   string over a reduced alphabet up to length N (one state per string); for each, the lenient
   reference decode (items, tail class) is computed - TLC would stop on any partial-function
   application, so completing the run shows the reference is total on this space - and printed as a
   vector for the real decoder.  Alphabet: all flag combinations 0..7, the boundary size bytes, a
   READY letter, 127/255.                                                                        *)
EXTENDS Zmtp, Json
CONSTANTS Alphabet, N
VARIABLE s
Init == s = <<>>
Next == Len(s) < N /\ \E b \in Alphabet : s' = Append(s, b)
Spec == Init /\ [][Next]_s
Vec == LET r == DecodeLenient(s) IN [b |-> s, items |-> r.items, tail |-> r.tail, partial |-> r.partial]
Emit == PrintT(<<"VEC", ToJson(Vec)>>)
\* sanity of the reference on this space: the strict and the lenient decoder agree up to the first error
Agree == LET a == Decode(s) b == DecodeLenient(s) IN
           /\ Len(a.items) <= Len(b.items)
           /\ \A i \in 1..Len(a.items) : a.items[i] = b.items[i]
=============================================================================
