SPECIFICATION Spec
CONSTANTS
 Peers = {1, 2}
 MaxOps = 5
 Dev = {"send_error_keeps_peer"}
INVARIANTS Released AtMostOneError NothingRoutedToObserved
CHECK_DEADLOCK FALSE
