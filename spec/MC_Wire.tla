------------------------------ MODULE MC_Wire ------------------------------
(* C01 at specification level and vector generator: for every message shape in the boundary grid,
   the reference decoder applied to the canonical wire image (headers materialised, bodies as
   zero bytes for the small shapes) gives back exactly the shape; and the wire skeleton of every
   shape, including multi-megabyte frames, is emitted as a vector for the real encoder.          *)
EXTENDS Zmtp, Json
CONSTANTS Grid, MaxFrames, SmallMax
VARIABLE lens
Init == lens = <<>>
Next == Len(lens) < MaxFrames /\ \E n \in Grid : lens' = Append(lens, n)
Spec == Init /\ [][Next]_lens

RECURSIVE Wire(_, _)
Wire(ls, i) == IF i > Len(ls) THEN <<>> ELSE FrameHdr(ls[i], i < Len(ls), FALSE) \o Zeros(ls[i]) \o Wire(ls, i + 1)
Small == \A i \in 1..Len(lens) : lens[i] <= SmallMax
\* reference decode of the canonical image is the identity on shapes (checked where bodies can be materialised)
RoundTrip == (lens # <<>> /\ Small) => LET d == Decode(Wire(lens, 1)) IN d.items = <<lens>> /\ d.tail = "clean"
\* header well-formedness for all shapes: decoding the header alone yields the length back
HdrOK == \A i \in 1..Len(lens) : LET h == FrameHdr(lens[i], i < Len(lens), FALSE) IN
            /\ Len(h) = HdrLen(lens[i])
            /\ (lens[i] <= 255 => h[2] = lens[i] /\ (h[1] \div 2) % 2 = 0)
            /\ (lens[i] > 255 => (h[1] \div 2) % 2 = 1 /\ ~Huge(Sub(h, 2, 9)) /\ BE(Sub(h, 2, 9)) = lens[i])
            /\ h[1] % 2 = (IF i < Len(lens) THEN 1 ELSE 0) /\ h[1] < 8
Emit == lens # <<>> => PrintT(<<"VEC", ToJson([lens |-> lens, hdrs |-> MsgHdrs(lens), total |-> SumLens(lens)])>>)
=============================================================================
