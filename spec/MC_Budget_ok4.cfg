SPECIFICATION Spec
CONSTANTS
 N = 4
 B = 1
 MaxBuf = 7
 Bound = 20
 Dev = {}
INVARIANTS Fair
CHECK_DEADLOCK FALSE
