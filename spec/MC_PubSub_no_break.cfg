SPECIFICATION Spec
CONSTANTS
 Topics <- TopicsDef
 Frames <- FramesDef
 MaxHist = 5
 Dev = {"no_break"}
INVARIANTS Refines 
CHECK_DEADLOCK FALSE
