SPECIFICATION Spec
CONSTANTS
 Keys = {a, b}
 MaxItems = 1
 MaxTicket = 6
 MaxStale = 0
 MaxExh = 0
 MaxReins = 0
 AllowRemove = FALSE
 Dev = {"end_not_reported"}
INVARIANTS EndReported
CHECK_DEADLOCK FALSE
