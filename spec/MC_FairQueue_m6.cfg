SPECIFICATION Spec
CONSTANTS
 Keys = {a, b}
 MaxItems = 1
 MaxTicket = 6
 MaxStale = 0
 MaxExh = 1
 MaxReins = 0
 AllowRemove = FALSE
 Dev = {"no_yield"}
INVARIANTS YieldBound
CONSTRAINT NpendCap
CHECK_DEADLOCK FALSE
