------------------------------ MODULE RepSock ------------------------------
(* REP socket, layers A and B (src/rep.rs): requests of k clients arrive through the fair queue in
   any order; recv records the requester (current_request) and its envelope; send takes them and
   writes envelope + reply to that connection.  Layer A: a reply is accepted only after a request
   was received since the last reply, and appears on exactly the connection the (latest) received
   request came from, so every client sees the replies to its own requests, in order.            *)
EXTENDS Naturals, Sequences, FiniteSets, TLC
CONSTANTS Clients, MaxReq, Dev
VARIABLES inq, cur, acur, out, nsent, bad, ncalls
vars == <<inq, cur, acur, out, nsent, bad, ncalls>>
None == 0
Init == inq = [c \in Clients |-> <<>>] /\ cur = None /\ acur = None /\ out = [c \in Clients |-> <<>>]
        /\ nsent = [c \in Clients |-> 0] /\ bad = {} /\ ncalls = 0
\* client c (lock-step: at most one request outstanding per client) writes its next request
Request(c) == /\ nsent[c] < MaxReq /\ Len(inq[c]) = 0 /\ Len(out[c]) = nsent[c]     \* previous one answered
              /\ nsent' = [nsent EXCEPT ![c] = @ + 1] /\ inq' = [inq EXCEPT ![c] = Append(@, nsent[c] + 1)]
              /\ UNCHANGED <<cur, acur, out, bad, ncalls>>
Recv == /\ ncalls < 8 /\ \E c \in Clients : inq[c] # <<>>
           /\ inq' = [inq EXCEPT ![c] = Tail(@)]
           /\ cur' = c /\ acur' = c
        /\ ncalls' = ncalls + 1 /\ UNCHANGED <<out, nsent, bad>>
Send == /\ ncalls < 8 /\ ncalls' = ncalls + 1
        /\ IF cur = None
             THEN /\ bad' = bad \cup (IF acur # None THEN {"C08/in-turn-refused"} ELSE {})
                  /\ UNCHANGED <<cur, acur, out>>
             ELSE LET target == IF "reply_to_lowest" \in Dev THEN CHOOSE c \in Clients : \A d \in Clients : c <= d ELSE cur IN
                  /\ out' = [out EXCEPT ![target] = Append(@, Len(out[target]) + 1)]
                  /\ bad' = bad \cup (IF acur = None THEN {"C08/out-of-turn-accepted"} ELSE {})
                               \cup (IF acur # None /\ target # acur THEN {"C08/reply-on-wrong-connection"} ELSE {})
                  /\ cur' = IF "send_keeps_requester" \in Dev THEN cur ELSE None
                  /\ acur' = None
        /\ UNCHANGED <<inq, nsent>>
Next == Recv \/ Send \/ \E c \in Clients : Request(c)
Spec == Init /\ [][Next]_vars
Refines == bad = {}
\* every client only ever sees replies 1..n to its own requests 1..n, in order, never more replies than requests
OwnRepliesInOrder == \A c \in Clients : Len(out[c]) <= nsent[c] /\ \A i \in 1..Len(out[c]) : out[c][i] = i
=============================================================================
