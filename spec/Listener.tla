------------------------------ MODULE Listener ------------------------------
(* Layers A and B for the listener side (src/lib.rs bind / unbind / close, src/transport/{tcp,ipc}.rs):
   a bind table (endpoint -> stop handle), one accept task per bound endpoint that selects between
   the stop signal and accept(), one handshake task per accepted connection (spawned, never awaited by
   the accept loop), established peers, and the IPC socket file.  Connections are abstract ids.
   Layer A (invariants): the bind set is exactly the set of endpoints that accept; an endpoint that was
   unbound or whose socket was closed accepts nothing more; unbind / close return only after the
   accept task has ended (and removed the IPC file); a handshake that never completes delays only
   itself: Accept stays enabled while handshakes are pending (C20); after Close / Drop every
   established peer is disconnected and no task remains, EXCEPT what the named deviations allow.
   Dev: "pending_handshake_outlives_socket" (a handshake task blocked on a silent client is not
   cancelled by close/drop - OPEN finding, known_findings.json), spec mutants "accept_awaits_handshake",
   "unbind_forgets_to_stop", "close_keeps_peers".                                                 *)
EXTENDS Naturals, FiniteSets, TLC
CONSTANTS Eps, Conns, Dev
VARIABLES table, listening, file, hs, peers, alive, accepted, tasks
vars == <<table, listening, file, hs, peers, alive, accepted, tasks>>
Init == table = {} /\ listening = {} /\ file = {} /\ hs = {} /\ peers = {} /\ alive = TRUE /\ accepted = [c \in Conns |-> 0] /\ tasks = 0
Bind(e) == /\ alive /\ e \notin listening /\ table' = table \cup {e} /\ listening' = listening \cup {e} /\ file' = file \cup {e}
           /\ tasks' = tasks + 1 /\ UNCHANGED <<hs, peers, alive, accepted>>
BindDup(e) == alive /\ e \in listening /\ UNCHANGED vars                 \* fails (address in use / path exists): changes nothing
\* the accept loop is free unless it (wrongly) awaits a handshake inline
LoopFree == "accept_awaits_handshake" \notin Dev \/ hs = {}
Accept(e, c) == /\ e \in listening /\ accepted[c] = 0 /\ LoopFree
                /\ accepted' = [accepted EXCEPT ![c] = e] /\ hs' = hs \cup {c} /\ tasks' = tasks + 1
                /\ UNCHANGED <<table, listening, file, peers, alive>>
HsComplete(c) == /\ c \in hs /\ hs' = hs \ {c} /\ peers' = (IF alive \/ "close_keeps_peers" \in Dev THEN peers \cup {c} ELSE peers) /\ tasks' = tasks - 1
                 /\ UNCHANGED <<table, listening, file, alive, accepted>>
HsFail(c) == c \in hs /\ hs' = hs \ {c} /\ tasks' = tasks - 1 /\ UNCHANGED <<table, listening, file, peers, alive, accepted>>
Unbind(e) == /\ alive /\ e \in table /\ LoopFree              \* returns once the accept task has seen the stop signal and ended
             /\ table' = table \ {e}
             /\ IF "unbind_forgets_to_stop" \in Dev THEN UNCHANGED <<listening, file, tasks>>
                ELSE listening' = listening \ {e} /\ file' = file \ {e} /\ tasks' = tasks - 1
             /\ UNCHANGED <<hs, peers, alive, accepted>>
Close == /\ alive /\ LoopFree /\ alive' = FALSE /\ table' = {} /\ listening' = {} /\ file' = {}
         /\ peers' = (IF "close_keeps_peers" \in Dev THEN peers ELSE {})
         /\ hs' = (IF "pending_handshake_outlives_socket" \in Dev THEN hs ELSE {})
         /\ tasks' = (IF "pending_handshake_outlives_socket" \in Dev THEN Cardinality(hs) ELSE 0)
         /\ UNCHANGED accepted
Next == Close \/ (\E e \in Eps : Bind(e) \/ BindDup(e) \/ Unbind(e) \/ \E c \in Conns : Accept(e, c)) \/ \E c \in Conns : HsComplete(c) \/ HsFail(c)
Spec == Init /\ [][Next]_vars
\* ---- layer A ----
BindSetExact == alive => table = listening                               \* C18: bookkeeping is exact
FileIffListening == file = listening                                     \* IPC path exists exactly while listening
ClosedMeansGone == ~alive => (listening = {} /\ peers = {} /\ tasks = 0 /\ hs = {})       \* C17
\* C20: a pending handshake never disables accepting on a listening endpoint
AcceptNeverBlocked == \A e \in listening : \A c \in Conns : accepted[c] = 0 => ENABLED Accept(e, c)
=============================================================================
