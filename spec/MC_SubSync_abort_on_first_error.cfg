SPECIFICATION Spec
CONSTANTS
 Peers = {1, 2}
 Topics = {"a", "b"}
 MaxCalls = 4
 Dev = {"abort_on_first_error"}
INVARIANT AllPeersAgree
CHECK_DEADLOCK FALSE
