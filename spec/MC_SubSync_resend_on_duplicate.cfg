SPECIFICATION Spec
CONSTANTS
 Peers = {1, 2}
 Topics = {"a", "b"}
 MaxCalls = 4
 Dev = {"resend_on_duplicate"}
INVARIANT AllPeersAgree
CHECK_DEADLOCK FALSE
