---------------------------- MODULE DeliveryAbs ----------------------------
(* Layer A: what the receive side of a socket may do, stated over observable events only.

   A socket has connections c; pend[c] is the sequence of messages peer c has completely put on
   the wire and that have not been consumed yet.  recv may only ever return Xform(head of some
   pend[c]) (and thereby consumes it), or an error that is attributable to a fault (a credit).
   Nothing else: hence exactly-once, per-peer order, no merge / split, no surfacing of a message
   cut short by a disconnect.  This module holds the guards (Can...) and effects (Do...) only;
   TraceDelivery.tla drives them from recorded executions, GenDelivery.tla enumerates schedules. *)
EXTENDS Envelopes

VARIABLES stype,    \* socket type of the socket under observation
          conn,     \* connections whose handshake completed (admitted peers)
          ident,    \* ident[c]: identity the socket registered c under
          pend,     \* pend[c]: messages completely written by peer c, not yet consumed
          cut,      \* connections the peer has ended; cut[c] \in {"eof", "err"}
          credit    \* number of recv errors that are attributable to a fault so far
avars == <<stype, conn, ident, pend, cut, credit>>

Pend(c) == IF c \in DOMAIN pend THEN pend[c] ELSE <<>>
SetPend(c, s) == [x \in (DOMAIN pend) \cup {c} |-> IF x = c THEN s ELSE pend[x]]

AInit == stype = "PULL" /\ conn = {} /\ ident = <<>> /\ pend = <<>> /\ cut = <<>> /\ credit = 0

\* ---- guards ---------------------------------------------------------------------------------
\* recv returned message r: the connections it can be attributed to
Sources(r) == {c \in conn : Pend(c) # <<>> /\ WellFormed(stype, Head(Pend(c)))
                             /\ Xform(stype, ident[c], Head(Pend(c))) = r}
\* r equals a later (not the first) pending message of some connection: reordered or skipped
Later(r) == {c \in conn : \E i \in 2..Len(Pend(c)) : WellFormed(stype, Pend(c)[i]) /\ Xform(stype, ident[c], Pend(c)[i]) = r}
\* connections whose head message violates the type's envelope rules (consumed by one error or silently)
Malformed == {c \in conn : Pend(c) # <<>> /\ ~WellFormed(stype, Head(Pend(c)))}
\* connections that still owe the application a message: peer alive or closed in an orderly way
Owing == {c \in conn : Pend(c) # <<>> /\ (c \notin DOMAIN cut \/ cut[c] = "eof")}

\* ---- effects --------------------------------------------------------------------------------
DoAdmit(c, id) == conn' = conn \cup {c} /\ ident' = [x \in (DOMAIN ident) \cup {c} |-> IF x = c THEN id ELSE ident[x]]
                  /\ UNCHANGED <<stype, pend, cut, credit>>
DoWrote(c, m) == pend' = SetPend(c, Append(Pend(c), m)) /\ UNCHANGED <<stype, conn, ident, cut, credit>>
DoConsume(c) == pend' = SetPend(c, Tail(Pend(c))) /\ UNCHANGED <<stype, conn, ident, cut, credit>>
DoCut(c, kind) == cut' = [x \in (DOMAIN cut) \cup {c} |-> IF x = c THEN kind ELSE cut[x]]
                  /\ credit' = credit + 1 /\ UNCHANGED <<stype, conn, ident, pend>>
DoSpendCredit == credit' = credit - 1 /\ UNCHANGED <<stype, conn, ident, pend, cut>>
=============================================================================
