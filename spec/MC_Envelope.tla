---------------------------- MODULE MC_Envelope ----------------------------
(* C07 grid: every (routing prefix, payload) shape, payload of 0..MaxPayload frames over frame kinds
   {empty, short, b256, big}, prefix of 0..MaxPrefix identity frames {id1, id255}; payload of zero
   frames = a request that ends with its delimiter.  For each shape the specification's own reading
   of the REP rules (DeliveryAbs.WellFormed / Xform on the symbolic message) is printed with it.    *)
EXTENDS Envelopes, Json, TLC
CONSTANTS MaxPayload, MaxPrefix
VARIABLES prefix, payload, phase
Kinds == {"empty", "short", "b256", "big"}
Ids == {"id1", "id255"}
Init == prefix = <<>> /\ payload = <<>> /\ phase = "prefix"
Next == \/ phase = "prefix" /\ Len(prefix) < MaxPrefix /\ \E i \in Ids : prefix' = Append(prefix, i) /\ UNCHANGED <<payload, phase>>
        \/ phase = "prefix" /\ phase' = "payload" /\ UNCHANGED <<prefix, payload>>
        \/ phase = "payload" /\ Len(payload) < MaxPayload /\ \E k \in Kinds : payload' = Append(payload, k) /\ UNCHANGED <<prefix, phase>>
Spec == Init /\ [][Next]_<<prefix, payload, phase>>
\* symbolic wire message: kinds as frame descriptors, "empty" is the zero-length frame
Sym(k) == IF k = "empty" THEN Empty ELSE k
Wire == [i \in 1..Len(prefix) |-> prefix[i]] \o <<Empty>> \o [i \in 1..Len(payload) |-> Sym(payload[i])]
Emit == phase = "payload" =>
   PrintT(<<"VEC", ToJson([prefix |-> prefix, payload |-> payload, wellformed |-> WellFormed("REP", Wire),
                            expect |-> IF WellFormed("REP", Wire) THEN Xform("REP", "x", Wire) ELSE <<>>])>>)
\* the spec's REP reading returns exactly the payload for every well-formed shape (prefix frames are never empty)
Law == (phase = "payload" /\ WellFormed("REP", Wire)) => Xform("REP", "x", Wire) = [i \in 1..Len(payload) |-> Sym(payload[i])]
=============================================================================
