---- MODULE RoundRobin_TTrace_1790386320 ----
EXTENDS Sequences, TLCExt, Toolbox, RoundRobin, Naturals, TLC

_expression ==
    LET RoundRobin_TEExpression == INSTANCE RoundRobin_TEExpression
    IN RoundRobin_TEExpression!expression
----

_trace ==
    LET RoundRobin_TETrace == INSTANCE RoundRobin_TETrace
    IN RoundRobin_TETrace!trace
----

_inv ==
    ~(
        TLCGet("level") = Len(_TETrace)
        /\
        hits = (<<1, 1>>)
        /\
        q = (<<1, 2>>)
        /\
        jwait = (<<-1, 2, -1, -1>>)
        /\
        nsends = (5)
        /\
        bad = ({"C10/rotation-repeat-within-n"})
        /\
        live = ({1, 2})
    )
----

_init ==
    /\ hits = _TETrace[1].hits
    /\ live = _TETrace[1].live
    /\ nsends = _TETrace[1].nsends
    /\ bad = _TETrace[1].bad
    /\ jwait = _TETrace[1].jwait
    /\ q = _TETrace[1].q
----

_next ==
    /\ \E i,j \in DOMAIN _TETrace:
        /\ \/ /\ j = i + 1
              /\ i = TLCGet("level")
        /\ hits  = _TETrace[i].hits
        /\ hits' = _TETrace[j].hits
        /\ live  = _TETrace[i].live
        /\ live' = _TETrace[j].live
        /\ nsends  = _TETrace[i].nsends
        /\ nsends' = _TETrace[j].nsends
        /\ bad  = _TETrace[i].bad
        /\ bad' = _TETrace[j].bad
        /\ jwait  = _TETrace[i].jwait
        /\ jwait' = _TETrace[j].jwait
        /\ q  = _TETrace[i].q
        /\ q' = _TETrace[j].q

\* Uncomment the ASSUME below to write the states of the error trace
\* to the given file in Json format. Note that you can pass any tuple
\* to `JsonSerialize`. For example, a sub-sequence of _TETrace.
    \* ASSUME
    \*     LET J == INSTANCE Json
    \*         IN J!JsonSerialize("RoundRobin_TTrace_1790386320.json", _TETrace)

=============================================================================

 Note that you can extract this module `RoundRobin_TEExpression`
  to a dedicated file to reuse `expression` (the module in the 
  dedicated `RoundRobin_TEExpression.tla` file takes precedence 
  over the module `RoundRobin_TEExpression` below).

---- MODULE RoundRobin_TEExpression ----
EXTENDS Sequences, TLCExt, Toolbox, RoundRobin, Naturals, TLC

expression == 
    [
        \* To hide variables of the `RoundRobin` spec from the error trace,
        \* remove the variables below.  The trace will be written in the order
        \* of the fields of this record.
        hits |-> hits
        ,live |-> live
        ,nsends |-> nsends
        ,bad |-> bad
        ,jwait |-> jwait
        ,q |-> q
        
        \* Put additional constant-, state-, and action-level expressions here:
        \* ,_stateNumber |-> _TEPosition
        \* ,_hitsUnchanged |-> hits = hits'
        
        \* Format the `hits` variable as Json value.
        \* ,_hitsJson |->
        \*     LET J == INSTANCE Json
        \*     IN J!ToJson(hits)
        
        \* Lastly, you may build expressions over arbitrary sets of states by
        \* leveraging the _TETrace operator.  For example, this is how to
        \* count the number of times a spec variable changed up to the current
        \* state in the trace.
        \* ,_hitsModCount |->
        \*     LET F[s \in DOMAIN _TETrace] ==
        \*         IF s = 1 THEN 0
        \*         ELSE IF _TETrace[s].hits # _TETrace[s-1].hits
        \*             THEN 1 + F[s-1] ELSE F[s-1]
        \*     IN F[_TEPosition - 1]
    ]

=============================================================================



Parsing and semantic processing can take forever if the trace below is long.
 In this case, it is advised to uncomment the module below to deserialize the
 trace from a generated binary file.

\*
\*---- MODULE RoundRobin_TETrace ----
\*EXTENDS IOUtils, RoundRobin, TLC
\*
\*trace == IODeserialize("RoundRobin_TTrace_1790386320.bin", TRUE)
\*
\*=============================================================================
\*

---- MODULE RoundRobin_TETrace ----
EXTENDS RoundRobin, TLC

trace == 
    <<
    ([hits |-> <<>>,q |-> <<>>,jwait |-> <<-1, -1, -1, -1>>,nsends |-> 0,bad |-> {},live |-> {}]),
    ([hits |-> <<>>,q |-> <<>>,jwait |-> <<-1, -1, -1, -1>>,nsends |-> 1,bad |-> {},live |-> {}]),
    ([hits |-> <<>>,q |-> <<>>,jwait |-> <<-1, -1, -1, -1>>,nsends |-> 2,bad |-> {},live |-> {}]),
    ([hits |-> <<>>,q |-> <<>>,jwait |-> <<-1, -1, -1, -1>>,nsends |-> 3,bad |-> {},live |-> {}]),
    ([hits |-> <<>>,q |-> <<1>>,jwait |-> <<0, -1, -1, -1>>,nsends |-> 3,bad |-> {},live |-> {1}]),
    ([hits |-> <<>>,q |-> <<1, 2>>,jwait |-> <<0, 0, -1, -1>>,nsends |-> 3,bad |-> {},live |-> {1, 2}]),
    ([hits |-> <<1>>,q |-> <<1, 2>>,jwait |-> <<-1, 1, -1, -1>>,nsends |-> 4,bad |-> {},live |-> {1, 2}]),
    ([hits |-> <<1, 1>>,q |-> <<1, 2>>,jwait |-> <<-1, 2, -1, -1>>,nsends |-> 5,bad |-> {"C10/rotation-repeat-within-n"},live |-> {1, 2}])
    >>
----


=============================================================================

---- CONFIG RoundRobin_TTrace_1790386320 ----
CONSTANTS
    Peers = { 1 , 2 , 3 , 4 }
    MaxSends = 8
    Dev = { "push_front" }

INVARIANT
    _inv

CHECK_DEADLOCK
    \* CHECK_DEADLOCK off because of PROPERTY or INVARIANT above.
    FALSE

INIT
    _init

NEXT
    _next

CONSTANT
    _TETrace <- _trace

ALIAS
    _expression
=============================================================================
\* Generated on Sat Sep 26 01:32:01 UTC 2026