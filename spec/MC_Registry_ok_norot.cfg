SPECIFICATION Spec
CONSTANTS
 Conns = {1, 2, 3}
 HasRot = FALSE
 HasFQ = TRUE
 Dev = {}
INVARIANTS Agreement HeldIsWhole NotLost
CHECK_DEADLOCK FALSE
