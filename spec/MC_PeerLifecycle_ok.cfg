SPECIFICATION Spec
CONSTANTS
 Peers = {1, 2}
 MaxOps = 5
 Dev = {}
INVARIANTS Released AtMostOneError NothingRoutedToObserved
CHECK_DEADLOCK FALSE
