SPECIFICATION Spec
CONSTANTS
 Eps = {1, 2}
 Conns = {1, 2, 3}
 Dev = {"pending_handshake_outlives_socket"}
INVARIANTS BindSetExact FileIffListening ClosedMeansGone AcceptNeverBlocked
CHECK_DEADLOCK FALSE
