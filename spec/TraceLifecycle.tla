--------------------------- MODULE TraceLifecycle ---------------------------
(* Layer-A monitor for C16: when a peer's connection ends (orderly close, reset, write failure, at any
   point of its byte stream) the socket reports at most one recv error for it, routes no later send
   to it once it has observed the end (a read returned EOF / an error, or a write failed), and by
   the next quiescent point has released both halves of the connection.  "Observed" is logged by the
   harness pipes at the moment the library's read or write returned the end / the error.         *)
EXTENDS DeliveryAbs, TraceCommon
VARIABLES l, scen, viol, obs, how, relR, relW, lastFault, obsAtCall, incall, mayErr, faulted, final, super, infl
\* final: the scenario's last quiescent point has passed (the driver drops the socket next); super: connections superseded by a newer one of the same identity;
\* infl: registrations in progress that announced an identity, as <<connection, identity>>
tvars == <<avars, l, scen, viol, obs, how, relR, relW, lastFault, obsAtCall, incall, mayErr, faulted, final, super, infl>>
lv == <<obs, how, relR, relW, lastFault, obsAtCall, incall, mayErr, faulted, final, super, infl>>
E == Rec[l]
Flag(code) == Report(scen, code, l) /\ viol' = viol \cup {code}
NoFlag == UNCHANGED viol
Step(evname) == l <= NRec /\ E.ev = evname /\ l' = l + 1
TInit == AInit /\ l = 1 /\ scen = 0 /\ viol = {} /\ obs = {} /\ how = EmptyMap /\ relR = {} /\ relW = {} /\ lastFault = "none" /\ obsAtCall = {} /\ incall = FALSE /\ mayErr = {} /\ faulted = {} /\ final = FALSE /\ super = {} /\ infl = {}
TReset == Step("reset") /\ scen' = E.scen /\ stype' = E.sock /\ conn' = {} /\ ident' = <<>> /\ pend' = <<>> /\ cut' = <<>> /\ credit' = 0
          /\ obs' = {} /\ how' = EmptyMap /\ relR' = {} /\ relW' = {} /\ lastFault' = "none" /\ obsAtCall' = {} /\ incall' = FALSE /\ mayErr' = {} /\ faulted' = {} /\ final' = FALSE /\ super' = {} /\ infl' = {} /\ UNCHANGED viol
TAttachRet == Step("attach_ret") /\ UNCHANGED <<scen, obs, how, relR, relW, lastFault, obsAtCall, incall, mayErr, faulted, final>> /\ NoFlag /\
   infl' = {p \in infl : p[1] # E.c} /\
   (IF E.res = "ok" THEN DoAdmit(E.c, E.id) /\ super' = (IF Fld(E, "auto", TRUE) THEN super
                                                         ELSE super \cup {c \in conn : ident[c] = E.id}
                                                                    \* another connection is registering under this identity right now: it may take this one's place
                                                                    \cup (IF \E p \in infl : p[1] # E.c /\ p[2] = E.id THEN {E.c} ELSE {}))
    ELSE UNCHANGED <<avars, super>>)
TWrote == Step("peer_wrote") /\ UNCHANGED <<scen, lv>> /\ NoFlag /\ DoWrote(E.c, E.m)
\* a connection that ends may surface ONE recv error, however many fault events (close, reset, broken pipe) it suffers
Allow(c) == mayErr' = (IF c \in faulted THEN mayErr ELSE mayErr \cup {c}) /\ faulted' = faulted \cup {c}
TBytes == Step("peer_bytes") /\ UNCHANGED <<stype, conn, ident, pend, cut, credit, scen, obs, how, relR, relW, lastFault, obsAtCall, incall, final, super, infl>> /\ Allow(E.c) /\ NoFlag
TCut == Step("peer_cut") /\ UNCHANGED <<scen, obs, how, relR, relW, obsAtCall, incall, final, super, infl>> /\ NoFlag /\ DoCut(E.c, IF E.kind = "eof" THEN "eof" ELSE "err") /\ lastFault' = E.kind /\ Allow(E.c)
TPipe == Step("pipe") /\ UNCHANGED <<scen, obs, how, relR, relW, obsAtCall, incall, final, super, infl>> /\ NoFlag /\
   IF E.what = "break" THEN DoCut(E.c, "err") /\ lastFault' = "wbreak" /\ Allow(E.c) ELSE UNCHANGED <<avars, lastFault, mayErr, faulted>>
TObserved == Step("observed") /\ UNCHANGED <<avars, scen, relR, relW, lastFault, obsAtCall, incall, mayErr, faulted, final, super, infl>> /\ NoFlag
   /\ obs' = obs \cup {E.c} /\ how' = IF E.c \in DOMAIN how THEN how ELSE Put(how, E.c, E.how)
\* the socket lets go of a connection: demanded after its end was observed, fine when a newer connection of the same identity
\* superseded it or the scenario is over (the driver drops the socket) - but a connection nothing happened to must stay
TReleased == Step("released") /\ UNCHANGED <<avars, scen, obs, how, lastFault, obsAtCall, incall, mayErr, faulted, final, super, infl>>
   /\ relR' = (IF E.half = "r" THEN relR \cup {E.c} ELSE relR) /\ relW' = (IF E.half = "w" THEN relW \cup {E.c} ELSE relW)
   /\ IF E.c \in conn /\ E.c \notin faulted /\ E.c \notin super /\ ~final THEN Flag("C16/healthy-connection-released:" \o stype) ELSE NoFlag
TRecvRet == Step("recv_ret") /\ UNCHANGED <<avars, scen, obs, how, relR, relW, lastFault, obsAtCall, incall, faulted, final, super, infl>> /\
   IF E.res = "err" THEN
      (IF mayErr # {} THEN mayErr' = mayErr \ {CHOOSE c \in mayErr : TRUE} /\ NoFlag
       ELSE IF \E c \in conn : Pend(c) # <<>> /\ ~WellFormed(stype, Head(Pend(c))) THEN UNCHANGED mayErr /\ NoFlag
       ELSE IF faulted # {} THEN UNCHANGED mayErr /\ Flag("C16/error-repeated:" \o stype \o ":" \o lastFault)
       ELSE UNCHANGED mayErr /\ NoFlag)
   ELSE UNCHANGED mayErr /\ NoFlag
TSendCall == Step("send_call") /\ UNCHANGED <<avars, scen, obs, how, relR, relW, lastFault, mayErr, faulted, final, super, infl>> /\ NoFlag /\ obsAtCall' = obs /\ incall' = TRUE
TSendRet == Step("send_ret") /\ UNCHANGED <<avars, scen, obs, how, relR, relW, lastFault, obsAtCall, mayErr, faulted, final, super, infl>> /\ NoFlag /\ incall' = FALSE
\* an application message written to a connection whose end the socket had already observed when the send began
TWire == Step("wire") /\ UNCHANGED <<avars, scen, lv>> /\
   IF E.k = "msg" /\ incall /\ E.c \in obsAtCall THEN Flag("C16/send-routed-to-dead-peer:" \o stype \o ":" \o how[E.c]) ELSE NoFlag
TQuiescent == Step("quiescent") /\ UNCHANGED <<avars, scen, obs, how, relR, relW, lastFault, obsAtCall, incall, mayErr, faulted, super, infl>> /\ final' = (final \/ Fld(E, "final", FALSE)) /\
   IF Fld(E, "pending", "none") \in {"send", "sub"} THEN NoFlag
   ELSE IF \E c \in obs : c \notin relW THEN LET c == CHOOSE x \in obs : x \notin relW IN Flag("C16/not-released:w:" \o stype \o ":" \o how[c])
   ELSE IF \E c \in obs : c \notin relR THEN LET c == CHOOSE x \in obs : x \notin relR IN Flag("C16/not-released:r:" \o stype \o ":" \o how[c])
   \* a socket that never reads in its calls (PUB, PUSH) must notice a peer's orderly end by itself, or it keeps every
   \* connection that ever closed: by the next quiescent point (its tasks have run) the end has been observed
   ELSE IF stype \in {"PUB", "PUSH"} /\ \E c \in conn : c \in DOMAIN cut /\ cut[c] = "eof" /\ c \notin obs /\ ~(c \in relR /\ c \in relW)
        THEN Flag("C16/end-not-noticed:" \o stype)
   ELSE NoFlag
TPanic == Step("panic") /\ UNCHANGED <<avars, scen, lv>> /\ Flag("C03/panic")
\* a connection announces the identity of an older one: from the moment its registration starts the older one may be let go
TAttachCall == Step("attach_call") /\ UNCHANGED <<avars, scen, obs, how, relR, relW, lastFault, obsAtCall, incall, mayErr, faulted, final>> /\ NoFlag /\
   super' = (IF Has(E, "announced") THEN super \cup {c \in conn : ident[c] = E.announced} ELSE super) /\
   infl' = (IF Has(E, "announced") THEN infl \cup {<<E.c, E.announced>>} ELSE infl)
\* a message the socket should have written to a connection by now has not arrived there
TExpectWire == Step("expect_wire") /\ UNCHANGED <<avars, scen, lv>> /\ (IF E.ok THEN NoFlag ELSE Flag("C16/healthy-connection-not-served:" \o stype))
Ignored == {"peer_part", "attach_pending", "recv_call", "recv_pending", "recv_dropped", "send_pending", "send_dropped", "end", "sub_call", "sub_ret",
            "sub_pending", "harness_error"}
TIgnore == l <= NRec /\ E.ev \in Ignored /\ l' = l + 1 /\ UNCHANGED <<avars, scen, lv>> /\ NoFlag
TNext == TReset \/ TExpectWire \/ TAttachCall \/ TAttachRet \/ TWrote \/ TBytes \/ TCut \/ TPipe \/ TObserved \/ TReleased \/ TRecvRet \/ TSendCall \/ TSendRet \/ TWire \/ TQuiescent \/ TPanic \/ TIgnore
TSpec == TInit /\ [][TNext]_tvars
Accepted == Consumed
=============================================================================
