---- MODULE Router_TTrace_1790386963 ----
EXTENDS Sequences, TLCExt, Toolbox, Router, Naturals, TLC

_expression ==
    LET Router_TEExpression == INSTANCE Router_TEExpression
    IN Router_TEExpression!expression
----

_trace ==
    LET Router_TETrace == INSTANCE Router_TETrace
    IN Router_TETrace!trace
----

_inv ==
    ~(
        TLCGet("level") = Len(_TETrace)
        /\
        idof = (<<2, 1, 0>>)
        /\
        bad = ({"C09/recv-label-not-sender"})
        /\
        nops = (1)
        /\
        lastjoin = (2)
        /\
        inbox = (<<0, 0, 0>>)
        /\
        table = (<<2, 1, 0>>)
    )
----

_init ==
    /\ lastjoin = _TETrace[1].lastjoin
    /\ bad = _TETrace[1].bad
    /\ nops = _TETrace[1].nops
    /\ table = _TETrace[1].table
    /\ inbox = _TETrace[1].inbox
    /\ idof = _TETrace[1].idof
----

_next ==
    /\ \E i,j \in DOMAIN _TETrace:
        /\ \/ /\ j = i + 1
              /\ i = TLCGet("level")
        /\ lastjoin  = _TETrace[i].lastjoin
        /\ lastjoin' = _TETrace[j].lastjoin
        /\ bad  = _TETrace[i].bad
        /\ bad' = _TETrace[j].bad
        /\ nops  = _TETrace[i].nops
        /\ nops' = _TETrace[j].nops
        /\ table  = _TETrace[i].table
        /\ table' = _TETrace[j].table
        /\ inbox  = _TETrace[i].inbox
        /\ inbox' = _TETrace[j].inbox
        /\ idof  = _TETrace[i].idof
        /\ idof' = _TETrace[j].idof

\* Uncomment the ASSUME below to write the states of the error trace
\* to the given file in Json format. Note that you can pass any tuple
\* to `JsonSerialize`. For example, a sub-sequence of _TETrace.
    \* ASSUME
    \*     LET J == INSTANCE Json
    \*         IN J!JsonSerialize("Router_TTrace_1790386963.json", _TETrace)

=============================================================================

 Note that you can extract this module `Router_TEExpression`
  to a dedicated file to reuse `expression` (the module in the 
  dedicated `Router_TEExpression.tla` file takes precedence 
  over the module `Router_TEExpression` below).

---- MODULE Router_TEExpression ----
EXTENDS Sequences, TLCExt, Toolbox, Router, Naturals, TLC

expression == 
    [
        \* To hide variables of the `Router` spec from the error trace,
        \* remove the variables below.  The trace will be written in the order
        \* of the fields of this record.
        lastjoin |-> lastjoin
        ,bad |-> bad
        ,nops |-> nops
        ,table |-> table
        ,inbox |-> inbox
        ,idof |-> idof
        
        \* Put additional constant-, state-, and action-level expressions here:
        \* ,_stateNumber |-> _TEPosition
        \* ,_lastjoinUnchanged |-> lastjoin = lastjoin'
        
        \* Format the `lastjoin` variable as Json value.
        \* ,_lastjoinJson |->
        \*     LET J == INSTANCE Json
        \*     IN J!ToJson(lastjoin)
        
        \* Lastly, you may build expressions over arbitrary sets of states by
        \* leveraging the _TETrace operator.  For example, this is how to
        \* count the number of times a spec variable changed up to the current
        \* state in the trace.
        \* ,_lastjoinModCount |->
        \*     LET F[s \in DOMAIN _TETrace] ==
        \*         IF s = 1 THEN 0
        \*         ELSE IF _TETrace[s].lastjoin # _TETrace[s-1].lastjoin
        \*             THEN 1 + F[s-1] ELSE F[s-1]
        \*     IN F[_TEPosition - 1]
    ]

=============================================================================



Parsing and semantic processing can take forever if the trace below is long.
 In this case, it is advised to uncomment the module below to deserialize the
 trace from a generated binary file.

\*
\*---- MODULE Router_TETrace ----
\*EXTENDS IOUtils, Router, TLC
\*
\*trace == IODeserialize("Router_TTrace_1790386963.bin", TRUE)
\*
\*=============================================================================
\*

---- MODULE Router_TETrace ----
EXTENDS Router, TLC

trace == 
    <<
    ([idof |-> <<0, 0, 0>>,bad |-> {},nops |-> 0,lastjoin |-> 0,inbox |-> <<0, 0, 0>>,table |-> <<0, 0, 0>>]),
    ([idof |-> <<2, 0, 0>>,bad |-> {},nops |-> 0,lastjoin |-> 1,inbox |-> <<0, 0, 0>>,table |-> <<0, 1, 0>>]),
    ([idof |-> <<2, 0, 0>>,bad |-> {},nops |-> 0,lastjoin |-> 1,inbox |-> <<1, 0, 0>>,table |-> <<0, 1, 0>>]),
    ([idof |-> <<2, 1, 0>>,bad |-> {},nops |-> 0,lastjoin |-> 2,inbox |-> <<1, 0, 0>>,table |-> <<2, 1, 0>>]),
    ([idof |-> <<2, 1, 0>>,bad |-> {"C09/recv-label-not-sender"},nops |-> 1,lastjoin |-> 2,inbox |-> <<0, 0, 0>>,table |-> <<2, 1, 0>>])
    >>
----


=============================================================================

---- CONFIG Router_TTrace_1790386963 ----
CONSTANTS
    Conns = { 1 , 2 , 3 }
    Ids = { 1 , 2 , 3 }
    MaxOps = 4
    Dev = { "label_last_joined" }

INVARIANT
    _inv

CHECK_DEADLOCK
    \* CHECK_DEADLOCK off because of PROPERTY or INVARIANT above.
    FALSE

INIT
    _init

NEXT
    _next

CONSTANT
    _TETrace <- _trace

ALIAS
    _expression
=============================================================================
\* Generated on Sat Sep 26 01:42:43 UTC 2026