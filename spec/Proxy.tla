------------------------------- MODULE Proxy -------------------------------
(* C15, layers A and B (src/lib.rs proxy()): a loop that selects over recv on both sides; whichever
   is ready wins (either, when both are); the message is first copied to the capture socket, then
   sent on the other side; the recv that lost the race is dropped and re-issued next iteration.
   Layer A: per direction the sequence forwarded is a prefix of the sequence that arrived, nothing
   is forwarded twice, and every forwarded message has exactly one capture copy.
   Dev: spec mutants ("relay_skips_capture" = an eager second relay without the capture copy,
   "drop_loser_message" = the losing recv's message is lost with its future).                      *)
EXTENDS Naturals, Sequences, FiniteSets, TLC
CONSTANTS MaxMsgs, Dev
VARIABLES inF, inB, outF, outB, cap, nF, nB
vars == <<inF, inB, outF, outB, cap, nF, nB>>
Init == inF = <<>> /\ inB = <<>> /\ outF = <<>> /\ outB = <<>> /\ cap = <<>> /\ nF = 0 /\ nB = 0
ArriveF == nF < MaxMsgs /\ nF' = nF + 1 /\ inF' = Append(inF, <<"f", nF + 1>>) /\ UNCHANGED <<inB, outF, outB, cap, nB>>
ArriveB == nB < MaxMsgs /\ nB' = nB + 1 /\ inB' = Append(inB, <<"b", nB + 1>>) /\ UNCHANGED <<inF, outF, outB, cap, nF>>
\* one loop iteration where the frontend recv wins
StepF == /\ inF # <<>>
         /\ LET m == Head(inF) IN
            /\ cap' = Append(cap, m) /\ outB' = Append(outB, m) /\ inF' = Tail(inF)
            /\ IF "relay_skips_capture" \in Dev /\ inB # <<>>
                 THEN outF' = Append(outF, Head(inB)) /\ inB' = Tail(inB)          \* eager reply relay, no capture copy
                 ELSE IF "drop_loser_message" \in Dev /\ inB # <<>> THEN inB' = Tail(inB) /\ UNCHANGED outF
                 ELSE UNCHANGED <<inB, outF>>
         /\ UNCHANGED <<nF, nB>>
StepB == /\ inB # <<>>
         /\ LET m == Head(inB) IN cap' = Append(cap, m) /\ outF' = Append(outF, m) /\ inB' = Tail(inB)
         /\ UNCHANGED <<inF, outB, nF, nB>>
Next == ArriveF \/ ArriveB \/ StepF \/ StepB
Spec == Init /\ [][Next]_vars
AllF == [i \in 1..nF |-> <<"f", i>>]
AllB == [i \in 1..nB |-> <<"b", i>>]
IsPrefix(p, s) == Len(p) <= Len(s) /\ \A i \in 1..Len(p) : p[i] = s[i]
Verbatim == IsPrefix(outB, AllF) /\ IsPrefix(outF, AllB)
NothingLost == outB \o inF = AllF /\ outF \o inB = AllB
Captured == Len(cap) = Len(outB) + Len(outF) /\ \A i \in 1..Len(outB) : \E j \in 1..Len(cap) : cap[j] = outB[i]
=============================================================================
