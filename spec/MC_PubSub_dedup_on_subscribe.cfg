SPECIFICATION Spec
CONSTANTS
 Topics <- TopicsDef
 Frames <- FramesDef
 MaxHist = 5
 Dev = {"dedup_on_subscribe"}
INVARIANTS Refines 
CHECK_DEADLOCK FALSE
