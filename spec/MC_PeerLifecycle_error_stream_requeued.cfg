SPECIFICATION Spec
CONSTANTS
 Peers = {1, 2}
 MaxOps = 5
 Dev = {"error_stream_requeued"}
INVARIANTS Released AtMostOneError NothingRoutedToObserved
CHECK_DEADLOCK FALSE
