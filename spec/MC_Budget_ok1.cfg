SPECIFICATION Spec
CONSTANTS
 N = 3
 B = 1
 MaxBuf = 12
 Bound = 12
 Dev = {}
INVARIANTS Fair
CHECK_DEADLOCK FALSE
