--------------------------- MODULE TraceListener ---------------------------
(* Layer-A monitor for the real-transport properties, over traces recorded by harness/src/net.rs
   on real loopback TCP (v4, v6, localhost) and IPC sockets:
     C18  bind returns a connectable concrete endpoint (non-zero port), the bind set is exactly the
          successful binds minus the unbinds, a failed bind changes nothing, unbind stops exactly that
          endpoint by the time it returns and leaves other binds and established connections working,
          unbind of anything else fails with NoSuchBind
     C17  after close() returns every bound endpoint refuses (IPC file gone); after drop the same within
          the settle bound; every connected peer sees end-of-stream; background tasks end
     C20  with stalled / garbage / closing handshakes present, well-behaved clients complete their
          handshake and exchange messages; failed handshakes are reported as AcceptFailed
   The model state is the bind set (names) and whether the socket is still open; "settled" observations
   were polled by the driver for up to 10 s.                                                     *)
EXTENDS TraceCommon
VARIABLES l, scen, stype, viol, bound, ever, open, how, bad, hung, good, tag, ports, sab, rep
\* sab: endpoints whose socket file somebody replaced by a directory (its removal must fail); rep: failures close() / unbind reported
tvars == <<l, scen, stype, viol, bound, ever, open, how, bad, hung, good, tag, ports, sab, rep>>
E == Rec[l]
Flag(code) == Report(scen, code, l) /\ viol' = viol \cup {code}
NoFlag == UNCHANGED viol
Step(evname) == l <= NRec /\ E.ev = evname /\ l' = l + 1
Same == UNCHANGED <<scen, stype, bound, ever, open, how, bad, hung, good, tag, ports, sab, rep>>
TInit == l = 1 /\ scen = 0 /\ stype = "none" /\ viol = {} /\ bound = {} /\ ever = {} /\ open = TRUE /\ how = "open" /\ bad = 0 /\ hung = {} /\ good = {} /\ tag = "" /\ ports = EmptyMap /\ sab = {} /\ rep = 0
TReset == Step("reset") /\ scen' = E.scen /\ stype' = E.sock /\ bound' = {} /\ ever' = {} /\ open' = TRUE /\ how' = "open" /\ bad' = 0 /\ hung' = {} /\ good' = {}
          /\ tag' = Fld(E, "tag", "") /\ ports' = EmptyMap /\ sab' = {} /\ rep' = 0 /\ NoFlag
IsTcp(req) == \E i \in {1} : TRUE   \* (placeholder: transport is read off the port field)
TBind == Step("bind") /\ UNCHANGED <<scen, stype, open, how, bad, hung, good, tag, sab, rep>> /\
   IF E.res = "ok" THEN
        bound' = bound \cup {E.name} /\ ever' = ever \cup {E.name} /\ ports' = Put(ports, E.name, E.port)
        /\ IF E.port = 0 THEN Flag("C18/bind-port-zero") ELSE NoFlag
   ELSE UNCHANGED <<bound, ever, ports>> /\ Flag("C18/bind-failed-unexpectedly")
\* a duplicate bind is expected to fail; whatever it returns, nothing may change (checked by the following binds / probe events)
TBindDup == Step("bind_dup") /\ Same /\ NoFlag
TUnbind == Step("unbind") /\ UNCHANGED <<scen, stype, ever, open, how, bad, hung, good, tag, ports, sab>> /\
   IF E.name \in bound THEN
        (IF E.res = "ok" THEN bound' = bound \ {E.name} /\ UNCHANGED rep /\
              (IF E.name \in sab THEN Flag("C17/failure-not-reported:unbind")
               \* unbind blocks until the endpoint is no longer in use: a connect made the instant it returned was still accepted
               ELSE IF Fld(E, "after", "n/a") = "accepted" THEN Flag("C18/unbind-returned-while-listening")
               ELSE NoFlag)
         \* the file could not be removed: reporting it is demanded, the listener is gone all the same
         ELSE IF E.name \in sab THEN bound' = bound \ {E.name} /\ rep' = rep + 1 /\ NoFlag
         ELSE UNCHANGED <<bound, rep>> /\ Flag("C18/unbind-failed"))
   ELSE UNCHANGED <<bound, rep>> /\ (IF E.res = "err:NoSuchBind" THEN NoFlag ELSE Flag("C18/unknown-not-nosuchbind"))
TUnbindUnknown == Step("unbind_unknown") /\ Same /\ (IF E.res = "err:NoSuchBind" THEN NoFlag ELSE Flag("C18/unknown-not-nosuchbind"))
TBinds == Step("binds") /\ Same /\
   IF SeqToSet(E.names) # bound \/ E.unknown # 0 THEN Flag("C18/binds-set-mismatch") ELSE NoFlag
\* a fresh connection attempt to an endpoint that was bound at some time
TProbe == Step("probe") /\ Same /\
   LET up == E.name \in bound /\ open IN
   IF up THEN (IF E.res \in {"accepted", "handshaken"} THEN NoFlag
               \* a bound endpoint must keep accepting any number of connections (C18), whatever other connections are doing (C20)
               ELSE IF hung # {} \/ bad > 0 \/ tag = "burst" THEN Report(scen, "C18/listener-stopped-accepting", l) /\ Flag("C20/listener-stopped-accepting")
               ELSE IF E.res = "refused" THEN Flag("C18/bind-unconnectable-or-stopped")
               ELSE Report(scen, "C18/listener-stopped-accepting", l) /\ Flag("C20/good-client-blocked"))
   ELSE (IF E.res = "refused" THEN NoFlag
         \* the operating system may hand the port of an endpoint that was unbound to a later wildcard bind of this socket
         ELSE IF open /\ \E b \in bound : Get(ports, b, 0 - 2) = Get(ports, E.name, 0 - 3) /\ Get(ports, b, 0) > 0 THEN NoFlag
         \* ... or to another process of this machine: then the listener that answered is not in this process
         ELSE IF ~Fld(E, "ours", TRUE) THEN NoFlag
         ELSE IF ~open THEN Flag(IF how = "close" THEN "C17/still-accepting-after-close" ELSE "C17/not-settled-after-drop")
         ELSE Flag("C18/unbind-left-listener"))
TIpc == Step("ipc_exists") /\ Same /\
   IF E.name \in sab THEN NoFlag                                             \* the path is somebody's directory now: nothing to demand of it
   ELSE IF E.name \in bound /\ open THEN (IF E.exists THEN NoFlag ELSE Flag("C18/ipc-file-missing-while-bound"))
   ELSE IF E.exists THEN Flag(IF open THEN "C18/unbind-left-listener" ELSE "C17/ipc-file-remains") ELSE NoFlag
\* raw clients: good ones must complete the handshake whatever else is going on
TClient == Step("client") /\ UNCHANGED <<scen, stype, bound, ever, open, how, tag, ports, sab, rep>> /\
   IF E.kind = "good" THEN
        (IF E.res = "handshaken" THEN good' = good \cup {E.k} /\ UNCHANGED <<bad, hung>> /\ NoFlag
         ELSE UNCHANGED <<good, bad, hung>> /\ Flag(IF hung # {} \/ bad > 0 THEN "C20/good-client-blocked" ELSE "C18/bind-unconnectable-or-stopped"))
   ELSE IF E.res = "stopped" THEN
        good' = good /\ (IF E.kind = "close" THEN bad' = bad + 1 /\ UNCHANGED hung ELSE hung' = hung \cup {E.k} /\ UNCHANGED bad) /\ NoFlag
   ELSE UNCHANGED <<good, bad, hung>> /\ NoFlag
TConnectOut == Step("connect_out") /\ UNCHANGED <<scen, stype, bound, ever, open, how, bad, hung, tag, ports, sab, rep>> /\
   IF E.res = "ok" /\ E.peer = "handshaken" THEN good' = good \cup {E.k} /\ NoFlag ELSE UNCHANGED good /\ Flag("C17/harness-connect-out-failed")
TExchange == Step("exchange") /\ Same /\
   IF E.res = "ok" THEN NoFlag
   ELSE IF hung # {} \/ bad > 0 THEN Flag("C20/established-traffic-interrupted")
   ELSE Flag("C18/unbind-broke-established")
TMonitor == Step("monitor") /\ Same /\
   IF E.accept_failed < bad THEN Flag("C20/no-accept-failed-event")
   ELSE IF E.accepted < Cardinality(good) THEN Flag("C20/peer-set-changed")
   ELSE NoFlag
TClose == Step("close") /\ UNCHANGED <<scen, stype, bound, ever, bad, hung, good, tag, ports, sab>> /\ open' = FALSE /\ how' = "close" /\
   rep' = rep + Fld(E, "errors", 0) /\
   IF E.res # "returned" THEN Flag("C17/close-did-not-return")
   \* close() reports each failure it met: one per endpoint whose file it could not remove
   ELSE IF Fld(E, "errors", 0) < Cardinality(sab \cap bound) THEN Flag("C17/failure-not-reported:close")
   ELSE NoFlag
TDrop == Step("drop") /\ UNCHANGED <<scen, stype, bound, ever, bad, hung, good, tag, ports, sab, rep>> /\ open' = FALSE /\ how' = "drop" /\ NoFlag
\* after close / drop every connected peer observes end-of-stream
TEof == Step("check_eof") /\ Same /\
   IF open \/ E.eof THEN NoFlag
   ELSE IF E.k \in hung THEN Flag("C17/peer-no-eof:pending-handshake")
   ELSE Flag("C17/peer-no-eof:" \o stype)
TTasks == Step("tasks") /\ Same /\
   IF open \/ E.extra = 0 THEN NoFlag
   ELSE IF hung # {} /\ E.extra <= Cardinality(hung) THEN Flag("C17/tasks-remain:pending-handshake")
   ELSE Flag("C17/tasks-remain:" \o stype)
TFds == Step("fds") /\ Same /\
   IF open \/ E.extra = 0 THEN NoFlag
   ELSE IF hung # {} /\ E.extra <= Cardinality(hung) THEN Flag("C17/fd-leak:pending-handshake")
   ELSE Flag("C16/fd-leak:" \o stype)
TPanic == Step("panic") /\ Same /\ Flag("C03/panic")
TTimeout == Step("scenario_timeout") /\ Same /\ Flag("net/scenario-timeout")
THarness == Step("harness_error") /\ Same /\ Flag("harness/script-error")
TEnd == Step("end") /\ Same /\ NoFlag
TSkipped == Step("skipped_rest") /\ Same /\ NoFlag
TInstallMonitor == Step("install_monitor") /\ Same /\ NoFlag      \* the monitor stream asked for (again) after a bind: what follows is demanded of it all the same
TBurst == Step("reset_burst") /\ UNCHANGED <<scen, stype, bound, ever, open, how, hung, good, tag, ports, sab, rep>> /\ bad' = bad /\ NoFlag
TFdExhaust == Step("fd_exhaust") /\ Same /\ NoFlag
TFdRelease == Step("fd_release") /\ Same /\ NoFlag
TSabotage == Step("ipc_sabotage") /\ UNCHANGED <<scen, stype, bound, ever, open, how, bad, hung, good, tag, ports, rep>> /\ NoFlag
             /\ sab' = IF E.ok THEN sab \cup {E.name} ELSE sab
TNext == TReset \/ TBind \/ TBindDup \/ TUnbind \/ TUnbindUnknown \/ TBinds \/ TProbe \/ TIpc \/ TClient \/ TConnectOut \/ TExchange \/ TMonitor \/ TClose \/ TDrop \/ TEof
         \/ TTasks \/ TFds \/ TSkipped \/ TInstallMonitor \/ TBurst \/ TSabotage \/ TFdExhaust \/ TFdRelease \/ TPanic \/ TTimeout \/ THarness \/ TEnd
TSpec == TInit /\ [][TNext]_tvars
Accepted == Consumed
=============================================================================
