SPECIFICATION Spec
CONSTANTS
 Hs = {h1, h2}
 Threads = 1
 Pinned = FALSE
 Dev = {"held"}
INVARIANTS Reach_HandshakeQueued
CHECK_DEADLOCK FALSE
