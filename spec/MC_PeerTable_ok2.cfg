SPECIFICATION Spec
CONSTANTS
 Hs = {h1, h2}
 Threads = 2
 Dev = {}
INVARIANTS NeverStuck
PROPERTY Terminates
CHECK_DEADLOCK FALSE
