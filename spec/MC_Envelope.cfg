SPECIFICATION Spec
CONSTANTS
 MaxPayload = 3
 MaxPrefix = 2
INVARIANTS Emit Law
CHECK_DEADLOCK FALSE
