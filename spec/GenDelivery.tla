---------------------------- MODULE GenDelivery ----------------------------
(* Exhaustive enumerator of socket-level receive schedules (binding R at socket level): every
   sequence of length Depth over {attach c, attach-with-first-message c, c sends a message, c sends
   the first half / the rest of a message, c closes, recv (driven like an executor), one poll of
   recv, drop of the pending recv, quiescent check}, subject only to well-formedness (a peer sends
   after it attached, finishes only what it began, ...).  One state per distinct history; the
   histories of full length are printed as scripts for harness/src/engine.rs.  What the real socket
   does with each is judged by TraceDelivery (layer A).                                          *)
EXTENDS Naturals, Sequences, FiniteSets, TLC, Json
CONSTANTS Conns, MaxMsgs, Depth
VARIABLES hist, att, sent, half, closed
vars == <<hist, att, sent, half, closed>>

Init == hist = <<>> /\ att = {} /\ sent = [c \in Conns |-> 0] /\ half = {} /\ closed = {}
Log(r) == hist' = Append(hist, r)
Room == Len(hist) < Depth

Attach(c, first) == Room /\ c \notin att /\ (\A d \in Conns : d < c => d \in att)       \* symmetry: attach in order
   /\ att' = att \cup {c} /\ sent' = [sent EXCEPT ![c] = IF first THEN 1 ELSE 0]
   /\ Log([op |-> "attach", c |-> c, first |-> first]) /\ UNCHANGED <<half, closed>>
Send(c) == Room /\ c \in att \ (closed \cup half) /\ sent[c] < MaxMsgs
   /\ sent' = [sent EXCEPT ![c] = @ + 1] /\ Log([op |-> "psend", c |-> c, n |-> sent[c] + 1]) /\ UNCHANGED <<att, half, closed>>
Begin(c) == Room /\ c \in att \ (closed \cup half) /\ sent[c] < MaxMsgs
   /\ half' = half \cup {c} /\ sent' = [sent EXCEPT ![c] = @ + 1] /\ Log([op |-> "pbegin", c |-> c, n |-> sent[c] + 1]) /\ UNCHANGED <<att, closed>>
Finish(c) == Room /\ c \in half /\ half' = half \ {c} /\ Log([op |-> "pfinish", c |-> c]) /\ UNCHANGED <<att, sent, closed>>
Close(c) == Room /\ c \in att \ closed /\ closed' = closed \cup {c} /\ half' = half \ {c}
   /\ Log([op |-> "pclose", c |-> c]) /\ UNCHANGED <<att, sent>>
Sock(o) == Room /\ Log([op |-> o]) /\ UNCHANGED <<att, sent, half, closed>>

Next == \/ \E c \in Conns : Attach(c, TRUE) \/ Attach(c, FALSE) \/ Send(c) \/ Begin(c) \/ Finish(c) \/ Close(c)
        \/ \E o \in {"recv", "recv_poll", "recv_drop", "quiescent"} : Sock(o)
Spec == Init /\ [][Next]_vars
\* only histories that exercise the receiver and at least one message are worth running
Useful == \E i \in 1..Len(hist) : hist[i].op \in {"recv", "recv_poll"}
Emit == (Len(hist) = Depth /\ Useful) => PrintT(<<"SCRIPT", ToJson(hist)>>)
=============================================================================
