SPECIFICATION Spec
CONSTANTS
 Hs = {h1, h2}
 Threads = 1
 Pinned = FALSE
 Dev = {}
INVARIANTS NeverStuck NoSuspendedOwner
PROPERTY Terminates
CHECK_DEADLOCK FALSE
