SPECIFICATION Spec
CONSTANTS
 Peers = {1, 2, 3, 4}
 MaxSends = 8
 Dev = {"push_front"}
INVARIANT Refines
CHECK_DEADLOCK FALSE
