SPECIFICATION Spec
CONSTANTS
 Conns = {1, 2, 3}
 Ids = {1, 2, 3}
 MaxOps = 4
 Dev = {}
INVARIANTS Refines TableConsistent
CHECK_DEADLOCK FALSE
