SPECIFICATION FairSpec
CONSTANTS
 Keys = {a, b}
 MaxItems = 2
 MaxTicket = 8
 MaxStale = 0
 MaxExh = 1
 MaxReins = 0
 AllowRemove = FALSE
 Dev = {}
PROPERTY Live
CHECK_DEADLOCK FALSE
