SPECIFICATION Spec
CONSTANTS
 N = 3
 B = 1
 MaxBuf = 14
 Bound = 12
 Dev = {"reask_fixed"}
INVARIANTS Fair
CHECK_DEADLOCK FALSE
