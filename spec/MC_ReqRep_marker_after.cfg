SPECIFICATION Spec
CONSTANTS
 Peers = {1, 2}
 MaxCalls = 6
 Dev = {"marker_after_write"}
INVARIANTS Refines MarkerMirrorsOwed
CHECK_DEADLOCK FALSE
