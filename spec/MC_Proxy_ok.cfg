SPECIFICATION Spec
CONSTANTS
 MaxMsgs = 3
 Dev = {}
INVARIANTS Verbatim NothingLost Captured
CHECK_DEADLOCK FALSE
