----------------------------- MODULE RoundRobin -----------------------------
(* Layers A and B for C10 (src/backend.rs Rotation / send_round_robin, src/req.rs send): the rotation is a
   queue that holds every registered identity once.  A send takes the identity at the front, skips
   and purges identities whose peer has vanished, writes the message to that peer and only then moves
   the identity to the back; a send that is abandoned while it waits changes nothing.  Peers join at
   any time (at the back, unless the identity is queued already: a peer that comes back under its
   identity, also while its old connection is still registered) and may vanish.  Layer A: over any
   stretch with a stable set of n peers, every n consecutive successful sends reach n different
   peers; a joiner is served within the next n successes; with no peer the send is refused.
   Dev: the mechanism of the pinned tree ("dup_on_rejoin": every registration appends the identity;
   "pop_before_send": the identity is taken out before the write and appended after success, so an
   abandoned send loses it) and spec mutants ("push_front", "push_twice", "no_push_back").       *)
EXTENDS Naturals, Sequences, FiniteSets, TLC
CONSTANTS Peers, MaxSends, MaxCancels, Dev
VARIABLES q, live, hits, nsends, jwait, bad, ncancel
vars == <<q, live, hits, nsends, jwait, bad, ncancel>>
Init == q = <<>> /\ live = {} /\ hits = <<>> /\ nsends = 0 /\ jwait = [p \in Peers |-> 0 - 1] /\ bad = {} /\ ncancel = 0
InQ(p) == \E i \in 1..Len(q) : q[i] = p
Enqueue(p) == IF InQ(p) /\ "dup_on_rejoin" \notin Dev THEN q ELSE Append(q, p)
Join(p) == /\ p \notin live                                              \* a new peer, or one that comes back (its old identity may still be queued)
           /\ live' = live \cup {p} /\ q' = Enqueue(p) /\ hits' = <<>> /\ jwait' = [jwait EXCEPT ![p] = 0]
           /\ UNCHANGED <<nsends, bad, ncancel>>
Supersede(p) == /\ p \in live                                            \* a new connection under the identity of a registered peer
                /\ q' = Enqueue(p) /\ hits' = <<>>
                /\ jwait' = [x \in Peers |-> IF x = p THEN 0 ELSE IF jwait[x] >= 0 THEN 0 ELSE jwait[x]]
                /\ UNCHANGED <<live, nsends, bad, ncancel>>
Vanish(p) == /\ p \in live /\ live' = live \ {p} /\ hits' = <<>>
             /\ jwait' = [x \in Peers |-> IF x = p THEN 0 - 1 ELSE IF jwait[x] >= 0 THEN 0 ELSE jwait[x]]   \* windows restart when the set changes
             /\ UNCHANGED <<q, nsends, bad, ncancel>>                     \* its id stays queued until a send finds it dead (or the socket forgets the peer)
RECURSIVE SkipDead(_)
SkipDead(s) == IF s = <<>> \/ Head(s) \in live THEN s ELSE SkipDead(Tail(s))
Distinct(s) == \A i, j \in 1..Len(s) : i # j => s[i] # s[j]
LastN(s, n) == SubSeq(s, Len(s) - n + 1, Len(s))
Send ==
  /\ nsends < MaxSends /\ nsends' = nsends + 1 /\ UNCHANGED ncancel
  /\ LET s == SkipDead(q) IN
     IF s = <<>> THEN
          /\ q' = <<>> /\ UNCHANGED <<live, hits, jwait>>
          /\ bad' = bad \cup (IF live # {} THEN {"C10/send-failed-with-healthy-peers"} ELSE {})
     ELSE LET p == Head(s)
              rest == Tail(s)
              h == Append(hits, p)
              n == Cardinality(live)
              jw == [x \in Peers |-> IF x = p THEN 0 - 1 ELSE IF jwait[x] >= 0 THEN jwait[x] + 1 ELSE jwait[x]] IN
          /\ q' = (IF "push_front" \in Dev THEN <<p>> \o rest
                   ELSE IF "push_twice" \in Dev THEN rest \o <<p, p>>
                   ELSE IF "no_push_back" \in Dev THEN rest
                   ELSE rest \o <<p>>)
          /\ hits' = h /\ jwait' = jw /\ UNCHANGED live
          /\ bad' = bad \cup (IF Len(h) >= 2 /\ ~Distinct(LastN(h, IF Len(h) < n THEN Len(h) ELSE n)) THEN {"C10/rotation-repeat-within-n"} ELSE {})
                        \cup (IF \E x \in live : jw[x] > n THEN {"C10/joiner-never-served"} ELSE {})
Cancel ==       \* a send reaches the write to the peer at the front and is abandoned while it waits on back-pressure
  /\ ncancel < MaxCancels /\ ncancel' = ncancel + 1
  /\ LET s == SkipDead(q) IN
     /\ s # <<>>
     /\ q' = IF "pop_before_send" \in Dev THEN Tail(s) ELSE s
  /\ UNCHANGED <<live, hits, nsends, jwait, bad>>
Next == Send \/ Cancel \/ \E p \in Peers : Join(p) \/ Supersede(p) \/ Vanish(p)
Spec == Init /\ [][Next]_vars
Refines == bad = {}
=============================================================================
