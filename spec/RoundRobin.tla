----------------------------- MODULE RoundRobin -----------------------------
(* Layers A and B for C10 (src/backend.rs send_round_robin, src/req.rs send): a queue of peer ids;
   a send pops the head, skips ids whose peer has vanished, writes the message to that peer and
   pushes the id back (REQ pushes it back before writing).  Peers join at any time (push at the
   tail) and may vanish.  Layer A: over any stretch with a stable set of n peers, every n consecutive
   successful sends reach n different peers; a joiner is served within the next n successes; with
   no peer the send is refused.  Dev: spec mutants ("push_front", "push_twice", "no_push_back"). *)
EXTENDS Naturals, Sequences, FiniteSets, TLC
CONSTANTS Peers, MaxSends, Dev
VARIABLES q, live, hits, nsends, jwait, bad
vars == <<q, live, hits, nsends, jwait, bad>>
Init == q = <<>> /\ live = {} /\ hits = <<>> /\ nsends = 0 /\ jwait = [p \in Peers |-> 0 - 1] /\ bad = {}
Join(p) == /\ p \notin live /\ (\A i \in 1..Len(q) : q[i] # p)          \* a fresh identity
           /\ live' = live \cup {p} /\ q' = Append(q, p) /\ hits' = <<>> /\ jwait' = [jwait EXCEPT ![p] = 0]
           /\ UNCHANGED <<nsends, bad>>
Vanish(p) == /\ p \in live /\ live' = live \ {p} /\ hits' = <<>>
             /\ jwait' = [x \in Peers |-> IF x = p THEN 0 - 1 ELSE IF jwait[x] >= 0 THEN 0 ELSE jwait[x]]   \* windows restart when the set changes
             /\ UNCHANGED <<q, nsends, bad>>                              \* its id stays in the queue (SegQueue cannot delete)
RECURSIVE SkipDead(_)
SkipDead(s) == IF s = <<>> \/ Head(s) \in live THEN s ELSE SkipDead(Tail(s))
Distinct(s) == \A i, j \in 1..Len(s) : i # j => s[i] # s[j]
LastN(s, n) == SubSeq(s, Len(s) - n + 1, Len(s))
Send ==
  /\ nsends < MaxSends /\ nsends' = nsends + 1
  /\ LET s == SkipDead(q) IN
     IF s = <<>> THEN
          /\ q' = <<>> /\ UNCHANGED <<live, hits, jwait>>
          /\ bad' = bad \cup (IF live # {} THEN {"C10/send-failed-with-healthy-peers"} ELSE {})
     ELSE LET p == Head(s)
              rest == Tail(s)
              h == Append(hits, p)
              n == Cardinality(live)
              jw == [x \in Peers |-> IF x = p THEN 0 - 1 ELSE IF jwait[x] >= 0 THEN jwait[x] + 1 ELSE jwait[x]] IN
          /\ q' = (IF "push_front" \in Dev THEN <<p>> \o rest
                   ELSE IF "push_twice" \in Dev THEN rest \o <<p, p>>
                   ELSE IF "no_push_back" \in Dev THEN rest
                   ELSE rest \o <<p>>)
          /\ hits' = h /\ jwait' = jw /\ UNCHANGED live
          /\ bad' = bad \cup (IF Len(h) >= 2 /\ ~Distinct(LastN(h, IF Len(h) < n THEN Len(h) ELSE n)) THEN {"C10/rotation-repeat-within-n"} ELSE {})
                        \cup (IF \E x \in live : jw[x] > n THEN {"C10/joiner-never-served"} ELSE {})
Next == Send \/ \E p \in Peers : Join(p) \/ Vanish(p)
Spec == Init /\ [][Next]_vars
Refines == bad = {}
=============================================================================
