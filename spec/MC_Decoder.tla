---------------------------- MODULE MC_Decoder ----------------------------
(* Stream family for ZmtpDecoder and vector generator for the real decoder (binding V/R of C02). *)
EXTENDS ZmtpDecoder, Json
G == GreetingBytes(3, 0, NULLmech, FALSE)
SocketTypeNameB == <<83, 111, 99, 107, 101, 116, 45, 84, 121, 112, 101>>
F(more, body) == FrameHdr(Len(body), more, FALSE) \o body
FL(more, body) == <<(IF more THEN 3 ELSE 2)>> \o BytesOf(Len(body), 8) \o body      \* long form regardless of size
Ready0 == CmdWire(CmdBody(READYname, <<>>))
Ready1 == CmdWire(CmdBody(READYname, Prop(<<97>>, <<118>>)))
Ready2 == CmdWire(CmdBody(READYname, Prop(SocketTypeNameB, <<82, 69, 81>>) \o Prop(<<73, 100>>, <<>>)))
Tails == <<
  F(FALSE, <<>>), F(FALSE, <<7>>), F(FALSE, <<7, 8>>),
  F(TRUE, <<7>>) \o F(FALSE, <<8>>), F(TRUE, <<>>) \o F(FALSE, <<>>), F(TRUE, <<>>) \o F(TRUE, <<7>>) \o F(FALSE, <<>>),
  FL(FALSE, <<7>>), FL(TRUE, <<>>) \o F(FALSE, <<>>), FL(FALSE, <<>>) \o F(FALSE, <<9>>),
  F(FALSE, <<7>>) \o F(FALSE, <<8>>), F(FALSE, <<>>) \o F(TRUE, <<1>>) \o F(FALSE, <<2, 3>>),
  Ready0 \o F(FALSE, <<7>>), F(FALSE, <<7>>) \o Ready0 \o F(FALSE, <<8>>), Ready1, Ready1 \o F(FALSE, <<>>),
  F(TRUE, <<1>>) \o Ready0 \o F(FALSE, <<2>>),
  Ready2 \o F(TRUE, <<1, 2, 3>>) \o F(FALSE, <<4>>) \o F(FALSE, <<5>>),
  F(FALSE, Zeros(255)), F(FALSE, Zeros(256)) \o F(FALSE, <<1>>), F(TRUE, Zeros(257)) \o FL(FALSE, Zeros(3)) >>
StreamsDef == [i \in 1..Len(Tails) |-> G \o Tails[i]]
\* vector: the stream and, for every prefix length, how many items are complete and the decoder's state
Vec(i) == LET s == StreamsDef[i] IN
  [id |-> i, bytes |-> s,
   items |-> Run([D0 EXCEPT !.buf = s]).out,
   per |-> [p \in 1..Len(s) |-> LET x == Run([D0 EXCEPT !.buf = Sub(s, 1, p)]) IN <<Len(x.out), x.st, IF x.need = MAXNEED THEN 0 - 1 ELSE x.need, Len(x.partial)>>]]
EmitVecs == (pos = 0) => PrintT(<<"VEC", ToJson(Vec(sid))>>)
=============================================================================
