SPECIFICATION Spec
CONSTANTS
 Clients = {1, 2, 3}
 MaxReq = 2
 Dev = {"send_keeps_requester"}
INVARIANTS Refines OwnRepliesInOrder
CHECK_DEADLOCK FALSE
