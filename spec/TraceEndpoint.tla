--------------------------- MODULE TraceEndpoint ---------------------------
(* Layer-A monitor for C19: the harness logs, per string, what str::parse::<Endpoint>() returned,
   what the parsed value looks like, whether parse(format(e)) = e and whether the text form brackets
   the host; Class / Port are recomputed here from the string by the reference (Endpoint.tla).    *)
EXTENDS Endpoint, TraceCommon
VARIABLES l, viol
tvars == <<l, viol>>
E == Rec[l]
Flag(code) == Report(l, code, l) /\ viol' = viol \cup {code}
NoFlag == UNCHANGED viol
TInit == l = 1 /\ viol = {}
Accepting == {"ipc", "tcp-v4", "tcp-v6", "tcp-domain", "tcp-v6-or-domain"}
TEp == l <= NRec /\ E.ev = "ep" /\ l' = l + 1 /\
  LET c == Class(E.s) IN
  IF E.res = "panic" THEN Flag("C19/panic")
  ELSE IF E.res = "ok" /\ ~E.rt THEN Flag("C19/roundtrip-unequal")
  ELSE IF E.res = "ok" /\ E.kind = "tcp-v6" /\ ~E.br THEN Flag("C19/ipv6-not-bracketed")
  ELSE IF c = "any" THEN NoFlag
  ELSE IF c = "reject" THEN (IF E.res = "ok" THEN Flag("C19/accepted-invalid") ELSE NoFlag)
  ELSE IF E.res # "ok" THEN Flag("C19/rejected-valid:" \o c)
  ELSE IF c = "ipc" THEN (IF E.kind # "ipc" THEN Flag("C19/wrong-transport") ELSE NoFlag)
  ELSE IF E.kind = "ipc" THEN Flag("C19/wrong-transport")
  ELSE IF E.port # Port(E.s) THEN Flag("C19/port-wrong")
  ELSE IF c \in {"tcp-v4", "tcp-v6"} /\ E.kind # c THEN Flag("C19/literal-as-domain")
  ELSE IF c = "tcp-domain" /\ E.kind # "tcp-domain" THEN Flag("C19/domain-as-literal")
  ELSE IF c = "tcp-v6-or-domain" /\ E.kind = "tcp-v4" THEN Flag("C19/domain-as-literal")
  ELSE NoFlag
TNext == TEp
TSpec == TInit /\ [][TNext]_tvars
Accepted == Consumed
=============================================================================
