SPECIFICATION Spec
CONSTANTS
 N = 3
 B = 2
 MaxBuf = 12
 Bound = 8
 Dev = {}
INVARIANTS Fair
CHECK_DEADLOCK FALSE
