SPECIFICATION Spec
CONSTANTS
 Keys = {a, b}
 MaxItems = 2
 MaxTicket = 8
 MaxStale = 2
 MaxExh = 1
 MaxReins = 0
 AllowRemove = TRUE
 Dev = {}
INVARIANTS TypeOK NoLostWakeup NoStreamLost ReadyHasSignal FairBoundTight LiveInHeap YieldBound EndReported
CHECK_DEADLOCK FALSE
