----------------------------- MODULE TraceDrop -----------------------------
(* Layer-A monitor for the in-memory half of C17: the application drops or closes the socket in some
   state of its history (idle peers, unread input, a half-received message, a blocked send that was
   abandoned, a handshake that has passed READY but not yet registered its peer, ...).  Once the
   script has ended - every handshake the socket had in flight has run to its end or been dropped -
   both halves of EVERY connection that was ever handed to the socket must have been released
   (the peer then reads end-of-stream), close() must have returned, and nothing panicked.
   "released" is logged by the harness pipes when the library drops the read / write half.       *)
EXTENDS TraceCommon
VARIABLES l, scen, stype, viol, attc, rel, dropped
tvars == <<l, scen, stype, viol, attc, rel, dropped>>
E == Rec[l]
Flag(code) == Report(scen, code, l) /\ viol' = viol \cup {code}
NoFlag == UNCHANGED viol
Step(evname) == l <= NRec /\ E.ev = evname /\ l' = l + 1
TInit == l = 1 /\ scen = 0 /\ stype = "?" /\ viol = {} /\ attc = {} /\ rel = {} /\ dropped = <<>>
TReset == Step("reset") /\ scen' = E.scen /\ stype' = E.sock /\ attc' = {} /\ rel' = {} /\ dropped' = <<>> /\ NoFlag
TAttachCall == Step("attach_call") /\ attc' = attc \cup {E.c} /\ UNCHANGED <<scen, stype, rel, dropped>> /\ NoFlag
TReleased == Step("released") /\ rel' = rel \cup {<<E.c, E.half>>} /\ UNCHANGED <<scen, stype, attc, dropped>> /\ NoFlag
TDropped == Step("sock_dropped") /\ dropped' = <<E.how, E.state>> /\ UNCHANGED <<scen, stype, attc, rel>> /\ NoFlag
TCloseRet == Step("close_ret") /\ UNCHANGED <<scen, stype, attc, rel, dropped>> /\
   IF E.res # "ok" THEN Flag("C17/close-did-not-return") ELSE NoFlag
Tag == stype \o ":" \o dropped[2]
TEnd == Step("end") /\ UNCHANGED <<scen, stype, attc, rel, dropped>> /\
   IF dropped = <<>> THEN NoFlag
   ELSE IF \E c \in attc : <<c, "w">> \notin rel THEN Flag("C17/peer-not-released-after-" \o dropped[1] \o ":w:" \o Tag)
   ELSE IF \E c \in attc : <<c, "r">> \notin rel THEN Flag("C17/peer-not-released-after-" \o dropped[1] \o ":r:" \o Tag)
   ELSE NoFlag
TPanic == Step("panic") /\ UNCHANGED <<scen, stype, attc, rel, dropped>> /\ Flag("C03/panic")
Handled == {"reset", "attach_call", "released", "sock_dropped", "close_ret", "end", "panic"}
TIgnore == l <= NRec /\ E.ev \notin Handled /\ l' = l + 1 /\ UNCHANGED <<scen, stype, attc, rel, dropped>> /\ NoFlag
TNext == TReset \/ TAttachCall \/ TReleased \/ TDropped \/ TCloseRet \/ TEnd \/ TPanic \/ TIgnore
TSpec == TInit /\ [][TNext]_tvars
Accepted == Consumed
=============================================================================
