------------------------------- MODULE PubSub -------------------------------
(* C11, layers A and B.  Layer A (reference): each subscriber has a BAG of topics folded from the
   subscription messages it sent, in order: subscribe adds one copy, unsubscribe cancels one equal
   copy, anything malformed changes nothing; a published message is delivered to a subscriber iff
   some topic with positive count is a byte-prefix of the first frame, exactly once.
   Layer B (src/pub.rs, src/xpub.rs): a Vec of topics: push on subscribe, remove the FIRST equal
   entry on unsubscribe; send walks the Vec, on the first matching filter try_sends one copy and
   breaks.  TLC explores ALL histories up to MaxHist over {sub t, unsub t, garbage} for every topic
   of Topics and checks after every step, for every publishable first frame, that B delivers exactly
   what A demands.  Dev: spec mutants ("strict_prefix", "no_break", "unsub_removes_all",
   "dedup_on_subscribe").                                                                       *)
EXTENDS Naturals, Sequences, FiniteSets, TLC
CONSTANTS Topics, Frames, MaxHist, Dev
VARIABLES bag, vec, n
vars == <<bag, vec, n>>
IsPrefix(p, s) == Len(p) <= Len(s) /\ \A i \in 1..Len(p) : p[i] = s[i]
Init == bag = [t \in Topics |-> 0] /\ vec = <<>> /\ n = 0
RECURSIVE RemoveFirst(_, _)
RemoveFirst(s, t) == IF s = <<>> THEN <<>> ELSE IF Head(s) = t THEN Tail(s) ELSE <<Head(s)>> \o RemoveFirst(Tail(s), t)
RemoveAll(s, t) == SelectSeq(s, LAMBDA x : x # t)
Sub(t) == /\ n < MaxHist /\ n' = n + 1 /\ bag' = [bag EXCEPT ![t] = @ + 1]
          /\ vec' = IF "dedup_on_subscribe" \in Dev /\ \E i \in 1..Len(vec) : IsPrefix(vec[i], t) THEN vec ELSE Append(vec, t)
Unsub(t) == /\ n < MaxHist /\ n' = n + 1 /\ bag' = [bag EXCEPT ![t] = IF @ > 0 THEN @ - 1 ELSE 0]
            /\ vec' = IF "unsub_removes_all" \in Dev THEN RemoveAll(vec, t) ELSE RemoveFirst(vec, t)
Garbage == n < MaxHist /\ n' = n + 1 /\ UNCHANGED <<bag, vec>>
Next == Garbage \/ \E t \in Topics : Sub(t) \/ Unsub(t)
Spec == Init /\ [][Next]_vars
\* layer A: number of copies a subscriber must get of a message with first frame f
Want(f) == IF \E t \in Topics : bag[t] > 0 /\ IsPrefix(t, f) THEN 1 ELSE 0
\* layer B: what the send loop does
MatchB(t, f) == IF "strict_prefix" \in Dev THEN Len(t) < Len(f) /\ IsPrefix(t, f) ELSE IsPrefix(t, f)
Copies(f) == LET M == {i \in 1..Len(vec) : MatchB(vec[i], f)} IN
             IF "no_break" \in Dev THEN Cardinality(M) ELSE IF M = {} THEN 0 ELSE 1
Refines == \A f \in Frames : Copies(f) = Want(f)
\* the Vec is the bag, as a multiset
VecIsBag == \A t \in Topics : Cardinality({i \in 1..Len(vec) : vec[i] = t}) = bag[t]
=============================================================================
