---------------------------- MODULE ZmtpDecoder ----------------------------
(* Layer B: the resumable frame decoder of src/codec/zmq_codec.rs driven by a reader that hands it
   the byte stream in arbitrary chunks (asynchronous-codec FramedRead: append what was read to
   the buffer, call decode until it returns None).  d is the decoder + buffer:
     st    "Greeting" | "FrameHeader" | "FrameLen" | "Frame"      fl   flag byte of the frame in progress
     need  bytes decode() waits for (waiting_for)                  partial  lengths of frames buffered (MORE)
     buf   bytes read but not yet consumed                          out  items produced so far
   Run mirrors ZmqCodec::decode's state machine including its fall-through from header to length
   to body inside one call.  TLC explores EVERY segmentation of every stream of the family (action
   Feed(k) for every k); the invariants say that what has been decoded, and the decoder state, are
   functions of the bytes consumed so far only (C02).  Dev holds named deviations (spec mutants). *)
EXTENDS Zmtp
CONSTANTS Streams, Dev
VARIABLES sid, pos, d
vars == <<sid, pos, d>>

MAXNEED == 2147483647
D0 == [st |-> "Greeting", fl |-> 0, need |-> 64, partial |-> <<>>, buf |-> <<>>, out |-> <<>>, err |-> "none"]
Long(fl) == (fl \div 2) % 2 = 1
More(fl) == fl % 2 = 1
IsCmd(fl) == (fl \div 4) % 2 = 1
Drop(s, n) == Sub(s, n + 1, Len(s))

RECURSIVE Run(_)
Run(x) ==
  IF x.err # "none" THEN x
  ELSE IF Len(x.buf) < x.need THEN
         (IF "reset_need_on_short" \in Dev /\ x.st = "Frame" /\ x.buf # <<>> THEN [x EXCEPT !.need = 1] ELSE x)   \* Ok(None)
  ELSE CASE x.st = "Greeting" ->
              IF x.buf[1] # 255 \/ x.buf[10] # 127 THEN [x EXCEPT !.err = "greeting"]
              ELSE Run([x EXCEPT !.st = "FrameHeader", !.need = 1, !.buf = Drop(x.buf, 64), !.out = Append(x.out, "G")])
         [] x.st = "FrameHeader" ->
              Run([x EXCEPT !.st = "FrameLen", !.fl = x.buf[1], !.need = IF Long(x.buf[1]) THEN 8 ELSE 1, !.buf = Drop(x.buf, 1)])
         [] x.st = "FrameLen" ->
              IF Long(x.fl)
                THEN Run([x EXCEPT !.st = "Frame", !.need = IF Huge(Sub(x.buf, 1, 8)) THEN MAXNEED ELSE BE(Sub(x.buf, 1, 8)), !.buf = Drop(x.buf, 8)])
                ELSE Run([x EXCEPT !.st = "Frame", !.need = x.buf[1], !.buf = Drop(x.buf, 1)])
         [] x.st = "Frame" ->
              LET body == Sub(x.buf, 1, x.need)
                  y == [x EXCEPT !.st = "FrameHeader", !.need = 1, !.buf = Drop(x.buf, x.need)] IN
              IF IsCmd(x.fl) THEN
                   LET c == ParseCmd(body) IN
                   IF c.ok /\ c.name = READYname THEN Run([y EXCEPT !.out = Append(y.out, "C")])
                   ELSE [y EXCEPT !.err = "command"]
              ELSE IF More(x.fl) THEN Run([y EXCEPT !.partial = Append(x.partial, x.need)])
              ELSE Run([y EXCEPT !.partial = <<>>,
                                 !.out = Append(y.out, IF "drop_partial_on_last" \in Dev THEN <<x.need>> ELSE Append(x.partial, x.need))])

Init == sid \in DOMAIN Streams /\ pos = 0 /\ d = D0
\* the transport delivers the next k bytes in one read
Feed(k) == /\ pos + k <= Len(Streams[sid])
           /\ pos' = pos + k
           /\ d' = Run([d EXCEPT !.buf = d.buf \o Sub(Streams[sid], pos + 1, pos + k)])
           /\ UNCHANGED sid
Next == \E k \in 1..(Len(Streams[sid]) - pos) : Feed(k)
Spec == Init /\ [][Next]_vars

Consumed == Sub(Streams[sid], 1, pos)
\* one-shot decoding of the same prefix
OneShot == Run([D0 EXCEPT !.buf = Consumed])
\* C02: items depend on the consumed bytes only ...
ItemsIndependent == d.out = OneShot.out
\* ... and so does the whole decoder state (which makes it hold for every continuation)
StateIndependent == d = OneShot
\* and they are what RFC 23 says (reference decoder of Zmtp.tla on the bytes after the greeting)
MatchesReference == (pos >= 64 /\ d.err = "none") =>
     LET r == Decode(Sub(Streams[sid], 65, pos)) IN d.out = <<"G">> \o r.items /\ Len(d.partial) = r.partial
NoError == d.err = "none"
=============================================================================
