SPECIFICATION Spec
CONSTANTS
 MaxMsgs = 3
 Dev = {"drop_loser_message"}
INVARIANTS Verbatim NothingLost Captured
CHECK_DEADLOCK FALSE
