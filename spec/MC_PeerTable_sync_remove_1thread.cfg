SPECIFICATION Spec
CONSTANTS
 Hs = {h1, h2}
 Threads = 1
 Dev = {"held", "sync_remove"}
INVARIANTS NeverStuck
CHECK_DEADLOCK FALSE
