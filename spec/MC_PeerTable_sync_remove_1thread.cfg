SPECIFICATION Spec
CONSTANTS
 Hs = {h1, h2}
 Threads = 1
 Dev = {"sync_remove"}
INVARIANTS NeverStuck
CHECK_DEADLOCK FALSE
