SPECIFICATION Spec
CONSTANTS
 Conns = {1, 2, 3}
 Ids = {1, 2, 3}
 MaxOps = 4
 Dev = {"label_last_joined"}
INVARIANTS Refines TableConsistent
CHECK_DEADLOCK FALSE
