---------------------------- MODULE MC_Handshake ----------------------------
(* Enumerates the C04 configuration grid (one initial state per cell) and prints each cell with the
   verdict of HandshakeAbs.Admit as a vector for the real handshake; checks the table's symmetry. *)
EXTENDS HandshakeAbs, Json
CONSTANT Mode      \* "full" = whole cross product; "pairwise" = everything nominal + each dimension varied alone and in pairs
VARIABLE cell
Nominal(l) == [loc |-> l, ptype |-> "x", ver |-> <<3, 0>>, mech |-> "NULL", sig |-> "ok", ident |-> "none", first |-> "ready", ncase |-> "canonical"]
Full == [loc : Implemented, ptype : PeerTypes, ver : Versions, mech : Mechs, sig : Sigs, ident : Idents, first : Firsts, ncase : NameCases]
Dist(c) == (IF c.ver # <<3, 0>> THEN 1 ELSE 0) + (IF c.mech # "NULL" THEN 1 ELSE 0) + (IF c.sig # "ok" THEN 1 ELSE 0)
           + (IF c.ident # "none" THEN 1 ELSE 0) + (IF c.first # "ready" THEN 1 ELSE 0) + (IF c.ncase # "canonical" THEN 1 ELSE 0)
Grid == IF Mode = "full" THEN Full ELSE {c \in Full : Dist(c) <= 2}
Init == cell \in Grid
Next == FALSE /\ cell' = cell
Spec == Init /\ [][Next]_cell
Emit == PrintT(<<"VEC", ToJson([cell |-> cell, admit |-> Admit(cell), reason |-> Reason(cell)])>>)
Sym == CompatSymmetric
=============================================================================
