SPECIFICATION Spec
CONSTANTS
 Eps = {1, 2}
 Conns = {1, 2, 3}
 Dev = {"accept_awaits_handshake"}
INVARIANTS BindSetExact FileIffListening ClosedMeansGone AcceptNeverBlocked
CHECK_DEADLOCK FALSE
