SPECIFICATION Spec
CONSTANTS
 Topics <- TopicsDef
 Frames <- FramesDef
 MaxHist = 5
 Dev = {"strict_prefix"}
INVARIANTS Refines 
CHECK_DEADLOCK FALSE
