------------------------------- MODULE ReqRep -------------------------------
(* REQ socket: layer A (lock-step state machine over API results) and layer B (the code's marker
   mechanism, src/req.rs) in one module, so that TLC checks B => A over ALL call sequences.

   Layer A state:   owed   - a request is outstanding: the application owes a recv
                    apeer  - the connection that request went to
   Layer B state:   marker - ReqSocket::current_request (0 = None, else the peer)
                    fut    - a recv future exists and is suspended ("pending") or not ("none")
                    wire[p]- replies peer p has written and REQ has not read
                    rr     - round-robin queue of peers
   Calls are multi-step where the code is: RecvStart (marker handling before the first await),
   RecvDone (a reply is there), RecvDropped (the future is abandoned at its suspension point);
   SendStart (refusal, choice of the peer, the request starts to be written), SendDone (the
   transport has taken it), SendDropped (the future is abandoned while the transport takes it: the
   request is partly written and the rest of it goes out with the next recv).
   Dev: "recv_takes_marker_early" = the marker is cleared in RecvStart (what the code did before the
   fix recorded in known_findings.json); "marker_after_write" = the marker is set when the write
   has completed, not when it starts (the code before fix F34: an abandoned send leaves a request
   on the wire and the socket ready for another); "send_ignores_marker"; "recv_any_peer" (spec
   mutants).                                                                                      *)
EXTENDS Naturals, Sequences, FiniteSets, TLC
CONSTANTS Peers, MaxCalls, Dev
VARIABLES owed, apeer, marker, fut, wire, rr, ncalls, nreq, last, bad,
          sfut,      \* a send future exists and is suspended in the write ("pending") or not ("none")
          written    \* the outstanding request is completely on the wire
vars == <<owed, apeer, marker, fut, wire, rr, ncalls, nreq, last, bad, sfut, written>>

NoPeer == 0
Init == /\ owed = FALSE /\ apeer = NoPeer /\ marker = NoPeer /\ fut = "none"
        /\ wire = [p \in Peers |-> <<>>] /\ rr \in {s \in [1..Cardinality(Peers) -> Peers] : \A i, j \in DOMAIN s : i # j => s[i] # s[j]}
        /\ ncalls = 0 /\ nreq = 0 /\ last = "init" /\ bad = {} /\ sfut = "none" /\ written = FALSE

Budget == ncalls < MaxCalls
\* what layer A demands of the observable result r of a call, given the A state before it
Judge(call, ok, peer, reply) ==
  CASE call = "send" /\ owed /\ ok -> {"C08/out-of-turn-accepted"}
    [] call = "send" /\ ~owed /\ ~ok -> {"C08/in-turn-refused"}
    [] call = "recv" /\ ~owed /\ ok -> {"C08/out-of-turn-accepted"}
    [] call = "recv" /\ owed /\ ok /\ peer # apeer -> {"C08/foreign-reply"}     \* (an early message of the right peer is indistinguishable from its reply)
    [] OTHER -> {}

\* ---- application calls send(m): the synchronous part up to the write ----
SendStart ==
  /\ Budget /\ fut = "none" /\ sfut = "none"
  /\ LET refused == marker # NoPeer /\ "send_ignores_marker" \notin Dev
         p == rr[1] IN
     IF refused
       THEN /\ bad' = bad \cup Judge("send", FALSE, NoPeer, 0)
            /\ UNCHANGED <<owed, apeer, marker, rr, nreq, wire, sfut, written>>
       ELSE /\ bad' = bad \cup Judge("send", TRUE, p, 0)
            /\ marker' = (IF "marker_after_write" \in Dev THEN marker ELSE p) /\ nreq' = nreq + 1
            /\ owed' = TRUE /\ apeer' = p /\ sfut' = "pending" /\ written' = FALSE      \* layer A: the request is outstanding once any of it is on the wire
            /\ UNCHANGED <<wire, rr>>
  /\ ncalls' = ncalls + 1 /\ last' = "send" /\ UNCHANGED fut
SendDone ==
  /\ sfut = "pending" /\ sfut' = "none" /\ written' = TRUE
  /\ marker' = apeer /\ rr' = Tail(rr) \o <<rr[1]>> /\ last' = "send_done"
  /\ UNCHANGED <<owed, apeer, fut, wire, ncalls, nreq, bad>>
SendDropped ==
  /\ sfut = "pending" /\ sfut' = "none" /\ last' = "send_dropped"
  /\ UNCHANGED <<owed, apeer, marker, fut, wire, rr, ncalls, nreq, bad, written>>

\* ---- recv(): first synchronous part ----
RecvStart ==
  /\ Budget /\ fut = "none" /\ sfut = "none"
  /\ ncalls' = ncalls + 1 /\ last' = "recv_start" /\ UNCHANGED sfut
  /\ IF marker = NoPeer
       THEN /\ bad' = bad \cup Judge("recv", FALSE, NoPeer, 0)       \* refused at once
            /\ UNCHANGED <<owed, apeer, marker, fut, wire, rr, nreq, written>>
       ELSE /\ fut' = "pending" /\ written' = TRUE                   \* (what an abandoned send left behind is written out first)
            /\ marker' = IF "recv_takes_marker_early" \in Dev THEN NoPeer ELSE marker
            /\ UNCHANGED <<owed, apeer, wire, rr, nreq, bad>>
\* the peer the suspended future reads from: the marker's peer (or, for the deviation, the A peer it had taken)
Reading == IF "recv_any_peer" \in Dev THEN Peers ELSE {IF marker # NoPeer THEN marker ELSE apeer}
RecvDone ==
  /\ fut = "pending"
  /\ \E p \in Reading : /\ wire[p] # <<>>
        /\ bad' = bad \cup Judge("recv", TRUE, p, Head(wire[p]))
        /\ wire' = [wire EXCEPT ![p] = Tail(@)]
  /\ fut' = "none" /\ marker' = NoPeer /\ owed' = FALSE /\ apeer' = NoPeer
  /\ last' = "recv_done" /\ UNCHANGED <<rr, ncalls, nreq, sfut, written>>
RecvDropped ==
  /\ fut = "pending" /\ fut' = "none" /\ last' = "recv_dropped"
  /\ UNCHANGED <<owed, apeer, marker, wire, rr, ncalls, nreq, bad, sfut, written>>       \* layer A: as if the call had not been made
\* ---- the peer that holds request number n answers it ----
Reply(p) ==
  /\ owed /\ written /\ p = apeer /\ Len(wire[p]) = 0 /\ (\A q \in Peers : \A i \in 1..Len(wire[q]) : wire[q][i] # nreq)
  /\ wire' = [wire EXCEPT ![p] = Append(@, nreq)] /\ last' = "reply"
  /\ UNCHANGED <<owed, apeer, marker, fut, rr, ncalls, nreq, bad, sfut, written>>

\* a peer that does not hold the outstanding request writes something anyway (late or unsolicited reply)
Unsolicited(p) ==
  /\ p # apeer /\ Len(wire[p]) = 0 /\ wire' = [wire EXCEPT ![p] = Append(@, 0)] /\ last' = "unsolicited"
  /\ UNCHANGED <<owed, apeer, marker, fut, rr, ncalls, nreq, bad, sfut, written>>

Next == SendStart \/ SendDone \/ SendDropped \/ RecvStart \/ RecvDone \/ RecvDropped \/ \E p \in Peers : Reply(p) \/ Unsolicited(p)
Spec == Init /\ [][Next]_vars

\* B => A: no call sequence produces a result layer A forbids
Refines == bad = {}
\* marker mirrors the A state whenever no call is in flight
MarkerMirrorsOwed == (fut = "none" /\ sfut = "none") => ((marker # NoPeer) <=> owed)
Reach_SendDroppedThenRecv == ~(last = "recv_done" /\ ncalls >= 2 /\ nreq = 1 /\ rr[1] = CHOOSE p \in Peers : \A q \in Peers : p <= q)
Reach_DroppedThenSend == ~(last = "send" /\ owed /\ ncalls >= 3)
=============================================================================
