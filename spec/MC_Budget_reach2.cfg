SPECIFICATION Spec
CONSTANTS
 N = 3
 B = 1
 MaxBuf = 6
 Bound = 12
 Dev = {}
INVARIANTS Reach_Yield
CHECK_DEADLOCK FALSE
