SPECIFICATION Spec
CONSTANTS
 Hs = {h1, h2}
 Threads = 1
 Pinned = TRUE
 Dev = {"all_sync"}
INVARIANTS NeverStuck NoSuspendedOwner
PROPERTY Terminates
CHECK_DEADLOCK FALSE
