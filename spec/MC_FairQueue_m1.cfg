SPECIFICATION Spec
CONSTANTS
 Keys = {a, b}
 MaxItems = 2
 MaxTicket = 8
 MaxStale = 0
 MaxExh = 0
 MaxReins = 0
 AllowRemove = FALSE
 Dev = {"insert_no_wake"}
INVARIANTS NoLostWakeup
CHECK_DEADLOCK FALSE
