SPECIFICATION Spec
CONSTANTS
 Keys = {a, b}
 MaxItems = 2
 MaxTicket = 8
 MaxStale = 0
 MaxExh = 0
 MaxReins = 0
 AllowRemove = FALSE
 Dev = {}
INVARIANTS Reach_WindowInsert
CHECK_DEADLOCK FALSE
