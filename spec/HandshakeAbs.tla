---------------------------- MODULE HandshakeAbs ----------------------------
(* Layer A for C04: which connections become peers.  Pure predicates over what the remote side
   presented; nothing about how the code checks it.                                            *)
EXTENDS Naturals, Sequences, FiniteSets, TLC

Types == {"PAIR", "PUB", "SUB", "REQ", "REP", "DEALER", "ROUTER", "PULL", "PUSH", "XPUB", "XSUB", "STREAM"}
Implemented == {"PUB", "SUB", "REQ", "REP", "DEALER", "ROUTER", "PULL", "PUSH", "XPUB"}
\* RFC 23/28/29/30 socket compatibility: unordered pairs
CompatPairs == {{"PAIR"}, {"PUB", "SUB"}, {"PUB", "XSUB"}, {"XPUB", "SUB"}, {"XPUB", "XSUB"},
                {"REQ", "REP"}, {"REQ", "ROUTER"}, {"REP", "DEALER"}, {"DEALER"}, {"DEALER", "ROUTER"}, {"ROUTER"},
                {"PUSH", "PULL"}}
Compatible(a, b) == {a, b} \in CompatPairs
\* total and symmetric by construction; checked anyway (MC_Handshake)
CompatSymmetric == \A a, b \in Types : Compatible(a, b) = Compatible(b, a)

Versions == {<<1, 0>>, <<2, 1>>, <<3, 0>>, <<3, 1>>, <<4, 0>>}
VersionOK(v) == v[1] > 3 \/ (v[1] = 3 /\ v[2] >= 0)
\* the 20-octet mechanism field: a name, NUL-padded.  Besides the three names of RFC 23/24/25/26 and an unknown one: names that
\* only START with a known name or are a proper prefix of one, the empty name, a wrong-case name, and names of 19 and of all 20
\* octets (no padding at all)
Mechs == {"NULL", "PLAIN", "CURVE", "FOO", "NULLX", "PLAINTEXT", "CURVEZMQ", "NUL", "", "null", "ABCDEFGHIJKLMNOPQRS", "X-CUSTOM-MECH.V1+ABC"}
MechOK(m) == m \in {"NULL", "PLAIN", "CURVE"}
Sigs == {"ok", "bad0", "bad9"}
Idents == {"none", "empty", "one", "max255", "over256"}
IdentOK(i) == i # "over256"
Firsts == {"ready", "othercmd", "message"}
\* the case of READY property names is not significant (RFC 23: "The case (upper or lower) of names SHALL NOT be significant")
NameCases == {"canonical", "lower", "upper"}
PeerTypes == Types \cup {"FOO", "missing"}

\* cell: [loc, ptype, ver, mech, sig, ident, first]
Admit(c) == /\ c.sig = "ok" /\ VersionOK(c.ver) /\ MechOK(c.mech)
            /\ c.first = "ready"
            /\ c.ptype \in Types /\ Compatible(c.loc, c.ptype)
            /\ IdentOK(c.ident)
\* why not (first failing clause, for the violation code)
Reason(c) == IF c.sig # "ok" THEN "signature"
             ELSE IF ~VersionOK(c.ver) THEN "version"
             ELSE IF ~MechOK(c.mech) THEN "mechanism"
             ELSE IF c.first # "ready" THEN "first-item-not-ready"
             ELSE IF c.ptype = "missing" THEN "socket-type-missing"
             ELSE IF c.ptype \notin Types THEN "socket-type-unknown"
             ELSE IF ~Compatible(c.loc, c.ptype) THEN "incompatible"
             ELSE IF ~IdentOK(c.ident) THEN "identity-too-long"
             ELSE "none"
=============================================================================
