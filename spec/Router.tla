------------------------------- MODULE Router -------------------------------
(* Layers A and B for C09 (src/router.rs, src/backend.rs): an identity-keyed peer table.  recv labels
   a message with the key of the stream it came from; send pops the first frame and looks the peer
   up by it.  Layer A: the label is the identity of the connection the message really arrived on; a
   send lands on exactly the connection registered under its first frame, or fails without writing
   when there is none.  Dev: spec mutants ("label_last_joined", "route_any").                     *)
EXTENDS Naturals, Sequences, FiniteSets, TLC
CONSTANTS Conns, Ids, MaxOps, Dev
VARIABLES table, idof, inbox, nops, lastjoin, bad
vars == <<table, idof, inbox, nops, lastjoin, bad>>
None == 0
Init == table = [i \in Ids |-> None] /\ idof = [c \in Conns |-> None] /\ inbox = [c \in Conns |-> 0] /\ nops = 0 /\ lastjoin = None /\ bad = {}
Join(c, i) == /\ idof[c] = None /\ table[i] = None /\ table' = [table EXCEPT ![i] = c] /\ idof' = [idof EXCEPT ![c] = i]
              /\ lastjoin' = c /\ UNCHANGED <<inbox, nops, bad>>
Leave(c) == /\ idof[c] # None /\ table' = [table EXCEPT ![idof[c]] = None] /\ idof' = [idof EXCEPT ![c] = None] /\ inbox' = [inbox EXCEPT ![c] = 0]
            /\ UNCHANGED <<nops, lastjoin, bad>>
PeerSays(c) == idof[c] # None /\ inbox[c] = 0 /\ inbox' = [inbox EXCEPT ![c] = 1] /\ UNCHANGED <<table, idof, nops, lastjoin, bad>>
Recv == /\ nops < MaxOps /\ \E c \in Conns : inbox[c] = 1 /\ inbox' = [inbox EXCEPT ![c] = 0]
           /\ LET label == IF "label_last_joined" \in Dev /\ lastjoin # None /\ idof[lastjoin] # None THEN idof[lastjoin] ELSE idof[c] IN
              bad' = bad \cup (IF label # idof[c] THEN {"C09/recv-label-not-sender"} ELSE {})
        /\ nops' = nops + 1 /\ UNCHANGED <<table, idof, lastjoin>>
Send(i) == /\ nops < MaxOps /\ nops' = nops + 1
           /\ LET target == IF "route_any" \in Dev /\ table[i] = None /\ \E j \in Ids : table[j] # None
                            THEN table[CHOOSE j \in Ids : table[j] # None] ELSE table[i] IN
              bad' = bad \cup (IF target # None /\ table[i] = None THEN {"C09/send-unknown-succeeded"} ELSE {})
                         \cup (IF target # None /\ table[i] # None /\ target # table[i] THEN {"C09/send-misrouted"} ELSE {})
           /\ UNCHANGED <<table, idof, inbox, lastjoin>>
Next == Recv \/ (\E c \in Conns : Leave(c) \/ PeerSays(c) \/ \E i \in Ids : Join(c, i)) \/ \E i \in Ids : Send(i)
Spec == Init /\ [][Next]_vars
Refines == bad = {}
TableConsistent == \A c \in Conns : idof[c] # None => table[idof[c]] = c
=============================================================================
