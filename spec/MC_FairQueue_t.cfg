SPECIFICATION Spec
CONSTANTS
 Keys = {a, b, c}
 MaxItems = 2
 MaxTicket = 12
 MaxStale = 0
 MaxExh = 0
 MaxReins = 0
 AllowRemove = FALSE
 Dev = {}
INVARIANTS TypeOK NoLostWakeup NoStreamLost ReadyHasSignal FairBoundTight LiveInHeap YieldBound EndReported
CHECK_DEADLOCK FALSE
