SPECIFICATION Spec
CONSTANTS
 Peers = {1, 2, 3, 4}
 MaxSends = 8
 Dev = {}
INVARIANT Refines
CHECK_DEADLOCK FALSE
