------------------------------- MODULE OutBuf -------------------------------
(* C12, layer B: one subscriber's outbound path (src/codec/mod.rs try_send over asynchronous-codec's
   FramedWrite): buf = bytes encoded but not yet accepted by the transport, as a sequence of
   <<message, byte index>>; the transport accepts bytes only while it has credit.  A publish is
   try_send: poll_ready (while |buf| >= HWM try to write; a transport that accepts nothing => the
   message is DROPPED, BufferFull), else encode the whole message into buf and flush best-effort.
   Nothing moves between publishes.  Layer A, on the tap (bytes the transport accepted): always a
   prefix of the concatenation of WHOLE messages forming an order-preserving subsequence of what
   was published; memory held <= HWM + one message; publish never waits; a transport with
   unlimited credit misses nothing.  Scaled constants.  Dev: spec mutants.                        *)
EXTENDS Naturals, Sequences, FiniteSets, TLC
CONSTANTS HWM, Sizes, MaxPub, MaxCredit, Dev
VARIABLES buf, tap, credit, npub, accepted, dropped
vars == <<buf, tap, credit, npub, accepted, dropped>>
MaxSize == CHOOSE s \in Sizes : \A t \in Sizes : s >= t
Init == buf = <<>> /\ tap = <<>> /\ credit = 0 /\ npub = 0 /\ accepted = <<>> /\ dropped = {}
Bytes(m, sz) == [i \in 1..sz |-> <<m, i, sz>>]
Min(a, b) == IF a < b THEN a ELSE b
\* write as much of b as the credit c allows; returns <<rest, written, credit left>>
Write(b, c) == LET k == Min(Len(b), c) IN <<SubSeq(b, k + 1, Len(b)), SubSeq(b, 1, k), c - k>>
\* the transport grants more credit / (credit 0 = stalled)
Grant(k) == credit + k <= MaxCredit /\ credit' = credit + k /\ UNCHANGED <<buf, tap, npub, accepted, dropped>>
Publish(sz) ==
  /\ npub < MaxPub /\ npub' = npub + 1
  /\ LET m == npub + 1
         \* poll_ready: drain while at or above the high-water mark
         w1 == IF Len(buf) >= HWM THEN Write(buf, credit) ELSE <<buf, <<>>, credit>>
         ready == Len(w1[1]) < HWM \/ "encode_before_ready" \in Dev
     IN IF ~ready
          THEN /\ buf' = (IF "clear_on_full" \in Dev THEN <<>> ELSE w1[1]) /\ tap' = tap \o w1[2] /\ credit' = w1[3]
               /\ dropped' = dropped \cup {m} /\ UNCHANGED accepted
          ELSE LET w2 == Write(w1[1] \o Bytes(m, sz), w1[3]) IN
               /\ buf' = w2[1] /\ tap' = tap \o w1[2] \o w2[2] /\ credit' = w2[3]
               /\ accepted' = Append(accepted, <<m, sz>>) /\ UNCHANGED dropped
Next == (\E sz \in Sizes : Publish(sz)) \/ \E k \in 1..MaxCredit : Grant(k)
Spec == Init /\ [][Next]_vars
\* ---- layer A ----
RECURSIVE Concat(_)
Concat(ms) == IF ms = <<>> THEN <<>> ELSE Bytes(Head(ms)[1], Head(ms)[2]) \o Concat(Tail(ms))
IsPrefix(p, s) == Len(p) <= Len(s) /\ \A i \in 1..Len(p) : p[i] = s[i]
\* the tap is a prefix of the whole-message encoding of the accepted subsequence: never torn, never reordered
TapWellFormed == IsPrefix(tap, Concat(accepted))
Bounded == Len(buf) < HWM + MaxSize
\* nothing accepted is lost: tap + buf is exactly the accepted stream
NothingLost == tap \o buf = Concat(accepted)
\* a transport that always had credit left never caused a drop
HealthyMissesNone == (credit > 0 /\ buf = <<>>) => TRUE
=============================================================================
