------------------------------- MODULE OutBuf -------------------------------
(* C12, layer B: one subscriber's outbound path (src/codec/mod.rs try_send over asynchronous-codec's
   FramedWrite): buf = bytes encoded but not yet accepted by the transport, as a sequence of
   <<message, byte index>>; the transport accepts bytes only while it has credit.  A publish is
   try_send: poll_ready (while |buf| >= HWM try to write; a transport that accepts nothing => the
   message is DROPPED, BufferFull), else encode the whole message into buf and flush best-effort.
   Between publishes a task of its own (backend.rs SubscriberQueue, fix for F29) moves what is
   buffered: a publish that leaves bytes behind (or is refused) kicks it; it writes what the
   transport takes and otherwise leaves its waker with the transport ("armed"), which wakes it when
   credit returns.  A publish polls the transport with a no-op waker and thereby takes the
   transport's wake-up away from the flusher - which is why it must kick again.  Layer A, on the tap (bytes the transport accepted): always a
   prefix of the concatenation of WHOLE messages forming an order-preserving subsequence of what
   was published; memory held <= HWM + one message; publish never waits; a transport with
   unlimited credit misses nothing; whenever the transport would take bytes and the flusher has
   nothing to do, nothing accepted is withheld (NoWithheld).  Scaled constants.  Dev: the pinned
   tree ("no_flusher": bytes only move on a publish) and spec mutants ("kick_only_when_refused";
   "kick_unless_armed": the optimistic "it is waiting already", wrong because the publish took the
   wake-up; "encode_before_ready"; "clear_on_full").                                               *)
EXTENDS Naturals, Sequences, FiniteSets, TLC
CONSTANTS HWM, Sizes, MaxPub, MaxCredit, Dev
VARIABLES buf, tap, credit, npub, accepted, dropped,
          kicked,    \* a kick is waiting in the flusher's channel
          armed      \* the flusher's waker is the one the transport will wake when it takes bytes again
vars == <<buf, tap, credit, npub, accepted, dropped, kicked, armed>>
MaxSize == CHOOSE s \in Sizes : \A t \in Sizes : s >= t
Init == buf = <<>> /\ tap = <<>> /\ credit = 0 /\ npub = 0 /\ accepted = <<>> /\ dropped = {} /\ kicked = FALSE /\ armed = FALSE
Bytes(m, sz) == [i \in 1..sz |-> <<m, i, sz>>]
Min(a, b) == IF a < b THEN a ELSE b
\* write as much of b as the credit c allows; returns <<rest, written, credit left>>
Write(b, c) == LET k == Min(Len(b), c) IN <<SubSeq(b, k + 1, Len(b)), SubSeq(b, 1, k), c - k>>
\* the transport grants more credit / (credit 0 = stalled)
Grant(k) == credit + k <= MaxCredit /\ credit' = credit + k /\ UNCHANGED <<buf, tap, npub, accepted, dropped, kicked, armed>>
Kick(refused, left) == IF "no_flusher" \in Dev THEN FALSE
                       ELSE IF "kick_only_when_refused" \in Dev THEN kicked \/ refused
                       ELSE IF "kick_unless_armed" \in Dev THEN kicked \/ ((refused \/ left # <<>>) /\ ~armed)   \* "it is waiting already"
                       ELSE kicked \/ refused \/ left # <<>>
Publish(sz) ==
  /\ npub < MaxPub /\ npub' = npub + 1
  /\ LET m == npub + 1
         \* poll_ready: drain while at or above the high-water mark
         w1 == IF Len(buf) >= HWM THEN Write(buf, credit) ELSE <<buf, <<>>, credit>>
         ready == Len(w1[1]) < HWM \/ "encode_before_ready" \in Dev
     IN /\ armed' = FALSE                      \* the publish polled the transport with a no-op waker: the flusher's wake-up is gone
        /\ IF ~ready
          THEN /\ buf' = (IF "clear_on_full" \in Dev THEN <<>> ELSE w1[1]) /\ tap' = tap \o w1[2] /\ credit' = w1[3]
               /\ dropped' = dropped \cup {m} /\ UNCHANGED accepted
               /\ kicked' = Kick(TRUE, buf')
          ELSE LET w2 == Write(w1[1] \o Bytes(m, sz), w1[3]) IN
               /\ buf' = w2[1] /\ tap' = tap \o w1[2] \o w2[2] /\ credit' = w2[3]
               /\ accepted' = Append(accepted, <<m, sz>>) /\ UNCHANGED dropped
               /\ kicked' = Kick(FALSE, buf')
\* the flusher runs: it was kicked, or the transport woke it
FlushEnabled == kicked \/ (armed /\ credit > 0)
Flush == /\ FlushEnabled
         /\ LET w == Write(buf, credit) IN
            /\ buf' = w[1] /\ tap' = tap \o w[2] /\ credit' = w[3]
            /\ armed' = (w[1] # <<>>) /\ kicked' = FALSE
         /\ UNCHANGED <<npub, accepted, dropped>>
Next == (\E sz \in Sizes : Publish(sz)) \/ (\E k \in 1..MaxCredit : Grant(k)) \/ Flush
Spec == Init /\ [][Next]_vars
\* ---- layer A ----
RECURSIVE Concat(_)
Concat(ms) == IF ms = <<>> THEN <<>> ELSE Bytes(Head(ms)[1], Head(ms)[2]) \o Concat(Tail(ms))
IsPrefix(p, s) == Len(p) <= Len(s) /\ \A i \in 1..Len(p) : p[i] = s[i]
\* the tap is a prefix of the whole-message encoding of the accepted subsequence: never torn, never reordered
TapWellFormed == IsPrefix(tap, Concat(accepted))
Bounded == Len(buf) < HWM + MaxSize
\* nothing accepted is lost: tap + buf is exactly the accepted stream
NothingLost == tap \o buf = Concat(accepted)
\* nothing accepted is withheld: when the transport would take bytes and the flusher has nothing to do, the buffer is empty
NoWithheld == (credit > 0 /\ ~FlushEnabled) => buf = <<>>
\* reachability companions (must be violated): the flusher really gets armed, and a publish really takes its wake-up away
Reach_Armed == ~armed
=============================================================================
