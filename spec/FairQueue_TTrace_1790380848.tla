---- MODULE FairQueue_TTrace_1790380848 ----
EXTENDS Sequences, TLCExt, FairQueue, Toolbox, Naturals, TLC, FairQueue_TEConstants

_expression ==
    LET FairQueue_TEExpression == INSTANCE FairQueue_TEExpression
    IN FairQueue_TEExpression!expression
----

_trace ==
    LET FairQueue_TETrace == INSTANCE FairQueue_TETrace
    IN FairQueue_TETrace!trace
----

_inv ==
    ~(
        TLCGet("level") = Len(_TETrace)
        /\
        cur = (<<>>)
        /\
        avail = ((a :> 1 @@ b :> 0))
        /\
        wait = ((a :> 0 @@ b :> 0))
        /\
        joined = ({a})
        /\
        notified = (FALSE)
        /\
        streams = ({a})
        /\
        delivered = ((a :> 0 @@ b :> 0))
        /\
        counter = (1)
        /\
        pc = ("parked")
        /\
        stale = (0)
        /\
        removed = ({})
        /\
        reg = ((a :> 0 @@ b :> 0))
        /\
        left = ((a :> 1 @@ b :> 2))
        /\
        wslot = (TRUE)
        /\
        fire = ((a :> FALSE @@ b :> FALSE))
        /\
        closed = ((a :> FALSE @@ b :> FALSE))
        /\
        heap = ({<<0, a, 0>>})
        /\
        wcur = (FALSE)
    )
----

_init ==
    /\ heap = _TETrace[1].heap
    /\ cur = _TETrace[1].cur
    /\ delivered = _TETrace[1].delivered
    /\ counter = _TETrace[1].counter
    /\ pc = _TETrace[1].pc
    /\ wcur = _TETrace[1].wcur
    /\ wait = _TETrace[1].wait
    /\ reg = _TETrace[1].reg
    /\ streams = _TETrace[1].streams
    /\ left = _TETrace[1].left
    /\ joined = _TETrace[1].joined
    /\ stale = _TETrace[1].stale
    /\ removed = _TETrace[1].removed
    /\ fire = _TETrace[1].fire
    /\ closed = _TETrace[1].closed
    /\ notified = _TETrace[1].notified
    /\ wslot = _TETrace[1].wslot
    /\ avail = _TETrace[1].avail
----

_next ==
    /\ \E i,j \in DOMAIN _TETrace:
        /\ \/ /\ j = i + 1
              /\ i = TLCGet("level")
        /\ heap  = _TETrace[i].heap
        /\ heap' = _TETrace[j].heap
        /\ cur  = _TETrace[i].cur
        /\ cur' = _TETrace[j].cur
        /\ delivered  = _TETrace[i].delivered
        /\ delivered' = _TETrace[j].delivered
        /\ counter  = _TETrace[i].counter
        /\ counter' = _TETrace[j].counter
        /\ pc  = _TETrace[i].pc
        /\ pc' = _TETrace[j].pc
        /\ wcur  = _TETrace[i].wcur
        /\ wcur' = _TETrace[j].wcur
        /\ wait  = _TETrace[i].wait
        /\ wait' = _TETrace[j].wait
        /\ reg  = _TETrace[i].reg
        /\ reg' = _TETrace[j].reg
        /\ streams  = _TETrace[i].streams
        /\ streams' = _TETrace[j].streams
        /\ left  = _TETrace[i].left
        /\ left' = _TETrace[j].left
        /\ joined  = _TETrace[i].joined
        /\ joined' = _TETrace[j].joined
        /\ stale  = _TETrace[i].stale
        /\ stale' = _TETrace[j].stale
        /\ removed  = _TETrace[i].removed
        /\ removed' = _TETrace[j].removed
        /\ fire  = _TETrace[i].fire
        /\ fire' = _TETrace[j].fire
        /\ closed  = _TETrace[i].closed
        /\ closed' = _TETrace[j].closed
        /\ notified  = _TETrace[i].notified
        /\ notified' = _TETrace[j].notified
        /\ wslot  = _TETrace[i].wslot
        /\ wslot' = _TETrace[j].wslot
        /\ avail  = _TETrace[i].avail
        /\ avail' = _TETrace[j].avail

\* Uncomment the ASSUME below to write the states of the error trace
\* to the given file in Json format. Note that you can pass any tuple
\* to `JsonSerialize`. For example, a sub-sequence of _TETrace.
    \* ASSUME
    \*     LET J == INSTANCE Json
    \*         IN J!JsonSerialize("FairQueue_TTrace_1790380848.json", _TETrace)

=============================================================================

 Note that you can extract this module `FairQueue_TEExpression`
  to a dedicated file to reuse `expression` (the module in the 
  dedicated `FairQueue_TEExpression.tla` file takes precedence 
  over the module `FairQueue_TEExpression` below).

---- MODULE FairQueue_TEExpression ----
EXTENDS Sequences, TLCExt, FairQueue, Toolbox, Naturals, TLC, FairQueue_TEConstants

expression == 
    [
        \* To hide variables of the `FairQueue` spec from the error trace,
        \* remove the variables below.  The trace will be written in the order
        \* of the fields of this record.
        heap |-> heap
        ,cur |-> cur
        ,delivered |-> delivered
        ,counter |-> counter
        ,pc |-> pc
        ,wcur |-> wcur
        ,wait |-> wait
        ,reg |-> reg
        ,streams |-> streams
        ,left |-> left
        ,joined |-> joined
        ,stale |-> stale
        ,removed |-> removed
        ,fire |-> fire
        ,closed |-> closed
        ,notified |-> notified
        ,wslot |-> wslot
        ,avail |-> avail
        
        \* Put additional constant-, state-, and action-level expressions here:
        \* ,_stateNumber |-> _TEPosition
        \* ,_heapUnchanged |-> heap = heap'
        
        \* Format the `heap` variable as Json value.
        \* ,_heapJson |->
        \*     LET J == INSTANCE Json
        \*     IN J!ToJson(heap)
        
        \* Lastly, you may build expressions over arbitrary sets of states by
        \* leveraging the _TETrace operator.  For example, this is how to
        \* count the number of times a spec variable changed up to the current
        \* state in the trace.
        \* ,_heapModCount |->
        \*     LET F[s \in DOMAIN _TETrace] ==
        \*         IF s = 1 THEN 0
        \*         ELSE IF _TETrace[s].heap # _TETrace[s-1].heap
        \*             THEN 1 + F[s-1] ELSE F[s-1]
        \*     IN F[_TEPosition - 1]
    ]

=============================================================================



Parsing and semantic processing can take forever if the trace below is long.
 In this case, it is advised to uncomment the module below to deserialize the
 trace from a generated binary file.

\*
\*---- MODULE FairQueue_TETrace ----
\*EXTENDS IOUtils, FairQueue, TLC, FairQueue_TEConstants
\*
\*trace == IODeserialize("FairQueue_TTrace_1790380848.bin", TRUE)
\*
\*=============================================================================
\*

---- MODULE FairQueue_TETrace ----
EXTENDS FairQueue, TLC, FairQueue_TEConstants

trace == 
    <<
    ([cur |-> <<>>,avail |-> (a :> 0 @@ b :> 0),wait |-> (a :> 0 @@ b :> 0),joined |-> {},notified |-> FALSE,streams |-> {},delivered |-> (a :> 0 @@ b :> 0),counter |-> 0,pc |-> "idle",stale |-> 0,removed |-> {},reg |-> (a :> 0 @@ b :> 0),left |-> (a :> 2 @@ b :> 2),wslot |-> FALSE,fire |-> (a :> FALSE @@ b :> FALSE),closed |-> (a :> FALSE @@ b :> FALSE),heap |-> {},wcur |-> FALSE]),
    ([cur |-> <<>>,avail |-> (a :> 0 @@ b :> 0),wait |-> (a :> 0 @@ b :> 0),joined |-> {},notified |-> FALSE,streams |-> {},delivered |-> (a :> 0 @@ b :> 0),counter |-> 0,pc |-> "l1",stale |-> 0,removed |-> {},reg |-> (a :> 0 @@ b :> 0),left |-> (a :> 2 @@ b :> 2),wslot |-> FALSE,fire |-> (a :> FALSE @@ b :> FALSE),closed |-> (a :> FALSE @@ b :> FALSE),heap |-> {},wcur |-> FALSE]),
    ([cur |-> <<>>,avail |-> (a :> 0 @@ b :> 0),wait |-> (a :> 0 @@ b :> 0),joined |-> {},notified |-> FALSE,streams |-> {},delivered |-> (a :> 0 @@ b :> 0),counter |-> 0,pc |-> "parked",stale |-> 0,removed |-> {},reg |-> (a :> 0 @@ b :> 0),left |-> (a :> 2 @@ b :> 2),wslot |-> TRUE,fire |-> (a :> FALSE @@ b :> FALSE),closed |-> (a :> FALSE @@ b :> FALSE),heap |-> {},wcur |-> TRUE]),
    ([cur |-> <<>>,avail |-> (a :> 0 @@ b :> 0),wait |-> (a :> 0 @@ b :> 0),joined |-> {},notified |-> FALSE,streams |-> {},delivered |-> (a :> 0 @@ b :> 0),counter |-> 0,pc |-> "idle",stale |-> 0,removed |-> {},reg |-> (a :> 0 @@ b :> 0),left |-> (a :> 2 @@ b :> 2),wslot |-> TRUE,fire |-> (a :> FALSE @@ b :> FALSE),closed |-> (a :> FALSE @@ b :> FALSE),heap |-> {},wcur |-> FALSE]),
    ([cur |-> <<>>,avail |-> (a :> 0 @@ b :> 0),wait |-> (a :> 0 @@ b :> 0),joined |-> {},notified |-> FALSE,streams |-> {},delivered |-> (a :> 0 @@ b :> 0),counter |-> 0,pc |-> "l1",stale |-> 0,removed |-> {},reg |-> (a :> 0 @@ b :> 0),left |-> (a :> 2 @@ b :> 2),wslot |-> TRUE,fire |-> (a :> FALSE @@ b :> FALSE),closed |-> (a :> FALSE @@ b :> FALSE),heap |-> {},wcur |-> FALSE]),
    ([cur |-> <<>>,avail |-> (a :> 0 @@ b :> 0),wait |-> (a :> 0 @@ b :> 0),joined |-> {},notified |-> FALSE,streams |-> {},delivered |-> (a :> 0 @@ b :> 0),counter |-> 0,pc |-> "parked",stale |-> 0,removed |-> {},reg |-> (a :> 0 @@ b :> 0),left |-> (a :> 2 @@ b :> 2),wslot |-> TRUE,fire |-> (a :> FALSE @@ b :> FALSE),closed |-> (a :> FALSE @@ b :> FALSE),heap |-> {},wcur |-> FALSE]),
    ([cur |-> <<>>,avail |-> (a :> 0 @@ b :> 0),wait |-> (a :> 0 @@ b :> 0),joined |-> {a},notified |-> FALSE,streams |-> {a},delivered |-> (a :> 0 @@ b :> 0),counter |-> 1,pc |-> "parked",stale |-> 0,removed |-> {},reg |-> (a :> 0 @@ b :> 0),left |-> (a :> 2 @@ b :> 2),wslot |-> TRUE,fire |-> (a :> FALSE @@ b :> FALSE),closed |-> (a :> FALSE @@ b :> FALSE),heap |-> {<<0, a, 0>>},wcur |-> FALSE]),
    ([cur |-> <<>>,avail |-> (a :> 1 @@ b :> 0),wait |-> (a :> 0 @@ b :> 0),joined |-> {a},notified |-> FALSE,streams |-> {a},delivered |-> (a :> 0 @@ b :> 0),counter |-> 1,pc |-> "parked",stale |-> 0,removed |-> {},reg |-> (a :> 0 @@ b :> 0),left |-> (a :> 1 @@ b :> 2),wslot |-> TRUE,fire |-> (a :> FALSE @@ b :> FALSE),closed |-> (a :> FALSE @@ b :> FALSE),heap |-> {<<0, a, 0>>},wcur |-> FALSE])
    >>
----


=============================================================================

---- MODULE FairQueue_TEConstants ----
EXTENDS FairQueue

CONSTANTS a, b

=============================================================================

---- CONFIG FairQueue_TTrace_1790380848 ----
CONSTANTS
    Keys = { a , b }
    MaxItems = 2
    MaxTicket = 8
    MaxStale = 0
    AllowRemove = FALSE
    Dev = { "waker_kept_if_some" }
    b = b
    a = a

INVARIANT
    _inv

CHECK_DEADLOCK
    \* CHECK_DEADLOCK off because of PROPERTY or INVARIANT above.
    FALSE

INIT
    _init

NEXT
    _next

CONSTANT
    _TETrace <- _trace

ALIAS
    _expression
=============================================================================
\* Generated on Sat Sep 26 00:00:49 UTC 2026