----------------------------- MODULE PeerTable -----------------------------
(* Layer B: the peer table (scc::HashMap) as the socket calls and the handshake tasks use it, at the
   granularity of one bucket lock, on a runtime with a given number of worker threads.

   A handshake task registers a new peer with upsert_async: if the bucket is locked it queues and is
   suspended; the lock is handed to the head of the queue when the holder releases it.  A socket call
   (PUSH/DEALER send_round_robin, REQ/REP/ROUTER send, SUB subscribe, REQ recv) looks its peer up and
   then waits for the transport; when the transport fails it forgets the peer.
     Dev = {}                        the repaired code (fix 57cfaf1): the call copies a shared entry out of
                                     the table (the bucket is locked for an instant) and waits holding only
                                     that entry's own lock; forgetting is a blocking remove_if_sync
     Dev = {"held"}                  the entry - and with it the bucket - is HELD across the await, the
                                     removal is awaited (the code after the intermediate fix 5ae760c)
     Dev = {"held", "sync_remove"}   held across the await, removal with remove_sync (the pinned tree in
                                     send_round_robin)
     Dev = {"all_sync"}              the code since fix 47c1df1 (F40): nothing waits for a bucket asynchronously -
                                     handshakes and calls take it with a blocking, brief lock, nobody holds it
                                     across an await - so the lock is never handed to a suspended task
   Pinned = TRUE is what tokio's scheduler really does with the hand-over: the task that is handed the
   lock is woken by the releasing task and queued in THAT worker's own slot, from which no other
   worker takes it; it runs when the releasing task gives the worker back.  If that task goes on to a
   blocking wait for the same bucket instead, nobody ever runs the owner (F40: found by hunter agents
   on the real runtime after this model, with Pinned = FALSE, had called two threads safe).
   With one worker thread a blocking wait can never be granted when a queued handshake was handed the
   lock: that task needs the thread the waiter occupies.  TLC finds that state for {"held",
   "sync_remove"} and shows it unreachable in the other two; with two threads it is merely a blocked
   worker.  Only with Dev = {} is no task ever suspended while it owns the bucket (NoSuspendedOwner),
   which is what makes every other blocking operation on the table (the stream-end hook, Drop) safe.  *)
EXTENDS Naturals, Sequences, FiniteSets, TLC
CONSTANTS Hs,        \* handshake tasks
          Threads,   \* worker threads of the runtime
          Pinned,    \* a task woken by a lock hand-over can only run on the worker of the task that released the lock
          Dev
Call == "call"
Tasks == Hs \cup {Call}
VARIABLES pc,        \* pc[t]
          owner,     \* task that holds the bucket lock, or "none"
          queue,     \* FIFO of tasks waiting for the lock
          onthread,  \* tasks currently occupying a worker thread (running, or blocked in a synchronous wait)
          io,        \* "pending" | "ok" | "err": the transport operation the call is waiting for
          pin        \* pin[t]: the task whose worker has t in its own slot ("none": any free worker may run t)
vars == <<pc, owner, queue, onthread, io, pin>>

\* a task may take a step only while it occupies a thread; a suspended task (state ends in "_wait" / "await_io")
\* holds no thread and is resumed by the scheduler when its wake-up condition holds
Suspended(t) == pc[t] \in {"lock_wait", "await_io", "rm_wait"}
Runnable(t) == \/ pc[t] \in {"start", "locked", "release", "forget", "rm_locked", "forget2", "rm2_locked"}
               \/ (pc[t] = "lock_wait" /\ owner = t)          \* the lock was handed over: its waker fired
               \/ (pc[t] = "rm_wait" /\ owner = t)
               \/ (pc[t] = "await_io" /\ io # "pending")

Init == /\ pc = [t \in Tasks |-> "start"] /\ owner = "none" /\ queue = <<>> /\ onthread = {} /\ io = "pending"
        /\ pin = [t \in Tasks |-> "none"]

Schedule(t) ==       \* a free worker thread picks up a runnable task
  /\ t \notin onthread /\ Runnable(t) /\ Cardinality(onthread) < Threads
  /\ (pin[t] = "none" \/ pin[t] \notin onthread)         \* the worker that has t in its slot is free again
  /\ onthread' = onthread \cup {t} /\ pin' = [pin EXCEPT ![t] = "none"] /\ UNCHANGED <<pc, owner, queue, io>>

Release(r) == IF queue = <<>> THEN owner' = "none" /\ UNCHANGED <<queue, pin>>
              ELSE /\ owner' = Head(queue) /\ queue' = Tail(queue)      \* hand-over to the next waiter, suspended or blocked
                   /\ pin' = IF Pinned /\ pc[Head(queue)] \in {"lock_wait", "rm_wait"}
                             THEN [pin EXCEPT ![Head(queue)] = r] ELSE pin   \* a suspended waiter is woken into r's worker's slot

\* lock_async: take the lock or queue and give the thread back
LockAsync(t, got, wait) ==
  IF owner = "none" THEN owner' = t /\ pc' = [pc EXCEPT ![t] = got] /\ UNCHANGED <<queue, onthread, pin>>
  ELSE queue' = Append(queue, t) /\ pc' = [pc EXCEPT ![t] = wait] /\ onthread' = onthread \ {t} /\ UNCHANGED <<owner, pin>>
\* a blocking lock: take it or queue and keep the thread
LockSync(t, got, blocked) ==
  IF owner = "none" THEN owner' = t /\ pc' = [pc EXCEPT ![t] = got] /\ UNCHANGED <<queue, onthread, pin>>
  ELSE queue' = Append(queue, t) /\ pc' = [pc EXCEPT ![t] = blocked] /\ UNCHANGED <<owner, onthread, pin>>

Step(t) ==
  /\ t \in onthread
  /\ \/ /\ pc[t] = "start" /\ UNCHANGED io                                                     \* get_async / upsert_async - or, all_sync, the blocking forms
        /\ IF "all_sync" \in Dev THEN LockSync(t, "locked", "lock_blocked") ELSE LockAsync(t, "locked", "lock_wait")
     \/ /\ pc[t] = "lock_wait" /\ owner = t /\ pc' = [pc EXCEPT ![t] = "locked"] /\ UNCHANGED <<owner, queue, onthread, io, pin>>
     \/ /\ pc[t] = "lock_blocked" /\ owner = t /\ pc' = [pc EXCEPT ![t] = "locked"] /\ UNCHANGED <<owner, queue, onthread, io, pin>>
     \/ /\ pc[t] = "locked" /\ t \in Hs                                                        \* upsert done: release
        /\ Release(t) /\ pc' = [pc EXCEPT ![t] = "done"] /\ onthread' = onthread \ {t} /\ UNCHANGED io
     \/ /\ pc[t] = "locked" /\ t = Call /\ "held" \in Dev                                     \* send(..).await with the entry held
        /\ pc' = [pc EXCEPT ![t] = "await_io"] /\ onthread' = onthread \ {t} /\ UNCHANGED <<owner, queue, io, pin>>
     \/ /\ pc[t] = "locked" /\ t = Call /\ "held" \notin Dev                                  \* copy the shared entry out, release the bucket, then wait
        /\ Release(t) /\ pc' = [pc EXCEPT ![t] = "await_io"] /\ onthread' = onthread \ {t} /\ UNCHANGED io
     \/ /\ pc[t] = "await_io" /\ io # "pending" /\ pc' = [pc EXCEPT ![t] = "release"] /\ UNCHANGED <<owner, queue, onthread, io, pin>>
     \/ /\ pc[t] = "release" /\ (IF "held" \in Dev THEN Release(t) ELSE UNCHANGED <<owner, queue, pin>>)  \* drop(peer) / nothing held
        /\ IF io = "err" THEN pc' = [pc EXCEPT ![t] = "forget"] /\ UNCHANGED onthread
           ELSE pc' = [pc EXCEPT ![t] = "done"] /\ onthread' = onthread \ {t}
        /\ UNCHANGED io
     \/ /\ pc[t] = "forget" /\ UNCHANGED io
        /\ IF "sync_remove" \in Dev \/ "held" \notin Dev
             THEN LockSync(t, "rm_locked", "rm_blocked")                                       \* keeps the thread
             ELSE LockAsync(t, "rm_locked", "rm_wait")
     \/ /\ pc[t] = "rm_blocked" /\ owner = t /\ pc' = [pc EXCEPT ![t] = "rm_locked"] /\ UNCHANGED <<owner, queue, onthread, io, pin>>
     \/ /\ pc[t] = "rm_wait" /\ owner = t /\ pc' = [pc EXCEPT ![t] = "rm_locked"] /\ UNCHANGED <<owner, queue, onthread, io, pin>>
     \* the blocking forgetting is followed, without the task giving its thread back, by another blocking operation on the bucket
     \* (the receiver goes on polling and meets the next ended stream; Drop clears the table after the last call)
     \/ /\ pc[t] = "rm_locked" /\ Release(t) /\ UNCHANGED io
        /\ IF "sync_remove" \in Dev \/ "held" \notin Dev THEN pc' = [pc EXCEPT ![t] = "forget2"] /\ UNCHANGED onthread
           ELSE pc' = [pc EXCEPT ![t] = "done"] /\ onthread' = onthread \ {t}
     \/ /\ pc[t] = "forget2" /\ LockSync(t, "rm2_locked", "rm2_blocked") /\ UNCHANGED io
     \/ /\ pc[t] = "rm2_blocked" /\ owner = t /\ pc' = [pc EXCEPT ![t] = "rm2_locked"] /\ UNCHANGED <<owner, queue, onthread, io, pin>>
     \/ /\ pc[t] = "rm2_locked" /\ Release(t) /\ pc' = [pc EXCEPT ![t] = "done"] /\ onthread' = onthread \ {t} /\ UNCHANGED io

IoDone == io = "pending" /\ pc[Call] = "await_io" /\ io' \in {"ok", "err"} /\ UNCHANGED <<pc, owner, queue, onthread, pin>>

Next == (\E t \in Tasks : Schedule(t) \/ Step(t)) \/ IoDone
Spec == Init /\ [][Next]_vars /\ WF_vars(Next)

AllDone == \A t \in Tasks : pc[t] = "done"
\* the runtime is stuck: every thread is occupied by a task blocked in a synchronous wait, and the lock owner is not on a thread
Blocked(t) == pc[t] \in {"rm_blocked", "rm2_blocked", "lock_blocked"} /\ owner # t
Stuck == \/ /\ Cardinality(onthread) = Threads
            /\ \A t \in onthread : Blocked(t)
            /\ owner \notin onthread
         \* the owner sits in the slot of a worker whose task waits for the owner (whatever the other workers do)
         \/ /\ owner # "none" /\ owner \notin onthread /\ pin[owner] # "none"
            /\ pin[owner] \in onthread /\ Blocked(pin[owner])
NeverStuck == ~Stuck
\* no task is ever suspended (off its thread) while it owns the bucket
NoSuspendedOwner == owner = "none" \/ owner \in onthread \/ pc[owner] \in {"lock_wait", "rm_wait"}
Terminates == <>AllDone
\* reachability companion (must be violated): a handshake really queues behind the call's entry
Reach_HandshakeQueued == ~(\E h \in Hs : pc[h] = "lock_wait" /\ pc[Call] = "await_io")
=============================================================================
