---- MODULE Proxy_TTrace_1790391452 ----
EXTENDS Sequences, Proxy, TLCExt, Toolbox, Naturals, TLC

_expression ==
    LET Proxy_TEExpression == INSTANCE Proxy_TEExpression
    IN Proxy_TEExpression!expression
----

_trace ==
    LET Proxy_TETrace == INSTANCE Proxy_TETrace
    IN Proxy_TETrace!trace
----

_inv ==
    ~(
        TLCGet("level") = Len(_TETrace)
        /\
        inF = (<<<<"f", 2>>>>)
        /\
        outB = (<<<<"f", 1>>>>)
        /\
        cap = (<<<<"f", 1>>>>)
        /\
        nB = (1)
        /\
        nF = (2)
        /\
        inB = (<<>>)
        /\
        outF = (<<>>)
    )
----

_init ==
    /\ nB = _TETrace[1].nB
    /\ nF = _TETrace[1].nF
    /\ cap = _TETrace[1].cap
    /\ inB = _TETrace[1].inB
    /\ inF = _TETrace[1].inF
    /\ outB = _TETrace[1].outB
    /\ outF = _TETrace[1].outF
----

_next ==
    /\ \E i,j \in DOMAIN _TETrace:
        /\ \/ /\ j = i + 1
              /\ i = TLCGet("level")
        /\ nB  = _TETrace[i].nB
        /\ nB' = _TETrace[j].nB
        /\ nF  = _TETrace[i].nF
        /\ nF' = _TETrace[j].nF
        /\ cap  = _TETrace[i].cap
        /\ cap' = _TETrace[j].cap
        /\ inB  = _TETrace[i].inB
        /\ inB' = _TETrace[j].inB
        /\ inF  = _TETrace[i].inF
        /\ inF' = _TETrace[j].inF
        /\ outB  = _TETrace[i].outB
        /\ outB' = _TETrace[j].outB
        /\ outF  = _TETrace[i].outF
        /\ outF' = _TETrace[j].outF

\* Uncomment the ASSUME below to write the states of the error trace
\* to the given file in Json format. Note that you can pass any tuple
\* to `JsonSerialize`. For example, a sub-sequence of _TETrace.
    \* ASSUME
    \*     LET J == INSTANCE Json
    \*         IN J!JsonSerialize("Proxy_TTrace_1790391452.json", _TETrace)

=============================================================================

 Note that you can extract this module `Proxy_TEExpression`
  to a dedicated file to reuse `expression` (the module in the 
  dedicated `Proxy_TEExpression.tla` file takes precedence 
  over the module `Proxy_TEExpression` below).

---- MODULE Proxy_TEExpression ----
EXTENDS Sequences, Proxy, TLCExt, Toolbox, Naturals, TLC

expression == 
    [
        \* To hide variables of the `Proxy` spec from the error trace,
        \* remove the variables below.  The trace will be written in the order
        \* of the fields of this record.
        nB |-> nB
        ,nF |-> nF
        ,cap |-> cap
        ,inB |-> inB
        ,inF |-> inF
        ,outB |-> outB
        ,outF |-> outF
        
        \* Put additional constant-, state-, and action-level expressions here:
        \* ,_stateNumber |-> _TEPosition
        \* ,_nBUnchanged |-> nB = nB'
        
        \* Format the `nB` variable as Json value.
        \* ,_nBJson |->
        \*     LET J == INSTANCE Json
        \*     IN J!ToJson(nB)
        
        \* Lastly, you may build expressions over arbitrary sets of states by
        \* leveraging the _TETrace operator.  For example, this is how to
        \* count the number of times a spec variable changed up to the current
        \* state in the trace.
        \* ,_nBModCount |->
        \*     LET F[s \in DOMAIN _TETrace] ==
        \*         IF s = 1 THEN 0
        \*         ELSE IF _TETrace[s].nB # _TETrace[s-1].nB
        \*             THEN 1 + F[s-1] ELSE F[s-1]
        \*     IN F[_TEPosition - 1]
    ]

=============================================================================



Parsing and semantic processing can take forever if the trace below is long.
 In this case, it is advised to uncomment the module below to deserialize the
 trace from a generated binary file.

\*
\*---- MODULE Proxy_TETrace ----
\*EXTENDS IOUtils, Proxy, TLC
\*
\*trace == IODeserialize("Proxy_TTrace_1790391452.bin", TRUE)
\*
\*=============================================================================
\*

---- MODULE Proxy_TETrace ----
EXTENDS Proxy, TLC

trace == 
    <<
    ([inF |-> <<>>,outB |-> <<>>,cap |-> <<>>,nB |-> 0,nF |-> 0,inB |-> <<>>,outF |-> <<>>]),
    ([inF |-> <<<<"f", 1>>>>,outB |-> <<>>,cap |-> <<>>,nB |-> 0,nF |-> 1,inB |-> <<>>,outF |-> <<>>]),
    ([inF |-> <<<<"f", 1>>, <<"f", 2>>>>,outB |-> <<>>,cap |-> <<>>,nB |-> 0,nF |-> 2,inB |-> <<>>,outF |-> <<>>]),
    ([inF |-> <<<<"f", 1>>, <<"f", 2>>>>,outB |-> <<>>,cap |-> <<>>,nB |-> 1,nF |-> 2,inB |-> <<<<"b", 1>>>>,outF |-> <<>>]),
    ([inF |-> <<<<"f", 2>>>>,outB |-> <<<<"f", 1>>>>,cap |-> <<<<"f", 1>>>>,nB |-> 1,nF |-> 2,inB |-> <<>>,outF |-> <<>>])
    >>
----


=============================================================================

---- CONFIG Proxy_TTrace_1790391452 ----
CONSTANTS
    MaxMsgs = 3
    Dev = { "drop_loser_message" }

INVARIANT
    _inv

CHECK_DEADLOCK
    \* CHECK_DEADLOCK off because of PROPERTY or INVARIANT above.
    FALSE

INIT
    _init

NEXT
    _next

CONSTANT
    _TETrace <- _trace

ALIAS
    _expression
=============================================================================
\* Generated on Sat Sep 26 02:57:33 UTC 2026