SPECIFICATION Spec
CONSTANTS
 N = 3
 B = 1
 MaxBuf = 14
 Bound = 12
 Dev = {"no_round_yield"}
INVARIANTS Fair
CHECK_DEADLOCK FALSE
