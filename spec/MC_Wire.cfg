SPECIFICATION Spec
CONSTANTS
 Grid = {0, 1, 2, 254, 255, 256, 257, 65535, 65536, 1048576, 4194304}
 MaxFrames = 2
 SmallMax = 257
INVARIANTS RoundTrip HdrOK Emit
CHECK_DEADLOCK FALSE
