SPECIFICATION Spec
CONSTANTS
 Topics <- TopicsDef
 Frames <- FramesDef
 MaxHist = 5
 Dev = {"unsub_removes_all"}
INVARIANTS Refines 
CHECK_DEADLOCK FALSE
