SPECIFICATION Spec
CONSTANTS
 Conns = {1, 2}
 HasRot = TRUE
 HasFQ = TRUE
 Dev = {"steps", "newest"}
INVARIANTS Agreement HeldIsWhole NotLost
CHECK_DEADLOCK FALSE
