---- MODULE MC_PubSub_TTrace_1790387996 ----
EXTENDS Sequences, TLCExt, Toolbox, Naturals, TLC, MC_PubSub

_expression ==
    LET MC_PubSub_TEExpression == INSTANCE MC_PubSub_TEExpression
    IN MC_PubSub_TEExpression!expression
----

_trace ==
    LET MC_PubSub_TETrace == INSTANCE MC_PubSub_TETrace
    IN MC_PubSub_TETrace!trace
----

_inv ==
    ~(
        TLCGet("level") = Len(_TETrace)
        /\
        vec = (<<>>)
        /\
        bag = ((<<>> :> 1 @@ <<1>> :> 0 @@ <<2>> :> 0 @@ <<1, 2>> :> 0))
        /\
        n = (3)
    )
----

_init ==
    /\ bag = _TETrace[1].bag
    /\ n = _TETrace[1].n
    /\ vec = _TETrace[1].vec
----

_next ==
    /\ \E i,j \in DOMAIN _TETrace:
        /\ \/ /\ j = i + 1
              /\ i = TLCGet("level")
        /\ bag  = _TETrace[i].bag
        /\ bag' = _TETrace[j].bag
        /\ n  = _TETrace[i].n
        /\ n' = _TETrace[j].n
        /\ vec  = _TETrace[i].vec
        /\ vec' = _TETrace[j].vec

\* Uncomment the ASSUME below to write the states of the error trace
\* to the given file in Json format. Note that you can pass any tuple
\* to `JsonSerialize`. For example, a sub-sequence of _TETrace.
    \* ASSUME
    \*     LET J == INSTANCE Json
    \*         IN J!JsonSerialize("MC_PubSub_TTrace_1790387996.json", _TETrace)

=============================================================================

 Note that you can extract this module `MC_PubSub_TEExpression`
  to a dedicated file to reuse `expression` (the module in the 
  dedicated `MC_PubSub_TEExpression.tla` file takes precedence 
  over the module `MC_PubSub_TEExpression` below).

---- MODULE MC_PubSub_TEExpression ----
EXTENDS Sequences, TLCExt, Toolbox, Naturals, TLC, MC_PubSub

expression == 
    [
        \* To hide variables of the `MC_PubSub` spec from the error trace,
        \* remove the variables below.  The trace will be written in the order
        \* of the fields of this record.
        bag |-> bag
        ,n |-> n
        ,vec |-> vec
        
        \* Put additional constant-, state-, and action-level expressions here:
        \* ,_stateNumber |-> _TEPosition
        \* ,_bagUnchanged |-> bag = bag'
        
        \* Format the `bag` variable as Json value.
        \* ,_bagJson |->
        \*     LET J == INSTANCE Json
        \*     IN J!ToJson(bag)
        
        \* Lastly, you may build expressions over arbitrary sets of states by
        \* leveraging the _TETrace operator.  For example, this is how to
        \* count the number of times a spec variable changed up to the current
        \* state in the trace.
        \* ,_bagModCount |->
        \*     LET F[s \in DOMAIN _TETrace] ==
        \*         IF s = 1 THEN 0
        \*         ELSE IF _TETrace[s].bag # _TETrace[s-1].bag
        \*             THEN 1 + F[s-1] ELSE F[s-1]
        \*     IN F[_TEPosition - 1]
    ]

=============================================================================



Parsing and semantic processing can take forever if the trace below is long.
 In this case, it is advised to uncomment the module below to deserialize the
 trace from a generated binary file.

\*
\*---- MODULE MC_PubSub_TETrace ----
\*EXTENDS IOUtils, TLC, MC_PubSub
\*
\*trace == IODeserialize("MC_PubSub_TTrace_1790387996.bin", TRUE)
\*
\*=============================================================================
\*

---- MODULE MC_PubSub_TETrace ----
EXTENDS TLC, MC_PubSub

trace == 
    <<
    ([vec |-> <<>>,bag |-> (<<>> :> 0 @@ <<1>> :> 0 @@ <<2>> :> 0 @@ <<1, 2>> :> 0),n |-> 0]),
    ([vec |-> <<<<>>>>,bag |-> (<<>> :> 1 @@ <<1>> :> 0 @@ <<2>> :> 0 @@ <<1, 2>> :> 0),n |-> 1]),
    ([vec |-> <<<<>>>>,bag |-> (<<>> :> 2 @@ <<1>> :> 0 @@ <<2>> :> 0 @@ <<1, 2>> :> 0),n |-> 2]),
    ([vec |-> <<>>,bag |-> (<<>> :> 1 @@ <<1>> :> 0 @@ <<2>> :> 0 @@ <<1, 2>> :> 0),n |-> 3])
    >>
----


=============================================================================

---- CONFIG MC_PubSub_TTrace_1790387996 ----
CONSTANTS
    Topics <- TopicsDef
    Frames <- FramesDef
    MaxHist = 5
    Dev = { "dedup_on_subscribe" }

INVARIANT
    _inv

CHECK_DEADLOCK
    \* CHECK_DEADLOCK off because of PROPERTY or INVARIANT above.
    FALSE

INIT
    _init

NEXT
    _next

CONSTANT
    _TETrace <- _trace

ALIAS
    _expression
=============================================================================
\* Generated on Sat Sep 26 01:59:57 UTC 2026