SPECIFICATION Spec
CONSTANTS
 Peers = {1, 2, 3}
 MaxSends = 6
 MaxCancels = 2
 Dev = {"pop_before_send"}
INVARIANT Refines
CHECK_DEADLOCK FALSE
