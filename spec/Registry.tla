------------------------------ MODULE Registry ------------------------------
(* Layer B: what a socket keeps per peer - the peer table (write half), the rotation of a round-robin
   sender and the fair queue (read half) - while connections of ONE identity register, are polled
   and are forgotten on a multi-threaded runtime.  Every structure has its own lock; registering
   (peer_connected: table, rotation, fair queue) and forgetting (forget_conn: table, rotation, fair
   queue) are sequences of steps that other threads interleave with, and the receiver takes a
   stream out of the fair queue while it polls it and puts it back afterwards.
     Dev = {}                 the repaired code: the steps of one registration / one forgetting run
                              while the identity's bucket of the peer table is locked (they are
                              atomic with respect to each other); a stream that was forgotten while
                              it was out is not put back
     Dev = {"steps"}          the steps interleave, last writer wins, the rotation is left by identity
                              (the tree before the repair; found by the C05, C08 and C10 hunters as
                              "crossed halves" and "registered but not in the rotation")
     Dev = {"steps", "newest"} the steps interleave but every structure keeps the connection with the
                              higher number and the rotation is left by connection (an intermediate
                              repair: TLC shows what it still misses)
     Dev = {"zombie"}         atomic steps, but a stream that was forgotten or superseded while it was out is
                              put back when its place is free (or_insert)
   Layer A (Agreement, at quiescence): the three structures hold the same connection or none; that
   connection is alive, registered and not forgotten; and a connection that registered last and was
   never forgotten is not lost.                                                                     *)
EXTENDS Naturals, FiniteSets, TLC
CONSTANTS Conns,      \* connection numbers, in the order next_conn() hands them out
          HasRot, HasFQ,
          Dev
Atomic == "steps" \notin Dev
Marker == Atomic /\ "zombie" \notin Dev      \* the fair queue remembers that the stream it has handed out was let go of meanwhile
VARIABLES table, rot, fq,      \* the connection each structure holds for the identity, 0 = none
          out,                 \* the stream the receiver has taken out to poll it, 0 = none
          outgone,             \* that stream was forgotten while it was out
          pr,                  \* pr[c]: progress of the registration of c
          pf,                  \* pf[c]: progress of the forgetting of c
          took,                \* pf-local: the table step of forgetting c did remove c
          lock,                \* the identity's bucket of the peer table: Free, or held by Reg(c) / Fgt(c)
          ended,               \* connections whose stream has ended / whose write failed
          closed               \* connections the socket has let go of completely or in part (a half was dropped)
vars == <<table, rot, fq, out, outgone, pr, pf, took, lock, ended, closed>>
None == 0
Reg(c) == <<"reg", c>>
Fgt(c) == <<"fgt", c>>
Free == <<"free", 0>>
Init == /\ table = None /\ rot = None /\ fq = None /\ out = None /\ outgone = FALSE
        /\ pr = [c \in Conns |-> "idle"] /\ pf = [c \in Conns |-> "idle"] /\ took = [c \in Conns |-> FALSE]
        /\ lock = Free /\ ended = {} /\ closed = {}
Max(a, b) == IF a > b THEN a ELSE b
\* a structure takes connection c: last writer wins, or the newest wins
Put(cur, c) == IF "newest" \in Dev THEN Max(cur, c) ELSE c
Dropped(cur, c) == IF Put(cur, c) = c THEN (IF cur = None \/ cur = c THEN {} ELSE {cur}) ELSE {c}   \* whose half is dropped by the step

\* ---- registration of c: handshakes complete in the order of the numbers, the steps may lag ----
CanLock(h) == ~Atomic \/ lock = Free \/ lock = h
RegStart(c) == /\ pr[c] = "idle" /\ \A d \in Conns : d < c => pr[d] # "idle"
               /\ CanLock(Reg(c)) /\ lock' = (IF Atomic THEN Reg(c) ELSE lock)
               /\ pr' = [pr EXCEPT ![c] = "table"]
               /\ UNCHANGED <<table, rot, fq, out, outgone, pf, took, ended, closed>>
RegTable(c) == /\ pr[c] = "table"
               /\ table' = Put(table, c) /\ closed' = closed \cup Dropped(table, c)
               /\ pr' = [pr EXCEPT ![c] = "rot"]
               /\ UNCHANGED <<rot, fq, out, outgone, pf, took, lock, ended>>
RegRot(c) == /\ pr[c] = "rot"
             /\ rot' = (IF ~HasRot THEN rot
                        ELSE IF "newest" \in Dev THEN Max(rot, c)
                        ELSE IF rot # None /\ ~Atomic THEN rot          \* join: "queued already" (by identity; the number it joined with does not matter)
                        ELSE c)
             /\ pr' = [pr EXCEPT ![c] = "fq"]
             /\ UNCHANGED <<table, fq, out, outgone, pf, took, lock, ended, closed>>
RegFQ(c) == /\ pr[c] = "fq"
            /\ IF HasFQ THEN /\ fq' = Put(fq, c) /\ closed' = closed \cup Dropped(fq, c)
                             /\ outgone' = (IF Marker /\ out # None THEN TRUE ELSE outgone)    \* the stream that is out belongs to an older connection
               ELSE UNCHANGED <<fq, closed, outgone>>
            /\ pr' = [pr EXCEPT ![c] = "done"] /\ lock' = (IF Atomic THEN Free ELSE lock)
            /\ UNCHANGED <<table, rot, out, pf, took, ended>>

\* ---- the receiver polls the stream: takes it out, puts it back unless a newer one is there ----
Take == /\ HasFQ /\ fq # None /\ out = None /\ out' = fq /\ fq' = None /\ outgone' = FALSE
        /\ UNCHANGED <<table, rot, pr, pf, took, lock, ended, closed>>
PutBack == /\ out # None /\ out \notin ended
           /\ IF outgone THEN closed' = closed \cup {out} /\ UNCHANGED fq
              ELSE IF fq = None THEN fq' = out /\ UNCHANGED closed
              ELSE IF "newest" \in Dev /\ fq < out THEN fq' = out /\ closed' = closed \cup {fq}
              ELSE closed' = closed \cup {out} /\ UNCHANGED fq                \* a stream registered meanwhile stays
           /\ out' = None /\ outgone' = FALSE
           /\ UNCHANGED <<table, rot, pr, pf, took, lock, ended>>
\* the polled stream ends (the peer closed): it is dropped and its connection forgotten (the stream-end hook)
StreamEnd == /\ out # None /\ out \notin ended /\ pf[out] = "idle"
             /\ ended' = ended \cup {out} /\ closed' = closed \cup {out} /\ out' = None /\ outgone' = FALSE
             /\ pf' = [pf EXCEPT ![out] = "start"]
             /\ UNCHANGED <<table, rot, fq, pr, took, lock>>
\* a write to the registered connection fails (send_round_robin, REP / ROUTER send): it is forgotten
WriteFails(c) == /\ table = c /\ c \notin ended /\ pf[c] = "idle"
                 /\ (Atomic => lock = Free)            \* (the sender found c in the table: the bucket was free then)
                 /\ ended' = ended \cup {c} /\ pf' = [pf EXCEPT ![c] = "start"]
                 /\ UNCHANGED <<table, rot, fq, out, outgone, pr, took, lock, closed>>

\* ---- forgetting c ----
FgtStart(c) == /\ pf[c] = "start" /\ CanLock(Fgt(c)) /\ lock' = (IF Atomic THEN Fgt(c) ELSE lock)
               /\ pf' = [pf EXCEPT ![c] = "table"]
               /\ UNCHANGED <<table, rot, fq, out, outgone, pr, took, ended, closed>>
FgtTable(c) == /\ pf[c] = "table"
               /\ IF table = c THEN table' = None /\ took' = [took EXCEPT ![c] = TRUE] /\ closed' = closed \cup {c}
                  ELSE UNCHANGED <<table, took, closed>>
               /\ pf' = [pf EXCEPT ![c] = "rot"]
               /\ UNCHANGED <<rot, fq, out, outgone, pr, lock, ended>>
FgtRot(c) == /\ pf[c] = "rot"
             /\ rot' = (IF ~HasRot \/ ~took[c] THEN rot
                        ELSE IF "newest" \in Dev THEN (IF rot = c THEN None ELSE rot)    \* leave by connection
                        ELSE None)                                                       \* leave by identity
             /\ pf' = [pf EXCEPT ![c] = "fq"]
             /\ UNCHANGED <<table, fq, out, outgone, pr, took, lock, ended, closed>>
FgtFQ(c) == /\ pf[c] = "fq"
            /\ fq' = (IF fq = c THEN None ELSE fq)
            /\ outgone' = (IF Marker /\ out = c THEN TRUE ELSE outgone)
            /\ closed' = (IF fq = c THEN closed \cup {c} ELSE closed)
            /\ pf' = [pf EXCEPT ![c] = "done"] /\ lock' = (IF Atomic THEN Free ELSE lock)
            /\ UNCHANGED <<table, rot, out, pr, took, ended>>

Next == \/ \E c \in Conns : RegStart(c) \/ RegTable(c) \/ RegRot(c) \/ RegFQ(c) \/ WriteFails(c)
                            \/ FgtStart(c) \/ FgtTable(c) \/ FgtRot(c) \/ FgtFQ(c)
        \/ Take \/ PutBack \/ StreamEnd
Spec == Init /\ [][Next]_vars

\* ---- layer A ----
Quiet == /\ \A c \in Conns : pr[c] \in {"idle", "done"} /\ pf[c] \in {"idle", "done"}
         /\ out = None
Held == {table} \cup (IF HasRot THEN {rot} ELSE {}) \cup (IF HasFQ THEN {fq} ELSE {})
\* the structures agree: one connection or none
Agreement == Quiet => Cardinality(Held) = 1
\* what is held is a connection the socket has not let go of (in part) and whose end it has not seen
HeldIsWhole == Quiet => \A c \in Held \ {None} : c \notin closed /\ c \notin ended
\* a peer is not lost: if the connection that registered last is whole and was never forgotten, it is the one held
Last == CHOOSE c \in Conns : pr[c] = "done" /\ \A d \in Conns : pr[d] = "done" => d <= c
NotLost == (Quiet /\ \E c \in Conns : pr[c] = "done")
             => (Last \notin ended => table = Last)
\* reachability companions (must be violated)
Reach_TwoRegistered == ~(Quiet /\ \A c \in Conns : pr[c] = "done")
Reach_ForgetDuringOut == ~(out # None /\ outgone)
=============================================================================
