------------------------------ MODULE GenFQ ------------------------------
(* Behaviour generator for binding R: FairQueue's actions plus a history variable.  Other-thread
   actions are enabled only at points where harness code can run (receiver idle or parked, or
   inside the checked-out stream's poll, i.e. between L1 and L2/L3); every poller action logs the
   projection the probe's snapshot() is compared with.  Run with -simulate; a behaviour is printed
   once it is Depth long and the receiver is at rest.  hist is directly the replay script.      *)
EXTENDS FairQueue, Json
CONSTANT Depth
VARIABLES hist, wakes, pollseq
gvars == <<vars, hist, wakes, pollseq>>
Snap == [ready |-> {<<e[1], e[2]>> : e \in heap'}, nready |-> Cardinality(heap'), streams |-> streams', waker |-> wslot',
         counter |-> counter', wakes |-> wakes', delivered |-> delivered']
Inj == pc \in {"idle", "parked", "poll", "l2", "l3"}
Log(r) == hist' = Append(hist, r)
Wk == wakes' = wakes + (IF wslot THEN 1 ELSE 0)
GInit == Init /\ hist = <<>> /\ wakes = 0 /\ pollseq = [k \in Keys |-> <<>>]
\* pollseq[k]: the tickets of the wakers k's source was polled with, in order: the replay keeps a clone of each and wakes
\* clone number abs for a StaleFire
Yields == "no_yield" \notin Dev /\ npend + 1 > Cardinality(streams')
GNext ==
  \/ \E k \in Keys : Inj /\ Insert(k) /\ Wk /\ Log([a |-> "Insert", k |-> k]) /\ UNCHANGED pollseq
  \/ \E k \in Keys : Inj /\ Reinsert(k) /\ Wk /\ Log([a |-> "Reinsert", k |-> k]) /\ UNCHANGED pollseq
  \/ \E k \in Keys : Inj /\ Produce(k) /\ UNCHANGED wakes /\ Log([a |-> "Produce", k |-> k]) /\ UNCHANGED pollseq
  \/ \E k \in Keys : Inj /\ left[k] <= 1 /\ Close(k) /\ UNCHANGED wakes /\ Log([a |-> "Close", k |-> k]) /\ UNCHANGED pollseq
  \/ \E k \in Keys : Inj /\ Fire(k) /\ Wk /\ Log([a |-> "Fire", k |-> k]) /\ UNCHANGED pollseq
  \/ \E k \in Keys : Inj /\ \E i \in 1..Len(pollseq[k]) : StaleFireT(k, pollseq[k][i]) /\ Wk /\ Log([a |-> "StaleFire", k |-> k, abs |-> i]) /\ UNCHANGED pollseq
  \/ Inj /\ Exhaust /\ UNCHANGED wakes /\ Log([a |-> "Exhaust"]) /\ UNCHANGED pollseq
  \/ \E k \in Keys : Inj /\ delivered[k] >= 1 /\ Remove(k) /\ UNCHANGED wakes /\ Log([a |-> "Remove", k |-> k]) /\ UNCHANGED pollseq
  \/ Begin /\ UNCHANGED wakes /\ Log([a |-> "Begin"]) /\ UNCHANGED pollseq
  \/ L1 /\ UNCHANGED wakes /\ Log([a |-> "L1", res |-> pc', k |-> IF cur' = <<>> THEN "" ELSE cur'[2], snap |-> Snap]) /\ UNCHANGED pollseq
  \/ PollStream /\ wakes' = wakes + (IF exh /\ wslot /\ cgen = conn[cur[2]] THEN 1 ELSE 0)
        /\ Log([a |-> "PollStream", res |-> pc', selfwake |-> (exh /\ cgen = conn[cur[2]])])
        /\ pollseq' = [pollseq EXCEPT ![cur[2]] = Append(@, cur[1])]
  \/ L2 /\ UNCHANGED wakes /\ Log([a |-> "L2", k |-> cur[2], snap |-> Snap]) /\ UNCHANGED pollseq
  \/ L3 /\ wakes' = wakes + (IF Yields /\ heap # {} THEN 1 ELSE 0) /\ Log([a |-> "L3", res |-> pc', snap |-> Snap]) /\ UNCHANGED pollseq
  \/ Cancel /\ ~notified /\ UNCHANGED wakes /\ Log([a |-> "Cancel"]) /\ UNCHANGED pollseq
GSpec == GInit /\ [][GNext]_gvars
AtRest == pc \in {"idle", "parked"}
Emit == (Len(hist) >= Depth /\ AtRest) => PrintT(<<"REPLAY", ToJson(hist)>>)
Stop == ~(Len(hist) >= Depth /\ AtRest)
=============================================================================
