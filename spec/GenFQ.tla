------------------------------ MODULE GenFQ ------------------------------
(* Behaviour generator for binding R: FairQueue's actions plus a history variable.  Other-thread
   actions are enabled only at points where harness code can run (receiver idle or parked, or
   inside the checked-out stream's poll, i.e. between L1 and L2/L3); every poller action logs the
   projection the probe's snapshot() is compared with.  Run with -simulate; a behaviour is printed
   once it is Depth long and the receiver is at rest.  hist is directly the replay script.      *)
EXTENDS FairQueue, Json
CONSTANT Depth
VARIABLES hist, wakes
gvars == <<vars, hist, wakes>>
Snap == [ready |-> {<<e[1], e[2]>> : e \in heap'}, nready |-> Cardinality(heap'), streams |-> streams', waker |-> wslot',
         counter |-> counter', wakes |-> wakes', delivered |-> delivered']
Inj == pc \in {"idle", "parked", "poll", "l2", "l3"}
Log(r) == hist' = Append(hist, r)
Wk == wakes' = wakes + (IF wslot THEN 1 ELSE 0)
GInit == Init /\ hist = <<>> /\ wakes = 0
GNext ==
  \/ \E k \in Keys : Inj /\ Insert(k) /\ Wk /\ Log([a |-> "Insert", k |-> k])
  \/ \E k \in Keys : Inj /\ Produce(k) /\ UNCHANGED wakes /\ Log([a |-> "Produce", k |-> k])
  \/ \E k \in Keys : Inj /\ left[k] <= 1 /\ Close(k) /\ UNCHANGED wakes /\ Log([a |-> "Close", k |-> k])
  \/ \E k \in Keys : Inj /\ Fire(k) /\ Wk /\ Log([a |-> "Fire", k |-> k])
  \/ \E k \in Keys : Inj /\ delivered[k] >= 1 /\ Remove(k) /\ UNCHANGED wakes /\ Log([a |-> "Remove", k |-> k])
  \/ Begin /\ UNCHANGED wakes /\ Log([a |-> "Begin"])
  \/ L1 /\ UNCHANGED wakes /\ Log([a |-> "L1", res |-> pc', k |-> IF cur' = <<>> THEN "" ELSE cur'[2], snap |-> Snap])
  \/ PollStream /\ UNCHANGED wakes /\ Log([a |-> "PollStream", res |-> pc'])
  \/ L2 /\ UNCHANGED wakes /\ Log([a |-> "L2", k |-> cur[2], snap |-> Snap])
  \/ L3 /\ UNCHANGED wakes /\ Log([a |-> "L3"])
  \/ Cancel /\ ~notified /\ UNCHANGED wakes /\ Log([a |-> "Cancel"])
GSpec == GInit /\ [][GNext]_gvars
AtRest == pc \in {"idle", "parked"}
Emit == (Len(hist) >= Depth /\ AtRest) => PrintT(<<"REPLAY", ToJson(hist)>>)
Stop == ~(Len(hist) >= Depth /\ AtRest)
=============================================================================
