SPECIFICATION TSpec
CONSTANT HWM = 131072
POSTCONDITION Accepted
CHECK_DEADLOCK FALSE
