---- MODULE OutBuf_TTrace_1790388063 ----
EXTENDS OutBuf, Sequences, TLCExt, Toolbox, Naturals, TLC

_expression ==
    LET OutBuf_TEExpression == INSTANCE OutBuf_TEExpression
    IN OutBuf_TEExpression!expression
----

_trace ==
    LET OutBuf_TETrace == INSTANCE OutBuf_TETrace
    IN OutBuf_TETrace!trace
----

_inv ==
    ~(
        TLCGet("level") = Len(_TETrace)
        /\
        buf = (<<>>)
        /\
        tap = (<<>>)
        /\
        dropped = ({3})
        /\
        accepted = (<<<<1, 7>>, <<2, 1>>>>)
        /\
        npub = (3)
        /\
        credit = (0)
    )
----

_init ==
    /\ npub = _TETrace[1].npub
    /\ credit = _TETrace[1].credit
    /\ dropped = _TETrace[1].dropped
    /\ buf = _TETrace[1].buf
    /\ accepted = _TETrace[1].accepted
    /\ tap = _TETrace[1].tap
----

_next ==
    /\ \E i,j \in DOMAIN _TETrace:
        /\ \/ /\ j = i + 1
              /\ i = TLCGet("level")
        /\ npub  = _TETrace[i].npub
        /\ npub' = _TETrace[j].npub
        /\ credit  = _TETrace[i].credit
        /\ credit' = _TETrace[j].credit
        /\ dropped  = _TETrace[i].dropped
        /\ dropped' = _TETrace[j].dropped
        /\ buf  = _TETrace[i].buf
        /\ buf' = _TETrace[j].buf
        /\ accepted  = _TETrace[i].accepted
        /\ accepted' = _TETrace[j].accepted
        /\ tap  = _TETrace[i].tap
        /\ tap' = _TETrace[j].tap

\* Uncomment the ASSUME below to write the states of the error trace
\* to the given file in Json format. Note that you can pass any tuple
\* to `JsonSerialize`. For example, a sub-sequence of _TETrace.
    \* ASSUME
    \*     LET J == INSTANCE Json
    \*         IN J!JsonSerialize("OutBuf_TTrace_1790388063.json", _TETrace)

=============================================================================

 Note that you can extract this module `OutBuf_TEExpression`
  to a dedicated file to reuse `expression` (the module in the 
  dedicated `OutBuf_TEExpression.tla` file takes precedence 
  over the module `OutBuf_TEExpression` below).

---- MODULE OutBuf_TEExpression ----
EXTENDS OutBuf, Sequences, TLCExt, Toolbox, Naturals, TLC

expression == 
    [
        \* To hide variables of the `OutBuf` spec from the error trace,
        \* remove the variables below.  The trace will be written in the order
        \* of the fields of this record.
        npub |-> npub
        ,credit |-> credit
        ,dropped |-> dropped
        ,buf |-> buf
        ,accepted |-> accepted
        ,tap |-> tap
        
        \* Put additional constant-, state-, and action-level expressions here:
        \* ,_stateNumber |-> _TEPosition
        \* ,_npubUnchanged |-> npub = npub'
        
        \* Format the `npub` variable as Json value.
        \* ,_npubJson |->
        \*     LET J == INSTANCE Json
        \*     IN J!ToJson(npub)
        
        \* Lastly, you may build expressions over arbitrary sets of states by
        \* leveraging the _TETrace operator.  For example, this is how to
        \* count the number of times a spec variable changed up to the current
        \* state in the trace.
        \* ,_npubModCount |->
        \*     LET F[s \in DOMAIN _TETrace] ==
        \*         IF s = 1 THEN 0
        \*         ELSE IF _TETrace[s].npub # _TETrace[s-1].npub
        \*             THEN 1 + F[s-1] ELSE F[s-1]
        \*     IN F[_TEPosition - 1]
    ]

=============================================================================



Parsing and semantic processing can take forever if the trace below is long.
 In this case, it is advised to uncomment the module below to deserialize the
 trace from a generated binary file.

\*
\*---- MODULE OutBuf_TETrace ----
\*EXTENDS OutBuf, IOUtils, TLC
\*
\*trace == IODeserialize("OutBuf_TTrace_1790388063.bin", TRUE)
\*
\*=============================================================================
\*

---- MODULE OutBuf_TETrace ----
EXTENDS OutBuf, TLC

trace == 
    <<
    ([buf |-> <<>>,tap |-> <<>>,dropped |-> {},accepted |-> <<>>,npub |-> 0,credit |-> 0]),
    ([buf |-> <<<<1, 1, 7>>, <<1, 2, 7>>, <<1, 3, 7>>, <<1, 4, 7>>, <<1, 5, 7>>, <<1, 6, 7>>, <<1, 7, 7>>>>,tap |-> <<>>,dropped |-> {},accepted |-> <<<<1, 7>>>>,npub |-> 1,credit |-> 0]),
    ([buf |-> <<<<1, 1, 7>>, <<1, 2, 7>>, <<1, 3, 7>>, <<1, 4, 7>>, <<1, 5, 7>>, <<1, 6, 7>>, <<1, 7, 7>>, <<2, 1, 1>>>>,tap |-> <<>>,dropped |-> {},accepted |-> <<<<1, 7>>, <<2, 1>>>>,npub |-> 2,credit |-> 0]),
    ([buf |-> <<>>,tap |-> <<>>,dropped |-> {3},accepted |-> <<<<1, 7>>, <<2, 1>>>>,npub |-> 3,credit |-> 0])
    >>
----


=============================================================================

---- CONFIG OutBuf_TTrace_1790388063 ----
CONSTANTS
    HWM = 8
    Sizes = { 1 , 4 , 7 , 8 , 9 }
    MaxPub = 5
    MaxCredit = 12
    Dev = { "clear_on_full" }

INVARIANT
    _inv

CHECK_DEADLOCK
    \* CHECK_DEADLOCK off because of PROPERTY or INVARIANT above.
    FALSE

INIT
    _init

NEXT
    _next

CONSTANT
    _TETrace <- _trace

ALIAS
    _expression
=============================================================================
\* Generated on Sat Sep 26 02:01:04 UTC 2026