---------------------------- MODULE TracePubSub ----------------------------
(* Layer-A monitor for the publish/subscribe sockets:
     C11  PUB / XPUB deliver a message to a subscriber iff one of its active subscriptions is a
          byte-prefix of the first frame, exactly once; XPUB hands every peer message to the
          application verbatim and in per-peer order, and a subscription counts once returned
     C12  publishing never waits for a subscriber; what reaches a subscriber is an order-preserving
          subsequence of whole matching messages; a subscriber that accepts every write misses none;
          bytes held for a stalled subscriber stay below high-water mark + one message
     C13  at quiescent points every connected peer of a SUB socket has been told exactly the
          socket's current subscription set
   Subscription messages and published first frames are logged as byte sequences (note.t, note.first,
   tb, f0) so that prefix matching is evaluated here, by the specification.                      *)
EXTENDS DeliveryAbs, TraceCommon
CONSTANT HWM

VARIABLES l, scen, viol, bag, pnote, limited, gone, call, wires, blocked, pubs, got, relAt, backlog, maxn,
          want, wantN, told, held, racy, pendingJoin
tvars == <<avars, l, scen, viol, bag, pnote, limited, gone, call, wires, blocked, pubs, got, relAt, backlog, maxn, want, wantN, told, held, racy, pendingJoin>>
pvars == <<bag, pnote, limited, gone, pubs, got, relAt, backlog, maxn>>
subv == <<want, wantN, told, held, racy, pendingJoin>>

E == Rec[l]
Flag(code) == Report(scen, code, l) /\ viol' = viol \cup {code}
NoFlag == UNCHANGED viol
Step(evname) == l <= NRec /\ E.ev = evname /\ l' = l + 1

TInit == AInit /\ l = 1 /\ scen = 0 /\ viol = {} /\ bag = EmptyMap /\ pnote = EmptyMap /\ limited = {} /\ gone = {} /\ call = <<>> /\ wires = <<>>
         /\ blocked = FALSE /\ pubs = <<>> /\ got = EmptyMap /\ relAt = EmptyMap /\ backlog = EmptyMap /\ maxn = 0
         /\ want = {} /\ wantN = EmptyMap /\ told = EmptyMap /\ held = {} /\ racy = {} /\ pendingJoin = {}

TReset == Step("reset") /\ scen' = E.scen /\ stype' = E.sock /\ conn' = {} /\ ident' = <<>> /\ pend' = <<>> /\ cut' = <<>> /\ credit' = 0
          /\ bag' = EmptyMap /\ pnote' = EmptyMap /\ limited' = {} /\ gone' = {} /\ call' = <<>> /\ wires' = <<>> /\ blocked' = FALSE /\ pubs' = <<>>
          /\ got' = EmptyMap /\ relAt' = EmptyMap /\ backlog' = EmptyMap /\ maxn' = 0 /\ want' = {} /\ wantN' = EmptyMap /\ told' = EmptyMap /\ held' = {} /\ racy' = {}
          /\ pendingJoin' = {} /\ UNCHANGED viol

\* ---- subscription bags (C11 counting rule) -----------------------------------------------------
RECURSIVE RemoveFirst(_, _)
RemoveFirst(s, t) == IF s = <<>> THEN <<>> ELSE IF Head(s) = t THEN Tail(s) ELSE <<Head(s)>> \o RemoveFirst(Tail(s), t)
Apply(b, note) == IF note.k = "sub" THEN Append(b, note.t) ELSE IF note.k = "unsub" THEN RemoveFirst(b, note.t) ELSE b
Bag(c) == Get(bag, c, <<>>)
MatchesBag(b, first) == \E i \in 1..Len(b) : IsPrefixSeq(b[i], first)
Matches(c, first) == MatchesBag(Bag(c), first)
\* XPUB: subscription messages that were written but not yet returned by recv may or may not have been processed already
\* (the statement fixes the order of processing, not its moment): every prefix of them is a possible state
RECURSIVE ApplyN(_, _, _)
ApplyN(b, notes, j) == IF j = 0 THEN b ELSE ApplyN(Apply(b, Head(notes)), Tail(notes), j - 1)
CandBags(c) == {ApplyN(Bag(c), Get(pnote, c, <<>>), j) : j \in 0..Len(Get(pnote, c, <<>>))}
MustMatch(c, first) == \A b \in CandBags(c) : MatchesBag(b, first)
MayMatch(c, first) == \E b \in CandBags(c) : MatchesBag(b, first)

TAttachCall == Step("attach_call") /\ UNCHANGED <<avars, scen, pvars, call, wires, blocked, want, wantN, told, held, racy>> /\ NoFlag
               /\ pendingJoin' = pendingJoin \cup {E.c}
TAttachPending == Step("attach_pending") /\ UNCHANGED <<avars, scen, pvars, call, wires, blocked, want, wantN, told, racy, pendingJoin>> /\ NoFlag
               /\ held' = IF Fld(E, "gate", FALSE) THEN held \cup {E.c} ELSE held
TAttachRet == Step("attach_ret") /\ UNCHANGED <<scen, bag, pnote, limited, pubs, got, relAt, backlog, maxn, call, wires, blocked, want, wantN, told, racy>>
   /\ held' = held \ {E.c} /\ pendingJoin' = pendingJoin \ {E.c} /\
   \* a connection that announces the identity of an older one supersedes it: the older one no longer is a peer of the socket
   IF E.res = "ok" THEN DoAdmit(E.c, E.id) /\ NoFlag /\ gone' = (IF Fld(E, "auto", TRUE) THEN gone ELSE gone \cup {c \in conn : ident[c] = E.id})
   ELSE IF E.res = "panic" THEN UNCHANGED <<avars, gone>> /\ Flag("C13/panic-on-failing-peer")
   ELSE UNCHANGED <<avars, gone>> /\ NoFlag

\* a peer (subscriber) wrote a message: PUB processes it in the background, XPUB when recv returns it
TWrote == Step("peer_wrote") /\ UNCHANGED <<scen, limited, gone, call, wires, blocked, pubs, got, relAt, backlog, maxn, subv>> /\ NoFlag /\ DoWrote(E.c, E.m) /\
   LET note == Fld(E, "note", [k |-> "junk", t |-> <<>>]) IN
   IF stype = "PUB" THEN bag' = Put(bag, E.c, Apply(Bag(E.c), note)) /\ UNCHANGED pnote
   ELSE pnote' = Put(pnote, E.c, Append(Get(pnote, E.c, <<>>), note)) /\ UNCHANGED bag

TCut == Step("peer_cut") /\ UNCHANGED <<scen, bag, pnote, limited, call, wires, blocked, pubs, got, relAt, backlog, maxn, subv>> /\ NoFlag
        /\ DoCut(E.c, "err") /\ gone' = gone \cup {E.c}
\* credit changes: whatever leaves from now on and was published before this point was held in memory at this point
TPipe == Step("pipe") /\ UNCHANGED <<scen, bag, pnote, call, wires, blocked, pubs, got, maxn, subv>> /\ NoFlag /\
   IF E.what = "break" THEN DoCut(E.c, "err") /\ gone' = gone \cup {E.c} /\ UNCHANGED <<limited, relAt, backlog>>
   ELSE /\ limited' = limited \cup {E.c}            \* it was stalled at least once: no longer the always-healthy subscriber
        /\ UNCHANGED <<avars, gone>> /\ relAt' = Put(relAt, E.c, Len(pubs)) /\ backlog' = Put(backlog, E.c, E.tap)   \* tap position at this point

\* ---- XPUB recv: verbatim, per-peer order, subscription takes effect now ---------------------------
TRecvRet == Step("recv_ret") /\ UNCHANGED <<scen, limited, gone, call, wires, blocked, pubs, got, relAt, backlog, maxn, subv>> /\
   IF stype # "XPUB" \/ E.res # "ok" THEN UNCHANGED <<avars, bag, pnote>> /\ NoFlag
   ELSE LET src == {c \in conn : Pend(c) # <<>> /\ Head(Pend(c)) = E.m} IN
        IF src # {} THEN LET c == CHOOSE x \in src : TRUE IN
             DoConsume(c) /\ bag' = Put(bag, c, Apply(Bag(c), Head(pnote[c]))) /\ pnote' = Put(pnote, c, Tail(pnote[c])) /\ NoFlag
        ELSE IF \E c \in conn : \E i \in 2..Len(Pend(c)) : Pend(c)[i] = E.m THEN UNCHANGED <<avars, bag, pnote>> /\ Flag("C11/xpub-order")
        ELSE UNCHANGED <<avars, bag, pnote>> /\ Flag("C11/xpub-not-verbatim")

\* ---- publish ---------------------------------------------------------------------------------------
TSendCall == Step("send_call") /\ UNCHANGED <<avars, scen, bag, pnote, limited, gone, pubs, got, relAt, backlog, subv>> /\ NoFlag
   /\ maxn' = (IF Fld(E, "n", 0) > maxn THEN E.n ELSE maxn) /\ call' = <<E.m, Fld(E, "note", [first |-> <<>>]).first>> /\ wires' = <<>> /\ blocked' = FALSE
TSendPending == Step("send_pending") /\ UNCHANGED <<avars, scen, pvars, call, wires, subv>> /\ blocked' = TRUE /\
   IF stype \in {"PUB", "XPUB"} THEN Flag("C12/publish-blocked") ELSE NoFlag
TWire == Step("wire") /\ UNCHANGED <<avars, scen, bag, pnote, limited, gone, call, blocked, pubs, relAt, want, wantN, held, racy, pendingJoin>> /\
   IF E.k # "msg" THEN UNCHANGED <<wires, got, backlog, maxn, told>> /\ NoFlag
   ELSE IF stype = "SUB" THEN
        UNCHANGED <<wires, got, backlog, maxn>> /\ NoFlag /\
        told' = Put(told, E.c, Append(Get(told, E.c, <<>>), Fld(E, "f0", <<255>>)))
   ELSE LET idx == {i \in 1..Len(pubs) : pubs[i][1] = E.m}
            \* published before the last credit change of this connection and leaving only now: it was in memory then;
            \* backlog[c] is the tap position at that credit change, E.off the tap position after this message
            buffered == idx # {} /\ E.c \in DOMAIN relAt /\ (CHOOSE i \in idx : TRUE) <= relAt[E.c]
            heldBytes == IF buffered THEN E.off - Get(backlog, E.c, 0) ELSE 0 IN
        /\ wires' = Append(wires, <<E.c, E.m>>) /\ got' = Put(got, E.c, Append(Get(got, E.c, <<>>), E.m)) /\ UNCHANGED <<told, maxn, backlog>>
        /\ IF heldBytes > HWM + maxn + 64 THEN Flag("C12/buffer-exceeds-hwm-plus-message") ELSE NoFlag

Copies(c, m) == Cardinality({i \in 1..Len(wires) : wires[i] = <<c, m>>})
TSendRet == Step("send_ret") /\ UNCHANGED <<avars, scen, bag, pnote, limited, gone, got, relAt, backlog, subv>> /\ wires' = <<>> /\ blocked' = FALSE /\ call' = <<>> /\
   IF stype \notin {"PUB", "XPUB"} \/ call = <<>> THEN UNCHANGED <<pubs, maxn>> /\ NoFlag
   ELSE LET m == call[1] first == call[2]
            healthy == (conn \ gone) \ limited IN
        /\ pubs' = Append(pubs, <<m, {c \in conn : MayMatch(c, first)}>>)
        /\ UNCHANGED maxn
        /\ IF E.res # "ok" /\ gone = {} THEN Flag("C12/publish-failed")
           ELSE IF \E c \in healthy : MustMatch(c, first) /\ Copies(c, m) = 0 THEN Flag(IF limited # {} \/ gone # {} THEN "C12/healthy-subscriber-missed" ELSE "C11/missed-despite-match")
           ELSE IF \E c \in conn : ~MayMatch(c, first) /\ Copies(c, m) > 0 THEN Flag("C11/delivered-without-match")
           ELSE IF \E c \in conn : Copies(c, m) > 1 THEN Flag("C11/delivered-twice")
           ELSE NoFlag

\* ---- C12 at the end: per subscriber, what arrived is an order-preserving subsequence of the matching publishes ----
RECURSIVE IsSubseq(_, _, _)
IsSubseq(g, ps, c) == IF g = <<>> THEN TRUE
                      ELSE IF ps = <<>> THEN FALSE
                      ELSE IF Head(ps)[1] = Head(g) /\ c \in Head(ps)[2] THEN IsSubseq(Tail(g), Tail(ps), c)
                      ELSE IsSubseq(g, Tail(ps), c)
\* ---- C13 ----------------------------------------------------------------------------------------------
RECURSIVE CountT(_, _)
CountT(s, t) == IF s = <<>> THEN 0
                ELSE LET c == CountT(SubSeq(s, 1, Len(s) - 1), t) e == s[Len(s)] IN
                     IF Tail(e) # t THEN c ELSE IF e[1] = 1 THEN c + 1 ELSE IF e[1] = 0 THEN (IF c > 0 THEN c - 1 ELSE 0) ELSE c
Mentioned(c) == {Tail(Get(told, c, <<>>)[i]) : i \in 1..Len(Get(told, c, <<>>))}
ActiveAt(c) == {t \in Mentioned(c) : CountT(Get(told, c, <<>>), t) > 0}
\* the socket's own subscription state is only visible through the API history; two readings are accepted, as long as ALL peers
\* agree with the same one: a set (subscribe twice = once) or a counter per topic (each unsubscribe cancels one subscribe)
TSubCall == Step("sub_call") /\ UNCHANGED <<avars, scen, pvars, call, wires, blocked, told, held, pendingJoin>> /\ NoFlag
   /\ want' = (IF E.on THEN want \cup {E.tb} ELSE want \ {E.tb})
   /\ wantN' = Put(wantN, E.tb, IF E.on THEN Get(wantN, E.tb, 0) + 1 ELSE IF Get(wantN, E.tb, 0) > 0 THEN Get(wantN, E.tb, 0) - 1 ELSE 0)
   /\ racy' = racy \cup held \cup pendingJoin          \* a join is in flight while the set changes
TSubPending == Step("sub_pending") /\ UNCHANGED <<avars, scen, pvars, call, wires, blocked, subv>> /\ NoFlag

TQuiescent == Step("quiescent") /\ UNCHANGED <<avars, scen, pvars, call, wires, blocked, subv>> /\
   IF stype = "SUB" THEN
      (IF Fld(E, "pending", "none") # "none" \/ pendingJoin # {} THEN NoFlag
       ELSE LET wantCount == {t \in DOMAIN wantN : wantN[t] > 0}
                badSet == {c \in conn \ gone : ActiveAt(c) # want}
                badCnt == {c \in conn \ gone : ActiveAt(c) # wantCount}
                badp == IF badCnt = {} THEN {} ELSE badSet IN
            IF badp = {} THEN NoFlag
            ELSE IF badp \subseteq racy THEN Flag("C13/peer-disagrees:subscribe-during-join-window")
            ELSE IF gone # {} THEN Flag("C13/one-failure-blocked-others")
            ELSE Flag("C13/peer-disagrees"))
   ELSE IF stype \in {"PUB", "XPUB"} /\ Fld(E, "final", FALSE) THEN
      (IF \E c \in conn \ gone : ~IsSubseq(Get(got, c, <<>>), pubs, c) THEN Flag("C12/torn-reordered-or-duplicated")
       ELSE IF \E c \in conn \ gone : Has(E, "partials") /\ FALSE THEN NoFlag
       ELSE NoFlag)
   ELSE NoFlag
TPanic == Step("panic") /\ UNCHANGED <<avars, scen, pvars, call, wires, blocked, subv>> /\ Flag(IF stype = "SUB" THEN "C13/panic-on-failing-peer" ELSE "C03/panic")
THarness == Step("harness_error") /\ UNCHANGED <<avars, scen, pvars, call, wires, blocked, subv>> /\ Flag("harness/script-error")
Ignored == {"observed", "peer_part", "peer_bytes", "released", "recv_call", "recv_pending", "recv_dropped", "send_dropped", "end", "sub_ret", "sub_dropped"}
TIgnore == l <= NRec /\ E.ev \in Ignored /\ l' = l + 1 /\ UNCHANGED <<avars, scen, pvars, call, wires, blocked, subv>> /\ NoFlag
\* a message that was accepted for a subscriber (the publishes of the scenario stay far below the high-water mark, so nothing may
\* have been dropped) has not reached it although its connection takes every write again and the socket is at rest
TExpectWire == Step("expect_wire") /\ UNCHANGED <<avars, scen, pvars, call, wires, blocked, subv>> /\
   IF E.ok THEN NoFlag ELSE Flag("C12/accepted-message-withheld:" \o stype)
TNext == TExpectWire \/ TReset \/ TAttachCall \/ TAttachPending \/ TAttachRet \/ TWrote \/ TCut \/ TPipe \/ TRecvRet \/ TSendCall \/ TSendPending \/ TWire \/ TSendRet
         \/ TSubCall \/ TSubPending \/ TQuiescent \/ TPanic \/ THarness \/ TIgnore
TSpec == TInit /\ [][TNext]_tvars
Accepted == Consumed
=============================================================================
