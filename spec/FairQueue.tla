---------------------------- MODULE FairQueue ----------------------------
(* Layer B: implementation-shaped model of src/fair_queue.rs at lock granularity.

   One action per critical section of FairQueue::poll_next (L1, L2, L3), the poll of the
   checked-out stream as its own action between them (PollStream, runs with the queue lock
   released), QueueInner::insert / remove and StreamWaker::wake_by_ref as actions of "other
   threads".  reg[k] is the ticket (+1; 0 = none) of the StreamWaker the source of k currently
   holds, fire[k] says the source has decided to call it, notified is the receiver task's pending
   wake-up.  live[k] is the ticket (+1; 0 = none) of the ONE valid ready event of k (QueueInner::queued):
   a heap entry with another ticket is stale and discarded when popped; npend counts the Pending answers
   within the current call of poll_next (the call gives control back once every stream has had a turn);
   exh says the runtime's cooperative budget of the receiver task is spent: every stream then answers
   Pending after waking its own waker, until the task is polled again.  Dev is a set of named deviations: with Dev = {} the module describes the code as it is;
   each deviation is a realistic way of getting the mechanism wrong and must be caught by the
   properties below (sensitivity of the specification, see MC_FairQueue_*.cfg).              *)
EXTENDS Naturals, Sequences, FiniteSets, TLC
CONSTANTS Keys, MaxItems, MaxTicket, MaxStale, MaxExh, MaxReins, AllowRemove, Dev

VARIABLES
  heap,      \* set of <<ticket, key, n>> ready events; n disambiguates duplicates
  streams,   \* keys whose stream object is in the map
  counter,   \* ticket counter
  wslot,     \* receiver waker slot is Some
  wcur,      \* the waker in the slot belongs to the current recv future (every recv call is a new future
             \* that may be polled with a different waker; a finished or dropped call's waker is dead)
  pc,        \* "idle" | "l1" | "poll" | "l2" | "l3" | "parked"
  cur,       \* event checked out by the poller, or <<>>
  avail,     \* avail[k]: items readable now
  left,      \* left[k]: items the peer will still produce
  closed,    \* closed[k]: peer has closed (EOF once avail is drained)
  reg,       \* reg[k]: 0 = no waker registered, else ticket+1 of registered StreamWaker
  fire,      \* fire[k]: source has decided to wake its registered waker (call pending)
  notified,  \* receiver task has been woken and not yet re-polled
  joined,    \* keys ever inserted
  removed,   \* keys removed by peer_disconnected
  delivered, \* delivered[k]: count
  wait,      \* wait[k]: deliveries to others since k became ready and signalled
  stale,     \* number of stale (duplicate) wakes performed
  live,      \* live[k]: 0 = k has no valid ready event, else ticket+1 of its valid event
  npend,     \* Pending answers so far in the current call of poll_next
  exh,       \* the receiver task's cooperative budget is spent (environment)
  nexh,      \* number of budget exhaustions so far
  had,       \* had[k]: tickets of the StreamWakers k's source was ever polled with (it may keep clones of them)
  conn,      \* conn[k]: generation of the connection currently registered under key k (a reconnect under the same identity
             \* while the old connection is half-open supersedes it: QueueInner::insert with a key that is still present)
  sgen,      \* sgen[k]: generation of the stream object stored in the map under k
  cgen,      \* generation of the checked-out stream
  nreins,    \* number of superseding inserts so far
  told,      \* keys whose end the owner of the queue was told about (FairQueue::on_stream_end -> peer_disconnected)
  letgo      \* the checked-out stream was let go of meanwhile (its key removed, or a newer connection registered): it is not put back

vars == <<heap, streams, counter, wslot, wcur, pc, cur, avail, left, closed, reg, fire, notified, joined,
          removed, delivered, wait, stale, live, npend, exh, nexh, had, conn, sgen, cgen, nreins, told, letgo>>
gv == <<conn, sgen, cgen, nreins>>
xv == <<live, npend, exh, nexh, had, gv>>

\* waking the waker in the slot reaches the receiver only if it belongs to the current future
Wakes == wslot /\ wcur
HasEv(k) == IF "dup_events" \in Dev THEN \E e \in heap : e[2] = k ELSE live[k] # 0     \* k has a (valid) turn pending
MinEv == CHOOSE e \in heap : \A f \in heap : e[1] < f[1] \/ (e[1] = f[1] /\ e[3] <= f[3])
NextDup(t, k) == Cardinality({e \in heap : e[1] = t /\ e[2] = k})

Init ==
  /\ heap = {} /\ streams = {} /\ counter = 0 /\ wslot = FALSE /\ wcur = FALSE /\ pc = "idle" /\ cur = <<>>
  /\ avail = [k \in Keys |-> 0] /\ left = [k \in Keys |-> MaxItems] /\ closed = [k \in Keys |-> FALSE]
  /\ reg = [k \in Keys |-> 0] /\ fire = [k \in Keys |-> FALSE] /\ notified = FALSE /\ joined = {}
  /\ removed = {} /\ delivered = [k \in Keys |-> 0] /\ wait = [k \in Keys |-> 0] /\ stale = 0
  /\ live = [k \in Keys |-> 0] /\ npend = 0 /\ exh = FALSE /\ nexh = 0 /\ had = [k \in Keys |-> {}]
  /\ conn = [k \in Keys |-> 0] /\ sgen = [k \in Keys |-> 0] /\ cgen = 0 /\ nreins = 0 /\ told = {} /\ letgo = FALSE

\* ---- other threads ---------------------------------------------------------------------------
Insert(k) ==       \* QueueInner::insert under the lock (peer_connected)
  /\ k \notin joined /\ counter < MaxTicket
  /\ joined' = joined \cup {k}
  /\ streams' = streams \cup {k}
  /\ heap' = heap \cup {<<counter, k, 0>>}
  /\ live' = [live EXCEPT ![k] = counter + 1]                                        \* push_event
  /\ counter' = counter + 1
  /\ notified' = IF "insert_no_wake" \in Dev THEN notified ELSE (notified \/ Wakes)  \* wake_by_ref, slot kept
  /\ UNCHANGED <<wslot, pc, cur, avail, left, closed, reg, fire, removed, delivered, wait, stale, npend, exh, nexh, had, gv>>
  /\ UNCHANGED wcur
  /\ UNCHANGED told
  /\ UNCHANGED letgo

Reinsert(k) ==     \* QueueInner::insert for a key that is still registered: a newer connection supersedes the old one
  /\ nreins < MaxReins /\ k \in joined \ removed /\ counter < MaxTicket /\ ~closed[k]
  /\ nreins' = nreins + 1
  /\ conn' = [conn EXCEPT ![k] = @ + 1]
  /\ streams' = streams \cup {k} /\ sgen' = [sgen EXCEPT ![k] = conn[k] + 1]       \* HashMap::insert replaces (and drops) the old stream
  /\ avail' = [avail EXCEPT ![k] = 0]                                               \* what the old connection had not delivered is gone with it
  /\ reg' = [reg EXCEPT ![k] = 0] /\ fire' = [fire EXCEPT ![k] = FALSE]              \* so is the waker registered with its transport
  /\ IF "reinsert_no_event" \in Dev THEN UNCHANGED <<heap, live, counter>>
     ELSE heap' = heap \cup {<<counter, k, 0>>} /\ live' = [live EXCEPT ![k] = counter + 1] /\ counter' = counter + 1
  /\ notified' = (notified \/ Wakes)
  /\ wait' = [wait EXCEPT ![k] = 0]                                                 \* a new connection: its waiting starts now
  /\ UNCHANGED <<wslot, pc, cur, left, closed, joined, removed, delivered, stale, npend, exh, nexh, had, cgen>>
  /\ UNCHANGED wcur
  /\ UNCHANGED told
  /\ letgo' = (letgo \/ (cur # <<>> /\ cur[2] = k))          \* QueueInner::let_go_of_polled

Produce(k) ==      \* bytes of one more complete message arrive on k's transport
  /\ k \in joined /\ left[k] > 0 /\ ~closed[k]
  /\ left' = [left EXCEPT ![k] = @ - 1]
  /\ avail' = [avail EXCEPT ![k] = @ + 1]
  /\ fire' = [fire EXCEPT ![k] = (reg[k] # 0)]
  /\ UNCHANGED <<heap, streams, counter, wslot, pc, cur, closed, reg, notified, joined, removed, delivered, wait, stale, xv>>
  /\ UNCHANGED wcur
  /\ UNCHANGED told
  /\ UNCHANGED letgo

Close(k) ==
  /\ k \in joined /\ ~closed[k]
  /\ closed' = [closed EXCEPT ![k] = TRUE]
  /\ fire' = [fire EXCEPT ![k] = (reg[k] # 0)]
  /\ UNCHANGED <<heap, streams, counter, wslot, pc, cur, avail, left, reg, notified, joined, removed, delivered, wait, stale, xv>>
  /\ UNCHANGED wcur
  /\ UNCHANGED told
  /\ UNCHANGED letgo

\* StreamWaker::wake_by_ref with ticket t: queue the event unless k already has a valid one
WakePush(k, t) ==
  IF "dup_events" \in Dev \/ live[k] = 0
    THEN heap' = heap \cup {<<t, k, NextDup(t, k)>>} /\ live' = [live EXCEPT ![k] = t + 1]
    ELSE UNCHANGED <<heap, live>>

Fire(k) ==         \* StreamWaker::wake_by_ref, under the queue lock
  /\ fire[k] /\ reg[k] # 0
  /\ WakePush(k, reg[k] - 1)
  /\ reg' = [reg EXCEPT ![k] = 0]
  /\ fire' = [fire EXCEPT ![k] = FALSE]
  /\ notified' = (notified \/ Wakes)
  /\ wslot' = IF "waker_not_taken" \in Dev THEN wslot ELSE FALSE      \* waker.take()
  /\ UNCHANGED <<streams, counter, pc, cur, avail, left, closed, joined, removed, delivered, wait, stale, npend, exh, nexh, had, gv>>
  /\ UNCHANGED wcur
  /\ UNCHANGED told
  /\ UNCHANGED letgo

\* a source wakes an old clone of a StreamWaker again (late, duplicate or spurious wake-up: allowed by the waker
\* contract; tokio does it when readiness arrives between registering the waker and re-checking)
StaleFireT(k, t) ==
  /\ stale < MaxStale /\ k \in joined /\ t \in had[k]
  /\ WakePush(k, t)
  /\ stale' = stale + 1
  /\ notified' = (notified \/ Wakes)
  /\ wslot' = FALSE
  /\ UNCHANGED <<streams, counter, pc, cur, avail, left, closed, reg, fire, joined, removed, delivered, wait, npend, exh, nexh, had, gv>>
  /\ UNCHANGED wcur
  /\ UNCHANGED told
  /\ UNCHANGED letgo
StaleFire(k) == \E t \in had[k] : StaleFireT(k, t)

Exhaust ==         \* the receiver task's cooperative budget runs out in the middle of a call
  /\ nexh < MaxExh /\ ~exh /\ pc \in {"l1", "poll", "l3"}
  /\ exh' = TRUE /\ nexh' = nexh + 1
  /\ UNCHANGED <<heap, streams, counter, wslot, wcur, pc, cur, avail, left, closed, reg, fire, notified, joined, removed,
                 delivered, wait, stale, live, npend, had, gv>>
  /\ UNCHANGED told
  /\ UNCHANGED letgo

Remove(k) ==       \* QueueInner::remove (peer_disconnected); only while k is not checked out
  /\ AllowRemove /\ k \in streams
  /\ streams' = streams \ {k}
  /\ removed' = removed \cup {k}
  /\ UNCHANGED <<heap, counter, wslot, pc, cur, avail, left, closed, reg, fire, notified, joined, delivered, wait, stale, xv>>
  /\ UNCHANGED wcur
  /\ UNCHANGED told
  /\ letgo' = (letgo \/ (cur # <<>> /\ cur[2] = k))

\* ---- receiver task ---------------------------------------------------------------------------
Begin ==           \* application calls recv / executor re-polls after a wake
  /\ \/ pc = "idle"
     \/ pc = "parked" /\ notified
  /\ pc' = "l1" /\ notified' = FALSE
  /\ npend' = 0 /\ exh' = FALSE                     \* a new poll of the task: fresh budget
  /\ UNCHANGED <<heap, streams, counter, wslot, cur, avail, left, closed, reg, fire, joined, removed, delivered, wait, stale, live, nexh, had, gv>>
  /\ UNCHANGED wcur
  /\ UNCHANGED told
  /\ UNCHANGED letgo

Cancel ==          \* the recv future is dropped while parked (select!, timeout, proxy); the next call has a new waker
  /\ pc = "parked"
  /\ pc' = "idle" /\ wcur' = FALSE
  /\ UNCHANGED <<heap, streams, counter, wslot, cur, avail, left, closed, reg, fire, notified, joined, removed, delivered, wait, stale, xv>>
  /\ UNCHANGED told
  /\ UNCHANGED letgo

L1 ==              \* first critical section of one loop iteration (pop_event discards stale entries one by one)
  /\ pc = "l1"
  /\ wslot' = TRUE                                                   \* inner.waker = Some(cx.waker().clone())
  /\ wcur' = IF "waker_kept_if_some" \in Dev /\ wslot THEN wcur ELSE TRUE
  /\ IF heap = {}
       THEN /\ pc' = "parked" /\ UNCHANGED <<heap, streams, cur, live>>
       ELSE LET e == MinEv
                valid == "dup_events" \in Dev \/ live[e[2]] = e[1] + 1 IN
            /\ heap' = heap \ {e}
            /\ IF ~valid THEN UNCHANGED <<streams, cur, live>> /\ pc' = "l1"
               ELSE /\ live' = [live EXCEPT ![e[2]] = 0]
                    /\ IF e[2] \in streams
                         THEN /\ streams' = streams \ {e[2]} /\ cur' = e /\ pc' = "poll"
                         ELSE /\ UNCHANGED <<streams, cur>> /\ pc' = "l1"
  /\ cgen' = IF pc' = "poll" THEN sgen[cur'[2]] ELSE cgen
  /\ UNCHANGED <<counter, avail, left, closed, reg, fire, notified, joined, removed, delivered, wait, stale, npend, exh, nexh, had, conn, sgen, nreins>>
  /\ UNCHANGED told
  /\ letgo' = IF pc' = "poll" THEN FALSE ELSE letgo          \* inner.polled = Some((key, conn, false))

PollStream ==      \* stream polled outside the lock with StreamWaker(cur)
  /\ pc = "poll"
  /\ LET k == cur[2] IN
     IF cgen # conn[k]
       THEN \* the stream of a superseded connection: open and silent for ever (its transport registers the waker, nobody wakes it)
            /\ pc' = "l3" /\ UNCHANGED <<heap, live, notified, wslot, avail, reg, fire, cur>>
     ELSE IF exh
       THEN \* budget spent: the transport wakes the waker it was polled with and answers Pending
            /\ WakePush(k, cur[1])
            /\ notified' = (notified \/ Wakes)
            /\ wslot' = IF "waker_not_taken" \in Dev THEN wslot ELSE FALSE
            /\ pc' = "l3" /\ UNCHANGED <<avail, reg, fire, cur>>
       ELSE /\ UNCHANGED <<heap, live, notified, wslot>>
            /\ IF avail[k] > 0
                 THEN /\ avail' = [avail EXCEPT ![k] = @ - 1] /\ pc' = "l2" /\ UNCHANGED <<reg, fire, cur>>
                 ELSE IF closed[k]
                   THEN /\ pc' = "l1" /\ cur' = <<>> /\ UNCHANGED <<avail, reg, fire>>   \* Ready(None): drop stream, tell the owner
                   ELSE /\ reg' = [reg EXCEPT ![k] = cur[1] + 1] /\ fire' = [fire EXCEPT ![k] = FALSE]
                        /\ pc' = "l3" /\ UNCHANGED <<avail, cur>>
  /\ had' = IF MaxStale > 0 THEN [had EXCEPT ![cur[2]] = @ \cup {cur[1]}] ELSE had    \* (not tracked where no stale wake can use it)
  \* on_stream_end(key), unless a newer connection registered under the key while this stream was being polled
  /\ told' = IF pc' = "l1" /\ cgen = conn[cur[2]] /\ "end_not_reported" \notin Dev /\ cur[2] \notin streams THEN told \cup {cur[2]} ELSE told
  /\ UNCHANGED <<streams, counter, left, closed, joined, removed, delivered, wait, stale, npend, exh, nexh, gv>>
  /\ UNCHANGED wcur
  /\ UNCHANGED letgo

\* (deviation zombie_putback: the marker is ignored - a stream whose key was removed while it was out is put back, F33)
LetGo == letgo /\ "zombie_putback" \notin Dev
Signalled(k) == HasEv(k) \/ (cur # <<>> /\ cur[2] = k)

L2 ==              \* Ready(Some): re-queue with a fresh ticket, put the stream back, return the item
  /\ pc = "l2" /\ counter < MaxTicket
  /\ LET k == cur[2]
         t == IF "stale_ticket" \in Dev THEN cur[1] ELSE counter IN
     /\ heap' = heap \cup {<<t, k, NextDup(t, k)>>}
     /\ live' = [live EXCEPT ![k] = t + 1]            \* push_event: supersedes an event queued by a wake-up inside the window
     \* put_back: not if the stream was let go of while it was out (its key removed, a newer connection registered)
     /\ streams' = IF LetGo /\ "putback_overwrites" \notin Dev THEN streams ELSE streams \cup {k}
     /\ sgen' = IF (LetGo \/ k \in streams) /\ "putback_overwrites" \notin Dev THEN sgen ELSE [sgen EXCEPT ![k] = cgen]
     /\ delivered' = [delivered EXCEPT ![k] = @ + 1]
     /\ wait' = [j \in Keys |-> IF j = k THEN 0
                               ELSE IF j \in streams /\ avail[j] > 0 /\ HasEv(j) THEN wait[j] + 1 ELSE wait[j]]
  /\ counter' = counter + 1 /\ cur' = <<>> /\ pc' = "idle"
  /\ wcur' = FALSE                                   \* the call returns: its future (and waker) is finished
  /\ UNCHANGED <<wslot, avail, left, closed, reg, fire, notified, joined, removed, stale, npend, exh, nexh, had, conn, cgen, nreins>>
  /\ UNCHANGED told
  /\ letgo' = FALSE

L3 ==              \* Pending: put the stream back; continue with the next event, or yield once every stream had a turn
  /\ pc = "l3"
  /\ streams' = IF "pending_not_put_back" \in Dev \/ (LetGo /\ "putback_overwrites" \notin Dev) THEN streams ELSE streams \cup {cur[2]}
  /\ sgen' = IF "pending_not_put_back" \in Dev \/ ((LetGo \/ cur[2] \in streams) /\ "putback_overwrites" \notin Dev) THEN sgen ELSE [sgen EXCEPT ![cur[2]] = cgen]
  /\ cur' = <<>> /\ npend' = npend + 1
  /\ IF "no_yield" \notin Dev /\ npend' > Cardinality(streams')
       THEN /\ pc' = "parked" /\ notified' = (notified \/ heap # {})     \* cx.waker().wake_by_ref() if events remain; return Pending
       ELSE /\ pc' = "l1" /\ UNCHANGED notified
  /\ UNCHANGED <<heap, counter, wslot, avail, left, closed, reg, fire, joined, removed, delivered, wait, stale, live, exh, nexh, had, conn, cgen, nreins>>
  /\ UNCHANGED wcur
  /\ UNCHANGED told
  /\ letgo' = FALSE

Receiver == Begin \/ L1 \/ PollStream \/ L2 \/ L3
Other == (\E k \in Keys : Insert(k) \/ Reinsert(k) \/ Produce(k) \/ Close(k) \/ Fire(k) \/ StaleFire(k) \/ Remove(k)) \/ Exhaust
Next == Other \/ Receiver \/ Cancel

Spec == Init /\ [][Next]_vars
FairSpec == Spec /\ WF_vars(Receiver) /\ \A k \in Keys : WF_vars(Fire(k))

\* ---- properties (layer A seen through the model's own variables) ---------------------------
TypeOK ==
  /\ streams \subseteq Keys /\ joined \subseteq Keys /\ counter \in 0..MaxTicket
  /\ pc \in {"idle", "l1", "poll", "l2", "l3", "parked"}
  /\ (cur = <<>>) <=> (pc \notin {"poll", "l2", "l3"})

\* C06(i): a parked, un-notified receiver is never left with readable data whose wake-up is not on its way
NoLostWakeup ==
  (pc = "parked" /\ ~notified) =>
     \A k \in joined : (k \in streams /\ (avail[k] > 0 \/ closed[k])) => (reg[k] # 0 /\ fire[k])

\* C05: a stream that can still yield messages is never dropped from the queue - and it is the stream of the connection
\* that is registered under the key NOW (a superseded connection's stream must not take the newer one's place)
NoStreamLost ==
  \A k \in joined \ removed : (~closed[k] \/ avail[k] > 0) =>
       ((k \in streams /\ sgen[k] = conn[k]) \/ (cur # <<>> /\ cur[2] = k /\ cgen = conn[k]))

\* a readable stream in the map always has a way to be noticed: a VALID event or a registered waker
ReadyHasSignal == \A k \in joined : (k \in streams /\ avail[k] > 0) => (HasEv(k) \/ reg[k] # 0)

\* one valid event per key: live[k] names an entry that is really in the heap
LiveInHeap == \A k \in Keys : live[k] # 0 => \E e \in heap : e[2] = k /\ e[1] = live[k] - 1

\* an orderly close produces no error item: the owner of the queue learns of it through the hook, for every connection
\* whose stream the queue has dropped because it ended
EndReported == \A k \in joined \ removed :
   (closed[k] /\ avail[k] = 0 /\ k \notin streams /\ ~(cur # <<>> /\ cur[2] = k)) => k \in told

\* a key that was removed has no stream in the map (the checked-out stream of a removed key is not put back)
RemovedStaysOut == \A k \in removed : k \notin streams
\* one call of poll_next polls at most (streams + 1) streams that answer Pending before it gives control back
YieldBound == npend <= Cardinality(Keys) + 1

\* C06(ii): bounded bypass; n-1 is what this mechanism achieves (4(n+1) is what layer A demands of the code);
\* the bound does NOT grow with the number of late / duplicate wake-ups
FairBoundTight == \A k \in Keys : wait[k] <= Cardinality(Keys) - 1
FairBound == \A k \in Keys : wait[k] <= 2 * Cardinality(Keys)
NpendCap == npend <= Cardinality(Keys) + 4       \* state constraint for the configuration with deviation no_yield

\* liveness (under FairSpec, configurations without Remove): every readable message is eventually delivered
Live == \A k \in Keys : [](avail[k] > 0 => <>(avail[k] = 0))

\* reachability companions (must be VIOLATED = reachable): guard against vacuity
Reach_ParkedWithDataInFlight == ~(pc = "parked" /\ ~notified /\ \E k \in joined : avail[k] > 0)
Reach_WindowInsert == ~(pc = "poll" /\ Cardinality(joined) = Cardinality(Keys) /\ \E k \in Keys : delivered[k] > 0)
Reach_Bypass == \A k \in Keys : wait[k] < Cardinality(Keys) - 1
=============================================================================
