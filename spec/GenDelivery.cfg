SPECIFICATION Spec
CONSTANTS
 Conns = {1, 2}
 MaxMsgs = 2
 Depth = 5
INVARIANT Emit
CHECK_DEADLOCK FALSE
