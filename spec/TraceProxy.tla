----------------------------- MODULE TraceProxy -----------------------------
(* Layer-A monitor for C15: a running proxy(ROUTER frontend, DEALER backend, capture).  Scripted
   clients write requests on frontend connections, scripted workers write ROUTER-addressed replies on
   backend connections.  What leaves on the backend side must be, per client, that client's requests
   in order, each exactly once, prefixed by the identity the frontend registered the client under and
   otherwise verbatim; what leaves on a client's connection must be the replies addressed to that
   client, per worker in order, verbatim minus the address frame; every forwarded message has exactly
   one capture copy (the message as the proxy received it); at the final quiescent point nothing
   that arrived is still unforwarded.  Which worker serves a request is not demanded.           *)
EXTENDS DeliveryAbs, TraceCommon
VARIABLES l, scen, viol, dead, side, fwd, caps, hascap, ended
tvars == <<avars, l, scen, viol, dead, side, fwd, caps, hascap, ended>>
E == Rec[l]
Flag(code) == Report(scen, code, l) /\ viol' = viol \cup {code} /\ dead' = TRUE
NoFlag == UNCHANGED <<viol, dead>>
Step(evname) == l <= NRec /\ E.ev = evname /\ l' = l + 1
TInit == AInit /\ l = 1 /\ scen = 0 /\ viol = {} /\ dead = FALSE /\ side = EmptyMap /\ fwd = <<>> /\ caps = <<>> /\ hascap = FALSE /\ ended = FALSE
TReset == Step("reset") /\ scen' = E.scen /\ stype' = E.sock /\ conn' = {} /\ ident' = <<>> /\ pend' = <<>> /\ cut' = <<>> /\ credit' = 0
          /\ dead' = FALSE /\ side' = EmptyMap /\ fwd' = <<>> /\ caps' = <<>> /\ hascap' = (Fld(E, "capture", "none") \in {"PUSH", "PUB", "DEALER"}) /\ ended' = FALSE /\ UNCHANGED viol
TSide == Step("side") /\ side' = Put(side, E.c, E.side) /\ UNCHANGED <<avars, scen, fwd, caps, hascap, ended>> /\ NoFlag
TAttachRet == Step("attach_ret") /\ UNCHANGED <<scen, side, fwd, caps, hascap, ended>> /\ NoFlag /\ (IF E.res = "ok" THEN DoAdmit(E.c, E.id) ELSE UNCHANGED avars)
TWrote == Step("peer_wrote") /\ UNCHANGED <<scen, side, fwd, caps, hascap, ended>> /\ NoFlag /\ DoWrote(E.c, E.m)
\* a client or worker closed its connection (a client that restarts comes back on a new connection under its identity)
TCut == Step("peer_cut") /\ UNCHANGED <<scen, side, fwd, caps, hascap, ended>> /\ NoFlag /\ DoCut(E.c, "eof")
Fronts == {c \in conn : Get(side, c, "front") = "front"}
Backs == {c \in conn : Get(side, c, "front") = "back"}
\* a complete message left the proxy on connection E.c
TWire == Step("wire") /\ UNCHANGED <<stype, conn, ident, cut, credit, scen, side, hascap, ended>> /\
   IF E.k # "msg" \/ dead THEN UNCHANGED <<pend, fwd, caps>> /\ NoFlag
   ELSE IF Get(side, E.c, "front") = "cap" THEN caps' = Append(caps, E.m) /\ UNCHANGED <<pend, fwd>> /\ NoFlag
   ELSE IF Get(side, E.c, "front") = "back" THEN
        \* must be <<identity of client f>> \o head request of f
        LET src == {f \in Fronts : Pend(f) # <<>> /\ <<ident[f]>> \o Head(Pend(f)) = E.m}
            later == {f \in Fronts : \E i \in 2..Len(Pend(f)) : <<ident[f]>> \o Pend(f)[i] = E.m} IN
        IF src # {} THEN LET f == CHOOSE x \in src : TRUE IN
             pend' = SetPend(f, Tail(Pend(f))) /\ fwd' = Append(fwd, E.m) /\ UNCHANGED caps /\ NoFlag
        ELSE IF later # {} THEN UNCHANGED <<pend, fwd, caps>> /\ Flag("C15/out-of-order")
        ELSE IF \E i \in 1..Len(fwd) : fwd[i] = E.m THEN UNCHANGED <<pend, fwd, caps>> /\ Flag("C15/duplicated")
        ELSE UNCHANGED <<pend, fwd, caps>> /\ Flag("C15/modified")
   ELSE \* a client's connection: must be Tail of the head reply of some worker, addressed to this client
        LET src == {b \in Backs : Pend(b) # <<>> /\ Len(Head(Pend(b))) >= 2 /\ Tail(Head(Pend(b))) = E.m /\ Head(Pend(b))[1] = ident[E.c]}
            wrongclient == {b \in Backs : Pend(b) # <<>> /\ Len(Head(Pend(b))) >= 2 /\ Tail(Head(Pend(b))) = E.m /\ Head(Pend(b))[1] # ident[E.c]}
            later == {b \in Backs : \E i \in 2..Len(Pend(b)) : Len(Pend(b)[i]) >= 2 /\ Tail(Pend(b)[i]) = E.m}
            \* the client of that identity is on a newer connection now: its replies belong there, not on the one it closed
            stale == E.c \in DOMAIN cut /\ \E n \in Fronts : n # E.c /\ ident[n] = ident[E.c] /\ n \notin DOMAIN cut IN
        IF stale THEN UNCHANGED <<pend, fwd, caps>> /\ Flag("C15/reply-on-stale-connection")
        ELSE IF src # {} THEN LET b == CHOOSE x \in src : TRUE IN
             pend' = SetPend(b, Tail(Pend(b))) /\ fwd' = Append(fwd, Head(Pend(b))) /\ UNCHANGED caps /\ NoFlag
        ELSE IF wrongclient # {} THEN UNCHANGED <<pend, fwd, caps>> /\ Flag("C15/foreign-reply")
        ELSE IF later # {} THEN UNCHANGED <<pend, fwd, caps>> /\ Flag("C15/out-of-order")
        ELSE IF \E i \in 1..Len(fwd) : Len(fwd[i]) >= 2 /\ Tail(fwd[i]) = E.m THEN UNCHANGED <<pend, fwd, caps>> /\ Flag("C15/duplicated")
        ELSE UNCHANGED <<pend, fwd, caps>> /\ Flag("C15/modified")
Count(s, x) == Cardinality({i \in 1..Len(s) : s[i] = x})
TQuiescent == Step("quiescent") /\ UNCHANGED <<avars, scen, side, fwd, caps, hascap, ended>> /\
   IF dead \/ ended THEN NoFlag
   ELSE IF \E c \in Fronts \cup Backs : Pend(c) # <<>> /\ c \notin DOMAIN cut THEN Flag("C15/lost")      \* arrived, proxy idle, never forwarded
   ELSE IF hascap /\ \E i \in 1..Len(fwd) : Count(caps, fwd[i]) # Count(fwd, fwd[i]) THEN Flag("C15/capture-missing")
   ELSE IF hascap /\ Len(caps) # Len(fwd) THEN Flag("C15/capture-missing")
   ELSE NoFlag
\* proxy() returns on any error of either socket.  The statement quantifies over arrivals, shapes and interleavings, not over
\* peers that go away: once a peer has closed its connection (a reply to it may be in flight and unroutable) the end of the
\* proxy is not judged (recorded in DESIGN.md as an observation outside the statements)
TEnded == Step("proxy_ended") /\ UNCHANGED <<avars, scen, side, fwd, caps, hascap>> /\ ended' = TRUE /\
   IF dead \/ DOMAIN cut # {} THEN NoFlag ELSE Flag("C15/proxy-stopped")
TPanic == Step("panic") /\ UNCHANGED <<avars, scen, side, fwd, caps, hascap, ended>> /\ Flag("C03/panic")
Ignored == {"observed", "peer_part", "peer_bytes", "attach_call", "attach_pending", "released", "proxy_pending", "end", "pipe"}
TIgnore == l <= NRec /\ E.ev \in Ignored /\ l' = l + 1 /\ UNCHANGED <<avars, scen, side, fwd, caps, hascap, ended>> /\ NoFlag
TNext == TReset \/ TSide \/ TAttachRet \/ TWrote \/ TCut \/ TWire \/ TQuiescent \/ TEnded \/ TPanic \/ TIgnore
TSpec == TInit /\ [][TNext]_tvars
Accepted == Consumed
=============================================================================
