SPECIFICATION Spec
CONSTANTS
 MaxMsgs = 3
 Dev = {"relay_skips_capture"}
INVARIANTS Verbatim NothingLost Captured
CHECK_DEADLOCK FALSE
