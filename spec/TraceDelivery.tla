--------------------------- MODULE TraceDelivery ---------------------------
(* Total monitor binding DeliveryAbs (layer A) to executions recorded by the script engine
   (harness/src/engine.rs) on real sockets: C05 (exactly once, whole, in order), C06 at socket
   level (a pending recv with a message available at a quiescent point), C14 (abandoned recv
   calls change nothing), C02 hand-over (message written together with the handshake).         *)
EXTENDS DeliveryAbs, TraceCommon

VARIABLES l, scen, poisoned, viol, garbage, swait, fair
tvars == <<avars, l, scen, poisoned, viol, garbage, swait, fair>>
\* swait[c]: deliveries from other connections while c had a complete, well-formed message available (C06, second half, at
\* socket level); judged only where "written" means "readable now" (fair = TRUE: the in-memory pipes; not the real-transport
\* floods, where a message is logged before its bytes are sent)

E == Rec[l]
Flag(code) == Report(scen, code, l) /\ viol' = viol \cup {code}
NoFlag == UNCHANGED viol
Step(evname) == l <= NRec /\ E.ev = evname /\ l' = l + 1
Skip(evname) == Step(evname) /\ UNCHANGED <<avars, scen, poisoned, garbage, swait, fair>> /\ NoFlag

TInit == AInit /\ l = 1 /\ scen = 0 /\ poisoned = {} /\ viol = {} /\ garbage = {} /\ swait = EmptyMap /\ fair = FALSE

TReset == Step("reset") /\ scen' = E.scen /\ stype' = E.sock /\ conn' = {} /\ ident' = <<>> /\ pend' = <<>>
          /\ cut' = <<>> /\ credit' = 0 /\ poisoned' = {} /\ garbage' = {} /\ swait' = EmptyMap /\ fair' = Fld(E, "fair", FALSE) /\ NoFlag

TAttachRet == Step("attach_ret") /\ UNCHANGED <<scen, poisoned, garbage, swait, fair>> /\ NoFlag /\
   IF E.res = "ok" THEN DoAdmit(E.c, E.id) ELSE UNCHANGED avars

TWrote == Step("peer_wrote") /\ UNCHANGED <<scen, poisoned, garbage, swait, fair>> /\ NoFlag /\ DoWrote(E.c, E.m)

\* raw bytes that are not a message the monitor understands: anything may follow on that connection
TBytes == Step("peer_bytes") /\ garbage' = garbage \cup {E.c} /\ credit' = credit + 1
          /\ UNCHANGED <<stype, conn, ident, pend, cut, scen, poisoned, swait, fair>> /\ NoFlag

TCut == Step("peer_cut") /\ UNCHANGED <<scen, poisoned, garbage, swait, fair>> /\ NoFlag /\
        DoCut(E.c, IF E.kind = "eof" THEN "eof" ELSE "err")

Live(S) == S \ (poisoned \cup garbage)

\* malformed head messages may also be dropped silently: they never block what is behind them
RECURSIVE DropMalformed(_, _)
DropMalformed(t, s) == IF s # <<>> /\ ~WellFormed(t, Head(s)) THEN DropMalformed(t, Tail(s)) ELSE s

Ready(j) == j \in Live(conn) /\ j \notin DOMAIN cut /\ DropMalformed(stype, Pend(j)) # <<>>
Served(c) == [j \in conn |-> IF j = c THEN 0 ELSE IF Ready(j) THEN Get(swait, j, 0) + 1 ELSE Get(swait, j, 0)]
StarveBound == 4 * (Cardinality(conn) + 1)

TRecvRet == Step("recv_ret") /\ UNCHANGED <<scen, garbage, fair>> /\
   IF E.res = "ok" THEN
      LET src == Sources(E.m) IN
      IF src # {} THEN LET c == CHOOSE x \in src : TRUE IN
           DoConsume(c) /\ UNCHANGED poisoned /\ swait' = Served(c)
           /\ IF fair /\ garbage = {} /\ \E j \in conn : Served(c)[j] > StarveBound THEN Flag("C06/starved") ELSE NoFlag
      ELSE IF garbage # {} THEN UNCHANGED <<avars, poisoned, swait>> /\ NoFlag        \* cannot be judged: a peer sent raw bytes
      ELSE IF Later(E.m) # {} THEN UNCHANGED <<avars, swait>> /\ poisoned' = poisoned \cup Later(E.m) /\ Flag("C05/reordered-or-skipped")
      ELSE IF Len(E.m) = 0 THEN UNCHANGED <<avars, poisoned, swait>> /\ Flag("C07/rep-zero-frame-message")
      ELSE UNCHANGED <<avars, poisoned, swait>> /\ Flag("C05/duplicate-or-invented-or-modified")
   ELSE IF E.res = "err" THEN
      UNCHANGED swait /\
      (IF Live(Malformed) # {} THEN LET c == CHOOSE x \in Live(Malformed) : TRUE IN DoConsume(c) /\ UNCHANGED poisoned /\ NoFlag
      ELSE IF credit > 0 THEN DoSpendCredit /\ UNCHANGED poisoned /\ NoFlag
      ELSE IF DOMAIN cut # {} THEN UNCHANGED <<avars, poisoned>> /\ Flag("C16/error-repeated")   \* more than one error for one fault
      ELSE UNCHANGED <<avars, poisoned>> /\ Flag("C05/unattributable-error"))
   ELSE UNCHANGED <<avars, poisoned, swait>> /\ Flag("C03/panic-in-recv")

TQuiescent == Step("quiescent") /\ UNCHANGED <<avars, scen, poisoned, garbage, swait, fair>> /\
   IF Fld(E, "pending", "none") = "recv" /\ stype # "REQ"
      /\ \E c \in Live(Owing) : DropMalformed(stype, Pend(c)) # <<>>
   THEN Report(scen, "C06/parked-with-message-available", l) /\ Report(scen, "C05/message-never-delivered", l)
        /\ viol' = viol \cup {"C06/parked-with-message-available", "C05/message-never-delivered"}
   ELSE NoFlag

TExpectWire == Step("expect_wire") /\ UNCHANGED <<avars, scen, poisoned, garbage, swait, fair>> /\
   IF E.ok THEN NoFlag ELSE Flag("C03/other-connection-disturbed")
TPanic == Step("panic") /\ UNCHANGED <<avars, scen, poisoned, garbage, swait, fair>> /\ Flag("C03/panic")
THarness == Step("harness_error") /\ UNCHANGED <<avars, scen, poisoned, garbage, swait, fair>> /\ Flag("harness/script-error")

Ignored == {"observed", "peer_part", "attach_call", "attach_pending", "wire", "released", "recv_call", "recv_pending", "recv_dropped", "send_call",
            "send_ret", "send_pending", "send_dropped", "sub_call", "sub_ret", "sub_pending", "sub_dropped", "pipe", "end"}
TIgnore == l <= NRec /\ E.ev \in Ignored /\ l' = l + 1 /\ UNCHANGED <<avars, scen, poisoned, garbage, swait, fair>> /\ NoFlag

TNext == TExpectWire \/ TReset \/ TAttachRet \/ TWrote \/ TBytes \/ TCut \/ TRecvRet \/ TQuiescent \/ TPanic \/ THarness \/ TIgnore
TSpec == TInit /\ [][TNext]_tvars
Accepted == Consumed
=============================================================================
