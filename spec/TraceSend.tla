------------------------------ MODULE TraceSend ------------------------------
(* Layer-A monitor for the sending side: C09 (ROUTER labels inbound messages with the true sender
   and routes by first frame) and C10 (PUSH / DEALER / REQ write each message completely to exactly
   one peer, in rotation; with no peer the message is handed back).  Observables: API results and,
   per connection, the complete messages that appeared on the wire between a send's call and its
   return (wire events), plus bytes of an incomplete message left at return (partials).          *)
EXTENDS DeliveryAbs, TraceCommon

VARIABLES l, scen, viol, dead, call, wires, hits, gone, joined, jwait, owed, orphans
\* orphans: messages of sends the application abandoned while they were pending: their bytes may still leave later (nothing is demanded of a
\* send that did not return), on the connection they had been started on
tvars == <<avars, l, scen, viol, dead, call, wires, hits, gone, joined, jwait, owed, orphans>>
svars == <<hits, gone, joined, jwait, owed>>

E == Rec[l]
Flag(code) == Report(scen, code, l) /\ viol' = viol \cup {code} /\ dead' = TRUE
NoFlag == UNCHANGED <<viol, dead>>
Step(evname) == l <= NRec /\ E.ev = evname /\ l' = l + 1

TInit == AInit /\ l = 1 /\ scen = 0 /\ viol = {} /\ dead = FALSE /\ call = <<>> /\ wires = <<>> /\ hits = <<>> /\ gone = {}
         /\ joined = {} /\ jwait = EmptyMap /\ owed = FALSE /\ orphans = {}

TReset == Step("reset") /\ scen' = E.scen /\ stype' = E.sock /\ conn' = {} /\ ident' = <<>> /\ pend' = <<>> /\ cut' = <<>> /\ credit' = 0
          /\ dead' = FALSE /\ call' = <<>> /\ wires' = <<>> /\ hits' = <<>> /\ gone' = {} /\ joined' = {} /\ jwait' = EmptyMap /\ owed' = FALSE /\ orphans' = {} /\ UNCHANGED viol
\* a peer joins: the rotation window restarts; the joiner must be served within the next n successes
TAttachRet == Step("attach_ret") /\ UNCHANGED <<scen, call, wires, owed, orphans>> /\
   IF E.res = "ok" THEN DoAdmit(E.c, E.id) /\ hits' = <<>> /\ joined' = joined \cup {E.c} /\ jwait' = Put(jwait, E.c, 0)
        \* a connection that announces the identity of an older one supersedes it: the older one no longer is "the peer of that identity"
        /\ gone' = (IF Fld(E, "auto", FALSE) THEN gone ELSE gone \cup {c \in conn : ident[c] = E.id})
        \* an identity the socket assigned itself must not collide with that of another connected peer
        /\ IF Fld(E, "auto", FALSE) /\ \E c \in conn \ gone : ident[c] = E.id THEN Flag("C09/auto-identity-not-unique")
           \* a peer that announced a (non-empty) identity is registered - labelled and addressed - under exactly that identity, whatever its socket type
           ELSE IF ~Fld(E, "auto", FALSE) /\ Has(E, "announced") /\ E.announced # E.id THEN Flag("C09/announced-identity-not-used")
           ELSE NoFlag
   ELSE UNCHANGED <<avars, hits, joined, jwait, gone>> /\ NoFlag
TWrote == Step("peer_wrote") /\ UNCHANGED <<scen, call, wires, svars, orphans>> /\ NoFlag /\ DoWrote(E.c, E.m)
\* the peer's end is closed / its pipe broken: from now on it counts as departed (sends to it may fail or succeed
\* until the socket has noticed; rotation is not judged across such a change)
RestartWindows == jwait' = [x \in DOMAIN jwait |-> IF jwait[x] >= 0 THEN 0 ELSE jwait[x]]
TCut == Step("peer_cut") /\ UNCHANGED <<scen, call, wires, joined, owed, orphans>> /\ NoFlag /\ DoCut(E.c, "err") /\ hits' = <<>> /\ gone' = gone \cup {E.c} /\ RestartWindows
TPipe == Step("pipe") /\ UNCHANGED <<scen, call, wires, joined, owed, orphans>> /\ NoFlag /\
   IF E.what = "break" THEN DoCut(E.c, "err") /\ hits' = <<>> /\ gone' = gone \cup {E.c} /\ RestartWindows ELSE UNCHANGED <<avars, hits, gone, jwait>>
OnWire(m) == IF stype = "REQ" THEN <<Empty>> \o m ELSE m
TWire == Step("wire") /\ UNCHANGED <<avars, scen, call, svars>> /\ NoFlag /\
   IF E.k = "msg" /\ E.m \in orphans /\ (call = <<>> \/ E.m # OnWire(call[2])) THEN orphans' = orphans \ {E.m} /\ UNCHANGED wires
   ELSE orphans' = orphans /\ wires' = (IF E.k = "msg" THEN Append(wires, <<E.c, E.m>>) ELSE wires)
\* the application gave up on a pending send: whatever of it leaves later is nobody's result
TSendDropped == Step("send_dropped") /\ UNCHANGED <<avars, scen, svars>> /\ NoFlag /\ wires' = <<>> /\
   (IF call # <<>> THEN orphans' = orphans \cup {OnWire(call[2])} ELSE UNCHANGED orphans) /\ call' = <<>>
TSendCall == Step("send_call") /\ UNCHANGED <<avars, scen, svars, orphans>> /\ NoFlag /\ call' = <<"send", E.m>> /\ wires' = <<>>

Alive == conn \ gone
NoPartials == ~Has(E, "partials")
Returned == Fld(E, "returned", <<"absent">>)
Distinct(s) == \A i, j \in 1..Len(s) : i # j => s[i] # s[j]
LastN(s, n) == SubSeq(s, Len(s) - n + 1, Len(s))

\* ---- C09: ROUTER send ------------------------------------------------------------------------
Target(id) == {c \in conn : ident[c] = id}
RouterSendRet ==
  LET m == call[2] id == m[1] rest == Tail(m)
      tg == IF Target(id) \ gone # {} THEN Target(id) \ gone ELSE Target(id) IN      \* the connected peer of that identity, if any
  IF Len(m) < 2 THEN NoFlag                                    \* single-frame sends are outside the statement
  ELSE IF E.res = "ok" THEN
     (IF tg = {} THEN Flag("C09/send-unknown-succeeded")
      ELSE IF Len(wires) = 0 /\ tg \subseteq gone THEN NoFlag    \* written into a connection that is already closing: not judged
      ELSE IF Len(wires) = 0 \/ ~NoPartials THEN Flag("C09/send-misrouted")
      ELSE IF Len(wires) > 1 THEN Flag("C09/send-leaked")
      ELSE IF wires[1][1] \notin tg THEN Flag("C09/send-misrouted")
      ELSE IF wires[1][2] # rest THEN Flag("C09/send-frames-modified")
      ELSE NoFlag)
  ELSE IF E.res = "err" THEN
     (IF wires # <<>> \/ (~NoPartials /\ tg \cap Alive = {}) THEN Flag("C09/send-unknown-wrote-bytes")
      ELSE IF tg \cap Alive # {} THEN Flag("C09/send-known-failed")
      ELSE NoFlag)
  ELSE Flag("C03/panic")

\* ---- C10: round-robin senders ---------------------------------------------------------------
RRSendRet ==
  LET m == call[2] IN
  IF E.res = "ok" THEN
     IF stype = "REQ" /\ owed THEN UNCHANGED svars /\ Flag("C08/out-of-turn-accepted")
     ELSE IF conn = {} THEN UNCHANGED svars /\ Flag("C10/no-peer-succeeded")
     ELSE IF Len(wires) = 0 \/ ~NoPartials THEN UNCHANGED svars /\ Flag("C10/success-not-complete-on-one-peer")
     ELSE IF Len(wires) > 1 THEN UNCHANGED svars /\ Flag("C10/wrote-to-several")
     ELSE IF wires[1][2] # OnWire(m) THEN UNCHANGED svars /\ Flag("C10/success-not-complete-on-one-peer")
     ELSE LET c == wires[1][1]
              h == Append(hits, c)
              n == Cardinality(Alive)
              jw == [x \in DOMAIN jwait |-> IF x = c THEN 0 - 1 ELSE IF jwait[x] >= 0 THEN jwait[x] + 1 ELSE jwait[x]] IN
          /\ hits' = h /\ jwait' = jw /\ owed' = (stype = "REQ") /\ UNCHANGED <<gone, joined>>
          \* (hits restarts whenever a peer joins, is superseded, closes or breaks: the window is a stretch with a stable set; a
          \* connection that has gone but whose end the socket has not noticed yet may still take turns: it only adds distinct targets)
          /\ IF n >= 1 /\ Len(h) >= 2 /\ ~Distinct(LastN(h, IF Len(h) < n THEN Len(h) ELSE n)) THEN Flag("C10/rotation-repeat-within-n")
             ELSE IF \E x \in DOMAIN jw : x \in Alive /\ jw[x] > Cardinality(conn) THEN Flag("C10/joiner-never-served")
             ELSE NoFlag
  ELSE IF E.res = "err" THEN
     (IF conn = {} THEN
         (IF wires # <<>> \/ ~NoPartials THEN Flag("C10/no-peer-wrote-bytes")
          ELSE IF Returned # m THEN Flag("C10/no-peer-message-not-returned")
          ELSE NoFlag)
      ELSE IF stype = "REQ" /\ owed THEN
         (IF wires # <<>> THEN Flag("C08/refused-call-wrote-bytes") ELSE IF Returned # m THEN Flag("C08/refused-call-lost-message") ELSE NoFlag)
      \* a message without frames cannot be put on the wire: refusing it is right, provided nothing was written
      ELSE IF Len(m) = 0 THEN (IF wires # <<>> \/ ~NoPartials THEN Flag("C10/refused-send-wrote-bytes") ELSE NoFlag)
      ELSE IF gone = {} /\ DOMAIN cut = {} THEN Flag("C10/send-failed-with-healthy-peers")
      \* "not connected to peers" although a peer whose connection is fine is registered
      ELSE IF Alive # {} /\ Returned # <<"absent">> /\ Fld(E, "err", "") = "ReturnToSender:Not connected to peers. Unable to send messages"
           THEN Flag("C10/no-peer-error-with-connected-peers")
      ELSE NoFlag) /\ hits' = <<>> /\ UNCHANGED <<gone, joined, jwait, owed>>
  ELSE UNCHANGED svars /\ Flag("C10/send-panicked")      \* neither a success nor a failure

TSendRet == Step("send_ret") /\ UNCHANGED <<avars, scen, orphans>> /\ call' = <<>> /\ wires' = <<>> /\
   IF dead \/ call = <<>> THEN UNCHANGED svars /\ NoFlag
   ELSE IF stype = "ROUTER" THEN UNCHANGED svars /\ RouterSendRet
   ELSE RRSendRet

\* ---- C09: ROUTER recv labels ------------------------------------------------------------------
TRecvRet == Step("recv_ret") /\ UNCHANGED <<scen, call, wires, hits, gone, joined, jwait, orphans>> /\
   IF dead \/ E.res # "ok" THEN UNCHANGED <<avars, owed>> /\ NoFlag
   ELSE IF stype = "ROUTER" THEN
      LET body == Tail(E.m)
          from == {c \in conn : Pend(c) # <<>> /\ Head(Pend(c)) = body} IN
      UNCHANGED owed /\
      IF Len(E.m) = 0 THEN UNCHANGED avars /\ Flag("C09/recv-frames-modified")
      ELSE IF from # {} THEN
           (IF \E c \in from : ident[c] = E.m[1] THEN DoConsume(CHOOSE c \in from : ident[c] = E.m[1]) /\ NoFlag
            ELSE UNCHANGED avars /\ Flag("C09/recv-label-not-sender"))
      ELSE IF \E c \in conn : ident[c] = E.m[1] THEN UNCHANGED avars /\ Flag("C09/recv-frames-modified")
      ELSE UNCHANGED avars /\ Flag("C09/recv-label-not-sender")
   ELSE IF stype = "REQ" THEN UNCHANGED avars /\ owed' = FALSE /\ NoFlag
   ELSE UNCHANGED <<avars, owed>> /\ NoFlag
\* a send that panics is neither a success nor a failure that hands the message back
TPanic == Step("panic") /\ UNCHANGED <<avars, scen, call, wires, svars, orphans>> /\ Flag(IF call # <<>> /\ stype # "ROUTER" THEN "C10/send-panicked" ELSE "C03/panic")
THarness == Step("harness_error") /\ UNCHANGED <<avars, scen, call, wires, svars, orphans>> /\ Flag("harness/script-error")
Ignored == {"observed", "peer_part", "peer_bytes", "attach_call", "attach_pending", "released", "recv_call", "recv_pending", "recv_dropped", "send_pending",
            "quiescent", "end", "expect_wire", "sub_call", "sub_ret"}
TIgnore == l <= NRec /\ E.ev \in Ignored /\ l' = l + 1 /\ UNCHANGED <<avars, scen, call, wires, svars, orphans>> /\ NoFlag
TNext == TReset \/ TAttachRet \/ TWrote \/ TCut \/ TPipe \/ TWire \/ TSendCall \/ TSendDropped \/ TSendRet \/ TRecvRet \/ TPanic \/ THarness \/ TIgnore
TSpec == TInit /\ [][TNext]_tvars
Accepted == Consumed
=============================================================================
