SPECIFICATION Spec
CONSTANTS
 Alphabet = {58, 47, 91, 93, 46, 48, 49, 57, 97, 10, 233, 43, 32, 54, 1637}
 N = 3
INVARIANTS Total Emit
CHECK_DEADLOCK FALSE
