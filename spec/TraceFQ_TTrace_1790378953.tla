---- MODULE TraceFQ_TTrace_1790378953 ----
EXTENDS Sequences, TLCExt, Toolbox, TraceFQ, Naturals, TLC

_expression ==
    LET TraceFQ_TEExpression == INSTANCE TraceFQ_TEExpression
    IN TraceFQ_TEExpression!expression
----

_trace ==
    LET TraceFQ_TETrace == INSTANCE TraceFQ_TETrace
    IN TraceFQ_TETrace!trace
----

_inv ==
    ~(
        TLCGet("level") = Len(_TETrace)
        /\
        sig = ({"a", "b", "c"})
        /\
        wait = ()
        /\
        prod = ()
        /\
        viol = ()
        /\
        taken = ([c |-> 1])
        /\
        deliv = ()
        /\
        l = (9)
        /\
        scen = ()
        /\
        live = ({"a", "b", "c"})
    )
----

_init ==
    /\ prod = _TETrace[1].prod
    /\ deliv = _TETrace[1].deliv
    /\ viol = _TETrace[1].viol
    /\ l = _TETrace[1].l
    /\ sig = _TETrace[1].sig
    /\ wait = _TETrace[1].wait
    /\ taken = _TETrace[1].taken
    /\ live = _TETrace[1].live
    /\ scen = _TETrace[1].scen
----

_next ==
    /\ \E i,j \in DOMAIN _TETrace:
        /\ \/ /\ j = i + 1
              /\ i = TLCGet("level")
        /\ prod  = _TETrace[i].prod
        /\ prod' = _TETrace[j].prod
        /\ deliv  = _TETrace[i].deliv
        /\ deliv' = _TETrace[j].deliv
        /\ viol  = _TETrace[i].viol
        /\ viol' = _TETrace[j].viol
        /\ l  = _TETrace[i].l
        /\ l' = _TETrace[j].l
        /\ sig  = _TETrace[i].sig
        /\ sig' = _TETrace[j].sig
        /\ wait  = _TETrace[i].wait
        /\ wait' = _TETrace[j].wait
        /\ taken  = _TETrace[i].taken
        /\ taken' = _TETrace[j].taken
        /\ live  = _TETrace[i].live
        /\ live' = _TETrace[j].live
        /\ scen  = _TETrace[i].scen
        /\ scen' = _TETrace[j].scen

\* Uncomment the ASSUME below to write the states of the error trace
\* to the given file in Json format. Note that you can pass any tuple
\* to `JsonSerialize`. For example, a sub-sequence of _TETrace.
    \* ASSUME
    \*     LET J == INSTANCE Json
    \*         IN J!JsonSerialize("TraceFQ_TTrace_1790378953.json", _TETrace)

=============================================================================

 Note that you can extract this module `TraceFQ_TEExpression`
  to a dedicated file to reuse `expression` (the module in the 
  dedicated `TraceFQ_TEExpression.tla` file takes precedence 
  over the module `TraceFQ_TEExpression` below).

---- MODULE TraceFQ_TEExpression ----
EXTENDS Sequences, TLCExt, Toolbox, TraceFQ, Naturals, TLC

expression == 
    [
        \* To hide variables of the `TraceFQ` spec from the error trace,
        \* remove the variables below.  The trace will be written in the order
        \* of the fields of this record.
        prod |-> prod
        ,deliv |-> deliv
        ,viol |-> viol
        ,l |-> l
        ,sig |-> sig
        ,wait |-> wait
        ,taken |-> taken
        ,live |-> live
        ,scen |-> scen
        
        \* Put additional constant-, state-, and action-level expressions here:
        \* ,_stateNumber |-> _TEPosition
        \* ,_prodUnchanged |-> prod = prod'
        
        \* Format the `prod` variable as Json value.
        \* ,_prodJson |->
        \*     LET J == INSTANCE Json
        \*     IN J!ToJson(prod)
        
        \* Lastly, you may build expressions over arbitrary sets of states by
        \* leveraging the _TETrace operator.  For example, this is how to
        \* count the number of times a spec variable changed up to the current
        \* state in the trace.
        \* ,_prodModCount |->
        \*     LET F[s \in DOMAIN _TETrace] ==
        \*         IF s = 1 THEN 0
        \*         ELSE IF _TETrace[s].prod # _TETrace[s-1].prod
        \*             THEN 1 + F[s-1] ELSE F[s-1]
        \*     IN F[_TEPosition - 1]
    ]

=============================================================================



Parsing and semantic processing can take forever if the trace below is long.
 In this case, it is advised to uncomment the module below to deserialize the
 trace from a generated binary file.

\*
\*---- MODULE TraceFQ_TETrace ----
\*EXTENDS IOUtils, TraceFQ, TLC
\*
\*trace == IODeserialize("TraceFQ_TTrace_1790378953.bin", TRUE)
\*
\*=============================================================================
\*

---- MODULE TraceFQ_TETrace ----
EXTENDS TraceFQ, TLC

trace == 
    <<
    ([sig |-> {},wait |-> <<>>,prod |-> <<>>,viol |-> {},taken |-> <<>>,deliv |-> <<>>,l |-> 1,scen |-> 0,live |-> {}]),
    ([sig |-> {},wait |-> <<>>,prod |-> <<>>,viol |-> {},taken |-> <<>>,deliv |-> <<>>,l |-> 2,scen |-> 1,live |-> {}]),
    ([sig |-> {"c"},wait |-> <<>>,prod |-> <<>>,viol |-> {},taken |-> <<>>,deliv |-> <<>>,l |-> 3,scen |-> 1,live |-> {"c"}]),
    ([sig |-> {"c"},wait |-> <<>>,prod |-> <<>>,viol |-> {},taken |-> <<>>,deliv |-> <<>>,l |-> 4,scen |-> 1,live |-> {"c"}]),
    ([sig |-> {"a", "c"},wait |-> <<>>,prod |-> <<>>,viol |-> {},taken |-> <<>>,deliv |-> <<>>,l |-> 5,scen |-> 1,live |-> {"a", "c"}]),
    ([sig |-> {"a", "b", "c"},wait |-> <<>>,prod |-> <<>>,viol |-> {},taken |-> <<>>,deliv |-> <<>>,l |-> 6,scen |-> 1,live |-> {"a", "b", "c"}]),
    ([sig |-> {"a", "b", "c"},wait |-> <<>>,prod |-> [c |-> 1],viol |-> {},taken |-> <<>>,deliv |-> <<>>,l |-> 7,scen |-> 1,live |-> {"a", "b", "c"}]),
    ([sig |-> {"a", "b", "c"},wait |-> <<>>,prod |-> [a |-> 1, c |-> 1],viol |-> {},taken |-> <<>>,deliv |-> <<>>,l |-> 8,scen |-> 1,live |-> {"a", "b", "c"}]),
    ([sig |-> {"a", "b", "c"},wait |-> ,prod |-> ,viol |-> ,taken |-> [c |-> 1],deliv |-> ,l |-> 9,scen |-> ,live |-> {"a", "b", "c"}])
    >>
----


=============================================================================

---- CONFIG TraceFQ_TTrace_1790378953 ----
CONSTANTS
    BypassSlack = 4

INVARIANT
    _inv

CHECK_DEADLOCK
    \* CHECK_DEADLOCK off because of PROPERTY or INVARIANT above.
    FALSE

INIT
    _init

NEXT
    _next

CONSTANT
    _TETrace <- _trace

ALIAS
    _expression
=============================================================================
\* Generated on Fri Sep 25 23:29:14 UTC 2026