---- MODULE RepSock_TTrace_1790383223 ----
EXTENDS Sequences, TLCExt, Toolbox, Naturals, TLC, RepSock

_expression ==
    LET RepSock_TEExpression == INSTANCE RepSock_TEExpression
    IN RepSock_TEExpression!expression
----

_trace ==
    LET RepSock_TETrace == INSTANCE RepSock_TETrace
    IN RepSock_TETrace!trace
----

_inv ==
    ~(
        TLCGet("level") = Len(_TETrace)
        /\
        cur = (1)
        /\
        acur = (0)
        /\
        ncalls = (3)
        /\
        bad = ({"C08/out-of-turn-accepted"})
        /\
        nsent = (<<1, 0, 0>>)
        /\
        inq = (<<<<>>, <<>>, <<>>>>)
        /\
        out = (<<<<1, 2>>, <<>>, <<>>>>)
    )
----

_init ==
    /\ out = _TETrace[1].out
    /\ acur = _TETrace[1].acur
    /\ bad = _TETrace[1].bad
    /\ nsent = _TETrace[1].nsent
    /\ ncalls = _TETrace[1].ncalls
    /\ cur = _TETrace[1].cur
    /\ inq = _TETrace[1].inq
----

_next ==
    /\ \E i,j \in DOMAIN _TETrace:
        /\ \/ /\ j = i + 1
              /\ i = TLCGet("level")
        /\ out  = _TETrace[i].out
        /\ out' = _TETrace[j].out
        /\ acur  = _TETrace[i].acur
        /\ acur' = _TETrace[j].acur
        /\ bad  = _TETrace[i].bad
        /\ bad' = _TETrace[j].bad
        /\ nsent  = _TETrace[i].nsent
        /\ nsent' = _TETrace[j].nsent
        /\ ncalls  = _TETrace[i].ncalls
        /\ ncalls' = _TETrace[j].ncalls
        /\ cur  = _TETrace[i].cur
        /\ cur' = _TETrace[j].cur
        /\ inq  = _TETrace[i].inq
        /\ inq' = _TETrace[j].inq

\* Uncomment the ASSUME below to write the states of the error trace
\* to the given file in Json format. Note that you can pass any tuple
\* to `JsonSerialize`. For example, a sub-sequence of _TETrace.
    \* ASSUME
    \*     LET J == INSTANCE Json
    \*         IN J!JsonSerialize("RepSock_TTrace_1790383223.json", _TETrace)

=============================================================================

 Note that you can extract this module `RepSock_TEExpression`
  to a dedicated file to reuse `expression` (the module in the 
  dedicated `RepSock_TEExpression.tla` file takes precedence 
  over the module `RepSock_TEExpression` below).

---- MODULE RepSock_TEExpression ----
EXTENDS Sequences, TLCExt, Toolbox, Naturals, TLC, RepSock

expression == 
    [
        \* To hide variables of the `RepSock` spec from the error trace,
        \* remove the variables below.  The trace will be written in the order
        \* of the fields of this record.
        out |-> out
        ,acur |-> acur
        ,bad |-> bad
        ,nsent |-> nsent
        ,ncalls |-> ncalls
        ,cur |-> cur
        ,inq |-> inq
        
        \* Put additional constant-, state-, and action-level expressions here:
        \* ,_stateNumber |-> _TEPosition
        \* ,_outUnchanged |-> out = out'
        
        \* Format the `out` variable as Json value.
        \* ,_outJson |->
        \*     LET J == INSTANCE Json
        \*     IN J!ToJson(out)
        
        \* Lastly, you may build expressions over arbitrary sets of states by
        \* leveraging the _TETrace operator.  For example, this is how to
        \* count the number of times a spec variable changed up to the current
        \* state in the trace.
        \* ,_outModCount |->
        \*     LET F[s \in DOMAIN _TETrace] ==
        \*         IF s = 1 THEN 0
        \*         ELSE IF _TETrace[s].out # _TETrace[s-1].out
        \*             THEN 1 + F[s-1] ELSE F[s-1]
        \*     IN F[_TEPosition - 1]
    ]

=============================================================================



Parsing and semantic processing can take forever if the trace below is long.
 In this case, it is advised to uncomment the module below to deserialize the
 trace from a generated binary file.

\*
\*---- MODULE RepSock_TETrace ----
\*EXTENDS IOUtils, TLC, RepSock
\*
\*trace == IODeserialize("RepSock_TTrace_1790383223.bin", TRUE)
\*
\*=============================================================================
\*

---- MODULE RepSock_TETrace ----
EXTENDS TLC, RepSock

trace == 
    <<
    ([cur |-> 0,acur |-> 0,ncalls |-> 0,bad |-> {},nsent |-> <<0, 0, 0>>,inq |-> <<<<>>, <<>>, <<>>>>,out |-> <<<<>>, <<>>, <<>>>>]),
    ([cur |-> 0,acur |-> 0,ncalls |-> 0,bad |-> {},nsent |-> <<1, 0, 0>>,inq |-> <<<<1>>, <<>>, <<>>>>,out |-> <<<<>>, <<>>, <<>>>>]),
    ([cur |-> 1,acur |-> 1,ncalls |-> 1,bad |-> {},nsent |-> <<1, 0, 0>>,inq |-> <<<<>>, <<>>, <<>>>>,out |-> <<<<>>, <<>>, <<>>>>]),
    ([cur |-> 1,acur |-> 0,ncalls |-> 2,bad |-> {},nsent |-> <<1, 0, 0>>,inq |-> <<<<>>, <<>>, <<>>>>,out |-> <<<<1>>, <<>>, <<>>>>]),
    ([cur |-> 1,acur |-> 0,ncalls |-> 3,bad |-> {"C08/out-of-turn-accepted"},nsent |-> <<1, 0, 0>>,inq |-> <<<<>>, <<>>, <<>>>>,out |-> <<<<1, 2>>, <<>>, <<>>>>])
    >>
----


=============================================================================

---- CONFIG RepSock_TTrace_1790383223 ----
CONSTANTS
    Clients = { 1 , 2 , 3 }
    MaxReq = 2
    Dev = { "send_keeps_requester" }

INVARIANT
    _inv

CHECK_DEADLOCK
    \* CHECK_DEADLOCK off because of PROPERTY or INVARIANT above.
    FALSE

INIT
    _init

NEXT
    _next

CONSTANT
    _TETrace <- _trace

ALIAS
    _expression
=============================================================================
\* Generated on Sat Sep 26 00:40:24 UTC 2026