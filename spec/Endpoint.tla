------------------------------ MODULE Endpoint ------------------------------
(* Layer A for C19: an independent reference reading of endpoint strings, over sequences of Unicode
   code points.  Class(s) is one of
     "reject"                          not an endpoint
     "ipc"                             ipc://<non-empty path>
     "tcp-v4" | "tcp-v6" | "tcp-domain"   tcp://host:port with that kind of host
     "tcp-v6-or-domain"                host is colon/hex/dot text the statement does not pin down
                                       (IPv6 with embedded IPv4 and near-misses): either reading accepted
     "any"                             strings containing a line break: not judged (totality only)
   Port(s) is the port value for tcp classes.  Nothing here looks at how the code parses.         *)
EXTENDS Naturals, Sequences, FiniteSets, TLC
Sub(s, a, b) == IF a > b \/ a > Len(s) THEN <<>> ELSE SubSeq(s, a, IF b > Len(s) THEN Len(s) ELSE b)     \* total
Colon == 58  Slash == 47  LB == 91  RB == 93  Dot == 46  NL == 10  CR == 13
IsLower(c) == c \in 97..122
IsDigit(c) == c \in 48..57
IsHex(c) == IsDigit(c) \/ c \in 97..102 \/ c \in 65..70
All(s, P(_)) == \A i \in 1..Len(s) : P(s[i])
RECURSIVE LowerPrefix(_, _)
LowerPrefix(s, i) == IF i <= Len(s) /\ IsLower(s[i]) THEN LowerPrefix(s, i + 1) ELSE i - 1
LastIndex(s, c) == LET I == {i \in 1..Len(s) : s[i] = c} IN IF I = {} THEN 0 ELSE CHOOSE i \in I : \A j \in I : i >= j
RECURSIVE Split(_, _)     \* split s on character c into a sequence of (possibly empty) parts
Split(s, c) == LET I == {i \in 1..Len(s) : s[i] = c} IN
               IF I = {} THEN <<s>> ELSE LET i == CHOOSE x \in I : \A y \in I : x <= y IN <<Sub(s, 1, i - 1)>> \o Split(Sub(s, i + 1, Len(s)), c)
RECURSIVE StripZeros(_)
StripZeros(d) == IF Len(d) > 1 /\ d[1] = 48 THEN StripZeros(Tail(d)) ELSE d
RECURSIVE Dec(_, _)
Dec(d, acc) == IF d = <<>> THEN acc ELSE Dec(Tail(d), acc * 10 + (d[1] - 48))
\* port text -> value, or 70000 when it is not a decimal number in 0..65535
PortVal(p) == IF p = <<>> \/ ~All(p, IsDigit) THEN 70000
              ELSE LET z == StripZeros(p) IN IF Len(z) > 5 THEN 70000 ELSE LET v == Dec(z, 0) IN IF v > 65535 THEN 70000 ELSE v
\* strict dotted quad: four parts of 1-3 digits, no leading zero, each <= 255
Octet(p) == Len(p) \in 1..3 /\ All(p, IsDigit) /\ (Len(p) = 1 \/ p[1] # 48) /\ Dec(p, 0) <= 255
IsV4(h) == LET ps == Split(h, Dot) IN Len(ps) = 4 /\ \A i \in 1..4 : Octet(ps[i])
\* RFC 4291 text forms without embedded IPv4: 8 groups, or one "::" standing for at least one group
Group(g) == Len(g) \in 1..4 /\ All(g, IsHex)
Groups(t) == IF t = <<>> THEN <<>> ELSE Split(t, Colon)           \* groups of a "::"-free side
SideOK(t) == t = <<>> \/ \A i \in 1..Len(Groups(t)) : Group(Groups(t)[i])
DoubleColonAt(u) == {i \in 1..(Len(u) - 1) : u[i] = Colon /\ u[i + 1] = Colon}
SureV6(u) == /\ u # <<>> /\ All(u, LAMBDA c : IsHex(c) \/ c = Colon)
             /\ LET D == DoubleColonAt(u) IN
                IF D = {} THEN Len(Split(u, Colon)) = 8 /\ SideOK(u)
                ELSE /\ Cardinality(D) = 1
                     /\ LET i == CHOOSE x \in D : TRUE
                            a == Sub(u, 1, i - 1) b == Sub(u, i + 2, Len(u)) IN
                        SideOK(a) /\ SideOK(b) /\ Len(Groups(a)) + Len(Groups(b)) <= 7
\* text that only an IPv6-with-embedded-IPv4 (or a malformed literal) could be: not pinned down by the statement
MaybeV6(u) == u # <<>> /\ All(u, LAMBDA c : IsHex(c) \/ c = Colon \/ c = Dot) /\ \E i \in 1..Len(u) : u[i] = Colon
Unbracket(h) == IF Len(h) >= 4 /\ h[1] = LB /\ h[Len(h)] = RB THEN Sub(h, 2, Len(h) - 1) ELSE h
HostClass(h) == IF IsV4(h) THEN "tcp-v4"
                ELSE IF SureV6(Unbracket(h)) THEN "tcp-v6"
                ELSE IF MaybeV6(Unbracket(h)) THEN "tcp-v6-or-domain"
                ELSE "tcp-domain"
TcpParts(addr) == LET j == LastIndex(addr, Colon) IN [host |-> Sub(addr, 1, j - 1), port |-> Sub(addr, j + 1, Len(addr)), j |-> j]
TcpClass(addr) == LET p == TcpParts(addr) IN
                  IF p.j = 0 \/ p.host = <<>> \/ PortVal(p.port) = 70000 THEN "reject" ELSE HostClass(p.host)
Class(s) == LET k == LowerPrefix(s, 1)
                addr == Sub(s, k + 4, Len(s)) IN
            IF \E i \in 1..Len(s) : s[i] \in {NL, CR} THEN "any"
            ELSE IF k = 0 \/ Sub(s, k + 1, k + 3) # <<Colon, Slash, Slash>> \/ addr = <<>> THEN "reject"
            ELSE IF Sub(s, 1, k) = <<116, 99, 112>> THEN TcpClass(addr)
            ELSE IF Sub(s, 1, k) = <<105, 112, 99>> THEN "ipc"
            ELSE "reject"
Port(s) == LET k == LowerPrefix(s, 1) IN PortVal(TcpParts(Sub(s, k + 4, Len(s))).port)
=============================================================================
