SPECIFICATION Spec
CONSTANTS
 Eps = {1, 2}
 Conns = {1, 2, 3}
 Dev = {"unbind_forgets_to_stop"}
INVARIANTS BindSetExact FileIffListening ClosedMeansGone AcceptNeverBlocked
CHECK_DEADLOCK FALSE
