SPECIFICATION Spec
CONSTANTS
 Peers = {1, 2}
 Topics = {"a", "b"}
 MaxCalls = 4
 Dev = {}
INVARIANT AllPeersAgree
CHECK_DEADLOCK FALSE
