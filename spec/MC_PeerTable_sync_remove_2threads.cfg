SPECIFICATION Spec
CONSTANTS
 Hs = {h1, h2}
 Threads = 2
 Pinned = FALSE
 Dev = {"held", "sync_remove"}
INVARIANTS NeverStuck
PROPERTY Terminates
CHECK_DEADLOCK FALSE
