SPECIFICATION Spec
CONSTANTS
 Hs = {h1, h2}
 Threads = 2
 Dev = {"sync_remove"}
INVARIANTS NeverStuck
PROPERTY Terminates
CHECK_DEADLOCK FALSE
