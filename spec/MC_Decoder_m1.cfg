SPECIFICATION Spec
CONSTANTS
 Streams <- StreamsDef
 Dev = {"reset_need_on_short"}
INVARIANTS ItemsIndependent StateIndependent
CHECK_DEADLOCK FALSE
