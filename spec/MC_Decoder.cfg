SPECIFICATION Spec
CONSTANTS
 Streams <- StreamsDef
 Dev = {}
INVARIANTS ItemsIndependent StateIndependent MatchesReference NoError EmitVecs
CHECK_DEADLOCK FALSE
