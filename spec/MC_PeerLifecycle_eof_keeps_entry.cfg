SPECIFICATION Spec
CONSTANTS
 Peers = {1, 2}
 MaxOps = 5
 Dev = {"eof_keeps_entry"}
INVARIANTS Released AtMostOneError NothingRoutedToObserved
CHECK_DEADLOCK FALSE
