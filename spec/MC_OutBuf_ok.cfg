SPECIFICATION Spec
CONSTANTS
 HWM = 8
 Sizes = {1, 4, 7, 8, 9}
 MaxPub = 5
 MaxCredit = 12
 Dev = {}
INVARIANTS TapWellFormed Bounded NothingLost
CHECK_DEADLOCK FALSE
