------------------------------- MODULE GenSeq -------------------------------
(* Generic exhaustive enumerator of call / event sequences: every sequence of length Depth over the
   alphabet Ops (one state per distinct history), printed as a script skeleton.  Used where the
   quantifier of a property is "all histories up to length n" (C08, C10, C11, C13, C14): the harness
   makes each skeleton concrete, runs it on the real socket, and the recorded trace is judged by the
   layer-A monitor of that property.  NoRepeat lists ops that are pointless twice in a row.      *)
EXTENDS Naturals, Sequences, TLC, Json
CONSTANTS Ops, Depth, NoRepeat
VARIABLE hist
Init == hist = <<>>
Next == Len(hist) < Depth /\ \E o \in Ops : (IF hist = <<>> \/ o \notin NoRepeat THEN TRUE ELSE hist[Len(hist)] # o) /\ hist' = Append(hist, o)
Spec == Init /\ [][Next]_hist
Emit == Len(hist) = Depth => PrintT(<<"SEQ", ToJson(hist)>>)
=============================================================================
