SPECIFICATION Spec
CONSTANTS
 Keys = {a, b}
 MaxItems = 2
 MaxTicket = 8
 MaxStale = 0
 MaxExh = 0
 AllowRemove = FALSE
 Dev = {"pending_not_put_back"}
INVARIANTS NoStreamLost
CHECK_DEADLOCK FALSE
