SPECIFICATION Spec
CONSTANTS
 Keys = {a, b}
 MaxItems = 1
 MaxTicket = 8
 MaxStale = 0
 MaxExh = 0
 MaxReins = 1
 AllowRemove = TRUE
 Dev = {}
INVARIANTS RemovedStaysOut TypeOK NoLostWakeup NoStreamLost ReadyHasSignal FairBoundTight LiveInHeap YieldBound EndReported
CHECK_DEADLOCK FALSE
