---------------------------- MODULE TraceCommon ----------------------------
(* Shared plumbing of the trace-validation ("total monitor") specifications.

   A recorded execution of the real code is an ndjson file (one event per line, shared
   vocabulary, see DESIGN.md 4.4) named by the environment variable TRACE.  A monitor consumes
   exactly one line per step (variable l), matches it to the layer-A action of that name, and
   either applies the action's effect (all guards hold) or reports the code of the first guard
   that failed:  <<"VIOL", scenario, code, line>>.  Monitors are total: they never block on an
   event, so one rejected step does not hide the rest of the trace.  Acceptance = the whole file
   was consumed (postcondition prints <<"CONSUMED", n, total>>).                               *)
EXTENDS Naturals, Sequences, FiniteSets, TLC, Json, IOUtils

Rec == ndJsonDeserialize(IOEnv.TRACE)
NRec == Len(Rec)

Has(r, f) == f \in DOMAIN r
Fld(r, f, d) == IF f \in DOMAIN r THEN r[f] ELSE d

\* finite maps with default
Get(f, k, d) == IF k \in DOMAIN f THEN f[k] ELSE d
Put(f, k, v) == [x \in (DOMAIN f) \cup {k} |-> IF x = k THEN v ELSE f[x]]
Del(f, k) == [x \in (DOMAIN f) \ {k} |-> f[x]]
EmptyMap == [x \in {} |-> 0]

IsPrefixSeq(p, s) == Len(p) <= Len(s) /\ \A i \in 1..Len(p) : p[i] = s[i]
SeqToSet(s) == {s[i] : i \in 1..Len(s)}

Report(scen, code, line) == PrintT(<<"VIOL", scen, code, line>>)

Consumed == PrintT(<<"CONSUMED", TLCGet("stats").diameter - 1, NRec>>)
=============================================================================
