SPECIFICATION Spec
CONSTANTS
 HWM = 8
 Sizes = {1, 4, 7, 8, 9}
 MaxPub = 3
 MaxCredit = 12
 Dev = {"no_flusher"}
INVARIANTS NoWithheld
CHECK_DEADLOCK FALSE
