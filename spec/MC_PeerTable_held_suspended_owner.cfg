SPECIFICATION Spec
CONSTANTS
 Hs = {h1, h2}
 Threads = 1
 Pinned = FALSE
 Dev = {"held"}
INVARIANTS NoSuspendedOwner
CHECK_DEADLOCK FALSE
