SPECIFICATION Spec
CONSTANTS
 Keys = {a, b}
 MaxItems = 4
 MaxTicket = 12
 MaxStale = 2
 MaxExh = 0
 MaxReins = 0
 AllowRemove = FALSE
 Dev = {"dup_events"}
INVARIANTS FairBoundTight
CHECK_DEADLOCK FALSE
