SPECIFICATION Spec
CONSTANTS
 Peers = {1, 2}
 MaxCalls = 6
 Dev = {"send_ignores_marker"}
INVARIANTS Refines MarkerMirrorsOwed
CHECK_DEADLOCK FALSE
