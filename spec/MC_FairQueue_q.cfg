SPECIFICATION Spec
CONSTANTS
 Keys = {a, b}
 MaxItems = 2
 MaxTicket = 8
 MaxStale = 1
 MaxExh = 1
 MaxReins = 0
 AllowRemove = FALSE
 Dev = {}
INVARIANTS TypeOK NoLostWakeup NoStreamLost ReadyHasSignal FairBoundTight LiveInHeap YieldBound EndReported
CHECK_DEADLOCK FALSE
