SPECIFICATION Spec
CONSTANTS
 Keys = {a, b}
 MaxItems = 2
 MaxTicket = 8
 MaxStale = 1
 AllowRemove = TRUE
 Dev = {}
INVARIANTS TypeOK NoLostWakeup NoStreamLost ReadyHasSignal FairBoundTight
CHECK_DEADLOCK FALSE
