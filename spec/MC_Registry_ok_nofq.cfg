SPECIFICATION Spec
CONSTANTS
 Conns = {1, 2, 3}
 HasRot = TRUE
 HasFQ = FALSE
 Dev = {}
INVARIANTS Agreement HeldIsWhole NotLost
CHECK_DEADLOCK FALSE
