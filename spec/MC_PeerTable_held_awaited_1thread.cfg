SPECIFICATION Spec
CONSTANTS
 Hs = {h1, h2}
 Threads = 1
 Dev = {"held"}
INVARIANTS NeverStuck
PROPERTY Terminates
CHECK_DEADLOCK FALSE
