---------------------------- MODULE PeerLifecycle ----------------------------
(* C16, layers A and B: what a socket holds for each peer and how it reacts when that peer's
   connection ends.  Per peer p the socket may hold: entry[p] (peer-table entry = write half, rotation
   id), stream[p] (read half in the fair queue).  The connection can end by orderly close (eof),
   by a read error, or a write can fail.  The socket meets the end either in recv (the fair queue
   polls the stream) or in send (a write to the entry fails).
   Layer A (invariants over observable facts): once the socket has OBSERVED the end of p (obs[p]),
   at the next quiescent point it holds nothing for p; it reports at most one recv error per peer;
   it routes no send to p after observing.
   Dev names how the code deviated / deviates:
     "eof_keeps_entry"       the fair queue drops a stream that returned None but nobody tells the
                             backend (OPEN finding F15/F16, known_findings.json)
     "error_stream_requeued" recv returns the error but the stream stays queued (SUB, REP before c61a4e4;
                             DEALER before d2e3387): the same error again on every recv
     "send_error_keeps_peer" a failed write is returned but the peer is kept (ROUTER/REP/SUB before 571d421,
                             REQ before af1c330, PUB/XPUB before 9d0b88a)
   With Dev = {} the model is the behaviour the property demands and satisfies the invariants.      *)
EXTENDS Naturals, FiniteSets, TLC
CONSTANTS Peers, MaxOps, Dev
VARIABLES entry, stream, ended, obs, errs, routed, nops
vars == <<entry, stream, ended, obs, errs, routed, nops>>
Init == entry = Peers /\ stream = Peers /\ ended = [p \in Peers |-> "no"] /\ obs = {} /\ errs = [p \in Peers |-> 0]
        /\ routed = {} /\ nops = 0
\* the peer's connection ends
End(p, how) == ended[p] = "no" /\ ended' = [ended EXCEPT ![p] = how] /\ UNCHANGED <<entry, stream, obs, errs, routed, nops>>
Forget(p) == entry' = entry \ {p} /\ stream' = stream \ {p}
\* recv polls p's stream and meets the end
RecvMeets(p) ==
  /\ nops < MaxOps /\ nops' = nops + 1 /\ p \in stream /\ ended[p] # "no"
  /\ obs' = obs \cup {p} /\ UNCHANGED <<ended, routed>>
  /\ IF ended[p] = "eof"
       THEN /\ UNCHANGED errs
            /\ IF "eof_keeps_entry" \in Dev THEN stream' = stream \ {p} /\ UNCHANGED entry ELSE Forget(p)
       ELSE /\ errs' = [errs EXCEPT ![p] = @ + 1]
            /\ IF "error_stream_requeued" \in Dev THEN UNCHANGED <<entry, stream>> ELSE Forget(p)
\* a send is routed to p
SendTo(p) ==
  /\ nops < MaxOps /\ nops' = nops + 1 /\ p \in entry
  /\ routed' = (IF p \in obs THEN routed \cup {p} ELSE routed)
  /\ IF ended[p] \in {"err", "eof-then-werr"}
       THEN /\ obs' = obs \cup {p}                      \* the write fails: observed
            /\ (IF "send_error_keeps_peer" \in Dev THEN UNCHANGED <<entry, stream>> ELSE Forget(p))
       ELSE UNCHANGED <<obs, entry, stream>>
  /\ UNCHANGED <<ended, errs>>
Next == \E p \in Peers : RecvMeets(p) \/ SendTo(p) \/ \E h \in {"eof", "err", "eof-then-werr"} : End(p, h)
Spec == Init /\ [][Next]_vars
\* ---- layer A ----
Released == \A p \in obs : p \notin entry /\ p \notin stream
AtMostOneError == \A p \in Peers : errs[p] <= 1
NothingRoutedToObserved == routed = {}
=============================================================================
