SPECIFICATION Spec
CONSTANTS
 Keys = {a, b}
 MaxItems = 2
 MaxTicket = 8
 MaxStale = 0
 MaxExh = 0
 MaxReins = 2
 AllowRemove = FALSE
 Dev = {}
INVARIANTS TypeOK NoLostWakeup NoStreamLost ReadyHasSignal FairBoundTight LiveInHeap YieldBound EndReported
CHECK_DEADLOCK FALSE
