------------------------------ MODULE TraceFQ ------------------------------
(* Layer A for the fair queue seen from outside (C05 exactly-once/in-order, C06 no lost wake-up,
   bounded bypass), as a total monitor over traces recorded while replaying behaviours on the real
   queue (harness/src/fq.rs).  Observables only: what the scripted sources produced and handed out,
   which wake-ups they delivered, what poll_next returned, whether the receiver's waker was woken.

   Events: reset | ins k | prod k | close k | fire k | rm k | spoll k res | poll woken parked |
           ret res [k seq] | cancel | idle parked woken | exhaust | livelock k polls
   fire may carry stale=TRUE (the source woke an old clone of a waker: wakers may be woken spuriously, by
   anyone, any number of times - tokio does it when readiness arrives between registration and re-check);
   spoll pending may carry selfwake=TRUE (the stream woke its own waker before answering Pending, which is
   how a runtime's cooperative budget makes a task yield).  Neither widens the bypass bound.      *)
EXTENDS TraceCommon
CONSTANT BypassSlack      \* layer-A bypass bound is BypassSlack * (number of live peers + 1)

VARIABLES l, scen, prod, taken, deliv, live, sig, wait, viol
tvars == <<l, scen, prod, taken, deliv, live, sig, wait, viol>>

E == Rec[l]
Flag(code) == Report(scen, code, l) /\ viol' = viol \cup {code}
Flag2(c1, c2) == Report(scen, c1, l) /\ Report(scen, c2, l) /\ viol' = viol \cup {c1, c2}
NoFlag == UNCHANGED viol

TInit == l = 1 /\ scen = 0 /\ prod = EmptyMap /\ taken = EmptyMap /\ deliv = EmptyMap
         /\ live = {} /\ sig = {} /\ wait = EmptyMap /\ viol = {}

Readable(k) == Get(prod, k, 0) > Get(taken, k, 0)
Bound == BypassSlack * (Cardinality(live) + 1)

Step(evname) == l <= NRec /\ E.ev = evname /\ l' = l + 1

TReset == Step("reset") /\ scen' = E.scen /\ prod' = EmptyMap /\ taken' = EmptyMap /\ deliv' = EmptyMap
          /\ live' = {} /\ sig' = {} /\ wait' = EmptyMap /\ NoFlag
TIns == Step("ins") /\ live' = live \cup {E.k} /\ sig' = sig \cup {E.k}       \* insert signals the queue
        /\ UNCHANGED <<scen, prod, taken, deliv, wait>> /\ NoFlag
\* a new connection under a key that is still queued: it supersedes the old one; what the old one had not handed out is gone
TReins == Step("reins") /\ live' = live \cup {E.k} /\ sig' = sig \cup {E.k} /\ prod' = Put(prod, E.k, Get(taken, E.k, 0))
          /\ UNCHANGED <<scen, taken, deliv, wait>> /\ NoFlag
TSpollOld == Step("spoll_old") /\ UNCHANGED <<scen, prod, taken, deliv, live, sig, wait>> /\ NoFlag
TProd == Step("prod") /\ prod' = Put(prod, E.k, Get(prod, E.k, 0) + 1)
         /\ UNCHANGED <<scen, taken, deliv, live, sig, wait>> /\ NoFlag
TClose == Step("close") /\ UNCHANGED <<scen, prod, taken, deliv, live, sig, wait>> /\ NoFlag
TFire == Step("fire") /\ sig' = sig \cup {E.k} /\ UNCHANGED <<scen, prod, taken, deliv, live, wait>> /\ NoFlag
TRm == Step("rm") /\ live' = live \ {E.k} /\ UNCHANGED <<scen, prod, taken, deliv, sig, wait>> /\ NoFlag
TSpoll == Step("spoll") /\
   (CASE E.res = "item" -> taken' = Put(taken, E.k, Get(taken, E.k, 0) + 1) /\ sig' = sig \cup {E.k} /\ UNCHANGED live
     [] E.res = "pending" -> sig' = (IF Fld(E, "selfwake", FALSE) \/ Fld(E, "deferred", FALSE) THEN sig \cup {E.k} ELSE sig \ {E.k}) /\ UNCHANGED <<taken, live>>    \* now waits for its waker (a yielding stream has already woken it; a read refused by the runtime's budget is owed a wake-up by the runtime)
     [] OTHER -> live' = live \ {E.k} /\ UNCHANGED <<taken, sig>>)             \* end of stream
   /\ UNCHANGED <<scen, prod, deliv, wait>> /\ NoFlag
TPoll == Step("poll") /\ UNCHANGED <<scen, prod, taken, deliv, live, sig, wait>> /\ NoFlag
TExhaust == Step("exhaust") /\ UNCHANGED <<scen, prod, taken, deliv, live, sig, wait>> /\ NoFlag
\* one call of poll_next polled self-waking (cooperatively yielding) streams thousands of times without returning to its caller:
\* the receiver task never yields, nothing else on its thread runs, no message is delivered
TLivelock == Step("livelock") /\ UNCHANGED <<scen, prod, taken, deliv, live, sig, wait>> /\ Flag("C06/fq-livelock-on-yielding-stream")
TCancel == Step("cancel") /\ UNCHANGED <<scen, prod, taken, deliv, live, sig, wait>> /\ NoFlag

\* every item a stream handed out during this poll must have been returned by it
Dropped(d) == \E k \in DOMAIN taken : taken[k] > Get(d, k, 0)

TRet == Step("ret") /\ UNCHANGED <<scen, prod, taken, live, sig>> /\
   IF E.res = "item" THEN
      LET k == E.k
          d == Put(deliv, k, Get(deliv, k, 0) + 1)
          w == [j \in (DOMAIN wait) \cup live |->
                  IF j = k THEN 0
                  ELSE IF j \in live /\ Readable(j) /\ j \in sig THEN Get(wait, j, 0) + 1 ELSE Get(wait, j, 0)] IN
      /\ deliv' = d /\ wait' = w
      /\ IF E.seq # Get(deliv, k, 0) + 1 THEN Flag("C05/fq-duplicated-or-reordered")
         ELSE IF E.seq > Get(taken, k, 0) THEN Flag("C05/fq-invented")
         ELSE IF Dropped(d) THEN Flag("C05/fq-item-taken-but-not-returned")
         ELSE IF \E j \in DOMAIN w : w[j] > Bound THEN Flag("C06/fq-starved")
         ELSE NoFlag
   ELSE
      /\ UNCHANGED <<deliv, wait>>
      /\ IF Dropped(deliv) THEN Flag("C05/fq-item-taken-but-not-returned") ELSE NoFlag

\* at rest, after the sources delivered every wake-up they owed
TIdle == Step("idle") /\ UNCHANGED <<scen, prod, taken, deliv, live, sig, wait>> /\
   IF E.parked /\ ~E.woken /\ \E k \in live : Readable(k) THEN Flag2("C06/fq-parked-with-message-available", "C05/fq-message-never-delivered")
   ELSE IF ~E.parked /\ \E k \in live : Readable(k) THEN NoFlag   \* receiver simply stopped polling (script end)
   ELSE NoFlag

TNext == TReset \/ TIns \/ TProd \/ TClose \/ TFire \/ TRm \/ TSpoll \/ TPoll \/ TCancel \/ TRet \/ TIdle \/ TExhaust \/ TLivelock \/ TReins \/ TSpollOld
TSpec == TInit /\ [][TNext]_tvars
Accepted == Consumed
=============================================================================
