----------------------------- MODULE TraceRace -----------------------------
(* Layer-A monitor for the multi-threaded registration races (Registry.tla on the real runtime, real
   TCP): raw connections that share an identity finish their handshakes at the same instant, or a
   peer comes back under its identity at the moment the socket notices the end of its old connection.
   Which connection of an identity the socket keeps is its choice; what it may not do:
     twin    a connection the socket has NOT closed is one it reads from: what the peer wrote on it
             is delivered (the crossed state keeps the write half of one connection and the read
             half of the other: one stays open and is never read)
     rejoin  a peer whose handshake completed is connected: a send of a round-robin sender reaches
             it ("Not connected to peers" with a peer connected is the lost rotation entry)       *)
EXTENDS TraceCommon
VARIABLES l, scen, stype, viol
tvars == <<l, scen, stype, viol>>
E == Rec[l]
Flag(code) == Report(scen, code, l) /\ viol' = viol \cup {code}
NoFlag == UNCHANGED viol
Step(evname) == l <= NRec /\ E.ev = evname /\ l' = l + 1
TInit == l = 1 /\ scen = 0 /\ stype = "?" /\ viol = {}
TReset == Step("reset") /\ scen' = E.scen /\ stype' = E.sock /\ NoFlag
TTwin == Step("twin") /\ UNCHANGED <<scen, stype>> /\
   IF E.wrote /\ ~E.closed_by_socket /\ ~E.delivered THEN Flag("C16/open-connection-never-read:" \o stype) ELSE NoFlag
TRejoin == Step("rejoin") /\ UNCHANGED <<scen, stype>> /\
   IF E.handshaken /\ ~E.served THEN Flag("C10/connected-peer-never-served:" \o stype) ELSE NoFlag
TPanic == Step("panic") /\ UNCHANGED <<scen, stype>> /\ Flag("C03/panic")
Handled == {"reset", "twin", "rejoin", "panic"}
TIgnore == l <= NRec /\ E.ev \notin Handled /\ l' = l + 1 /\ UNCHANGED <<scen, stype>> /\ NoFlag
TNext == TReset \/ TTwin \/ TRejoin \/ TPanic \/ TIgnore
TSpec == TInit /\ [][TNext]_tvars
Accepted == Consumed
=============================================================================
