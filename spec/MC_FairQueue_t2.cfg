SPECIFICATION Spec
CONSTANTS
 Keys = {a, b, c}
 MaxItems = 1
 MaxTicket = 9
 MaxStale = 1
 MaxExh = 1
 MaxReins = 0
 AllowRemove = FALSE
 Dev = {}
INVARIANTS TypeOK NoLostWakeup NoStreamLost ReadyHasSignal FairBoundTight LiveInHeap YieldBound EndReported
CHECK_DEADLOCK FALSE
