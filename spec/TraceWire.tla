----------------------------- MODULE TraceWire -----------------------------
(* Layer-A monitor for C01: what the library put on the wire is a valid RFC 23 frame sequence for
   exactly the message it was given; its greeting and READY are well-formed.  The harness walks the
   bytes the real encoder produced and logs the parse it found (per frame: flag byte, size bytes,
   body offset, body length); this monitor checks that parse against Zmtp.tla.  A ZMTP parse is
   unique, so a valid parse covering every byte *is* the reference decode.  Body content equality
   and the library's own decode of its bytes are byte compares done by the harness (rt, body).  *)
EXTENDS Zmtp, TraceCommon

VARIABLES l, viol
tvars == <<l, viol>>
E == Rec[l]
Flag(code) == Report(l, code, l) /\ viol' = viol \cup {code}
NoFlag == UNCHANGED viol
Step(evname) == l <= NRec /\ E.ev = evname /\ l' = l + 1
TInit == l = 1 /\ viol = {}

TypeBytes == [PAIR |-> <<80, 65, 73, 82>>, PUB |-> <<80, 85, 66>>, SUB |-> <<83, 85, 66>>, REQ |-> <<82, 69, 81>>, REP |-> <<82, 69, 80>>,
              DEALER |-> <<68, 69, 65, 76, 69, 82>>, ROUTER |-> <<82, 79, 85, 84, 69, 82>>, PULL |-> <<80, 85, 76, 76>>,
              PUSH |-> <<80, 85, 83, 72>>, XPUB |-> <<88, 80, 85, 66>>, XSUB |-> <<88, 83, 85, 66>>]
SocketTypeName == <<83, 111, 99, 107, 101, 116, 45, 84, 121, 112, 101>>   \* "Socket-Type"
IdentityName == <<73, 100, 101, 110, 116, 105, 116, 121>>                   \* "Identity"

FrameOK(f, len, last) ==
  /\ f.fl < 8 /\ (f.fl \div 4) % 2 = 0                       \* reserved bits and COMMAND clear
  /\ (f.fl % 2 = 1) <=> ~last                                 \* MORE exactly on non-last frames
  /\ Len(f.sz) = (IF (f.fl \div 2) % 2 = 1 THEN 8 ELSE 1)      \* LONG bit matches the size field
  /\ (Len(f.sz) = 1 => len <= 255 /\ f.sz[1] = len)
  /\ (Len(f.sz) = 8 => ~Huge(f.sz) /\ BE(f.sz) = len)
  /\ (len > 255 => Len(f.sz) = 8)
  /\ f.len = len
Contig(fs) == /\ fs[1].off = 1 + Len(fs[1].sz)
              /\ \A i \in 2..Len(fs) : fs[i].off = fs[i - 1].off + fs[i - 1].len + 1 + Len(fs[i].sz)
TEnc == Step("enc") /\
  LET fs == E.frames lens == E.lens n == Len(lens) IN
  IF Len(fs) # n \/ n = 0 THEN Flag("C01/encode-not-refdecodable:frame-count")
  ELSE IF \E i \in 1..n : ~FrameOK(fs[i], lens[i], i = n) THEN Flag("C01/encode-not-refdecodable:frame-header")
  ELSE IF ~Contig(fs) \/ E.total # fs[n].off + fs[n].len THEN Flag("C01/encode-not-refdecodable:extra-or-missing-bytes")
  ELSE IF ~E.body THEN Flag("C01/encode-not-refdecodable:body-differs")
  ELSE IF ~E.rt THEN Flag("C01/decode-differs")
  ELSE NoFlag

GreetingOK(g) == /\ Len(g) = 64 /\ g[1] = 255 /\ g[10] = 127 /\ g[11] = 3 /\ g[12] = 0
                 /\ Sub(g, 13, 32) = NULLmech \o Zeros(16) /\ g[33] = 0 /\ Sub(g, 34, 64) = Zeros(31)
ReadyOK(r, sock, ident) ==
  /\ Len(r) >= 2 /\ r[1] \in {4, 6}
  /\ LET long == r[1] = 6
         hdr == IF long THEN 9 ELSE 2 IN
     /\ Len(r) >= hdr
     /\ (long => ~Huge(Sub(r, 2, 9)))
     /\ LET len == IF long THEN BE(Sub(r, 2, 9)) ELSE r[2] IN
        /\ Len(r) = hdr + len
        /\ (~long => len <= 255) /\ (len > 255 => long)
        /\ LET c == ParseCmd(Sub(r, hdr + 1, Len(r))) IN
           /\ c.ok /\ c.name = READYname
           /\ PropVal(c.props, SocketTypeName) = <<"present", TypeBytes[sock]>>
           /\ (ident # <<>> => PropVal(c.props, IdentityName) = <<"present", ident>>)
THello == Step("hello") /\
  IF ~GreetingOK(E.g) THEN Flag("C01/greeting-malformed")
  ELSE IF ~ReadyOK(E.r, E.sock, E.ident) THEN Flag("C01/ready-malformed")
  ELSE NoFlag
TPanic == Step("panic") /\ Flag("C01/panic")
TNext == TEnc \/ THello \/ TPanic
TSpec == TInit /\ [][TNext]_tvars
Accepted == Consumed
=============================================================================
