SPECIFICATION Spec
CONSTANTS
 Keys = {a, b}
 MaxItems = 2
 MaxTicket = 8
 MaxStale = 0
 MaxExh = 0
 MaxReins = 1
 AllowRemove = FALSE
 Dev = {"reinsert_no_event"}
INVARIANTS ReadyHasSignal NoLostWakeup
CHECK_DEADLOCK FALSE
