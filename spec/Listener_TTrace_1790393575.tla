---- MODULE Listener_TTrace_1790393575 ----
EXTENDS Sequences, TLCExt, Listener, Toolbox, Naturals, TLC

_expression ==
    LET Listener_TEExpression == INSTANCE Listener_TEExpression
    IN Listener_TEExpression!expression
----

_trace ==
    LET Listener_TETrace == INSTANCE Listener_TETrace
    IN Listener_TETrace!trace
----

_inv ==
    ~(
        TLCGet("level") = Len(_TETrace)
        /\
        listening = ({1})
        /\
        file = ({1})
        /\
        alive = (TRUE)
        /\
        peers = ({})
        /\
        accepted = (<<1, 0, 0>>)
        /\
        hs = ({1})
        /\
        table = ({1})
        /\
        tasks = (2)
    )
----

_init ==
    /\ alive = _TETrace[1].alive
    /\ table = _TETrace[1].table
    /\ hs = _TETrace[1].hs
    /\ listening = _TETrace[1].listening
    /\ accepted = _TETrace[1].accepted
    /\ file = _TETrace[1].file
    /\ peers = _TETrace[1].peers
    /\ tasks = _TETrace[1].tasks
----

_next ==
    /\ \E i,j \in DOMAIN _TETrace:
        /\ \/ /\ j = i + 1
              /\ i = TLCGet("level")
        /\ alive  = _TETrace[i].alive
        /\ alive' = _TETrace[j].alive
        /\ table  = _TETrace[i].table
        /\ table' = _TETrace[j].table
        /\ hs  = _TETrace[i].hs
        /\ hs' = _TETrace[j].hs
        /\ listening  = _TETrace[i].listening
        /\ listening' = _TETrace[j].listening
        /\ accepted  = _TETrace[i].accepted
        /\ accepted' = _TETrace[j].accepted
        /\ file  = _TETrace[i].file
        /\ file' = _TETrace[j].file
        /\ peers  = _TETrace[i].peers
        /\ peers' = _TETrace[j].peers
        /\ tasks  = _TETrace[i].tasks
        /\ tasks' = _TETrace[j].tasks

\* Uncomment the ASSUME below to write the states of the error trace
\* to the given file in Json format. Note that you can pass any tuple
\* to `JsonSerialize`. For example, a sub-sequence of _TETrace.
    \* ASSUME
    \*     LET J == INSTANCE Json
    \*         IN J!JsonSerialize("Listener_TTrace_1790393575.json", _TETrace)

=============================================================================

 Note that you can extract this module `Listener_TEExpression`
  to a dedicated file to reuse `expression` (the module in the 
  dedicated `Listener_TEExpression.tla` file takes precedence 
  over the module `Listener_TEExpression` below).

---- MODULE Listener_TEExpression ----
EXTENDS Sequences, TLCExt, Listener, Toolbox, Naturals, TLC

expression == 
    [
        \* To hide variables of the `Listener` spec from the error trace,
        \* remove the variables below.  The trace will be written in the order
        \* of the fields of this record.
        alive |-> alive
        ,table |-> table
        ,hs |-> hs
        ,listening |-> listening
        ,accepted |-> accepted
        ,file |-> file
        ,peers |-> peers
        ,tasks |-> tasks
        
        \* Put additional constant-, state-, and action-level expressions here:
        \* ,_stateNumber |-> _TEPosition
        \* ,_aliveUnchanged |-> alive = alive'
        
        \* Format the `alive` variable as Json value.
        \* ,_aliveJson |->
        \*     LET J == INSTANCE Json
        \*     IN J!ToJson(alive)
        
        \* Lastly, you may build expressions over arbitrary sets of states by
        \* leveraging the _TETrace operator.  For example, this is how to
        \* count the number of times a spec variable changed up to the current
        \* state in the trace.
        \* ,_aliveModCount |->
        \*     LET F[s \in DOMAIN _TETrace] ==
        \*         IF s = 1 THEN 0
        \*         ELSE IF _TETrace[s].alive # _TETrace[s-1].alive
        \*             THEN 1 + F[s-1] ELSE F[s-1]
        \*     IN F[_TEPosition - 1]
    ]

=============================================================================



Parsing and semantic processing can take forever if the trace below is long.
 In this case, it is advised to uncomment the module below to deserialize the
 trace from a generated binary file.

\*
\*---- MODULE Listener_TETrace ----
\*EXTENDS IOUtils, Listener, TLC
\*
\*trace == IODeserialize("Listener_TTrace_1790393575.bin", TRUE)
\*
\*=============================================================================
\*

---- MODULE Listener_TETrace ----
EXTENDS Listener, TLC

trace == 
    <<
    ([listening |-> {},file |-> {},alive |-> TRUE,peers |-> {},accepted |-> <<0, 0, 0>>,hs |-> {},table |-> {},tasks |-> 0]),
    ([listening |-> {1},file |-> {1},alive |-> TRUE,peers |-> {},accepted |-> <<0, 0, 0>>,hs |-> {},table |-> {1},tasks |-> 1]),
    ([listening |-> {1},file |-> {1},alive |-> TRUE,peers |-> {},accepted |-> <<1, 0, 0>>,hs |-> {1},table |-> {1},tasks |-> 2])
    >>
----


=============================================================================

---- CONFIG Listener_TTrace_1790393575 ----
CONSTANTS
    Eps = { 1 , 2 }
    Conns = { 1 , 2 , 3 }
    Dev = { "accept_awaits_handshake" }

INVARIANT
    _inv

CHECK_DEADLOCK
    \* CHECK_DEADLOCK off because of PROPERTY or INVARIANT above.
    FALSE

INIT
    _init

NEXT
    _next

CONSTANT
    _TETrace <- _trace

ALIAS
    _expression
=============================================================================
\* Generated on Sat Sep 26 03:32:56 UTC 2026