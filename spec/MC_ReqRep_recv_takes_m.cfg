SPECIFICATION Spec
CONSTANTS
 Peers = {1, 2}
 MaxCalls = 6
 Dev = {"recv_takes_marker_early"}
INVARIANTS Refines MarkerMirrorsOwed
CHECK_DEADLOCK FALSE
