SPECIFICATION Spec
CONSTANTS
 Clients = {1, 2, 3}
 MaxReq = 2
 Dev = {}
INVARIANTS Refines OwnRepliesInOrder
CHECK_DEADLOCK FALSE
