SPECIFICATION TSpec
CONSTANT BypassSlack = 4
POSTCONDITION Accepted
CHECK_DEADLOCK FALSE
