SPECIFICATION Spec
CONSTANTS
 Peers = {1, 2, 3}
 MaxSends = 6
 MaxCancels = 2
 Dev = {"push_twice"}
INVARIANT Refines
CHECK_DEADLOCK FALSE
