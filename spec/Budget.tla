------------------------------- MODULE Budget -------------------------------
(* Layer B, abstract: the fair queue under a runtime's cooperative budget (what tokio does to a task
   that does not give control back): the receiving task may do B transport reads per poll of the
   task; a further read is refused - it answers Pending without looking - and its wake-up is deferred
   until the task has yielded.  A stream either has messages in its read buffer (delivering them needs
   no read) or a message in the kernel (needs a read) or nothing.  The application calls recv back to
   back; a call that finds a buffered message returns at once, so the task never yields by itself.
   q is the order of the valid ready events, a stream outside q is waiting for a wake-up.
     Dev = {}                 the repaired code (fix ff5a291): after more than N deliveries in a row with
                              a stream waiting, the call yields and asks the waiting streams again, at
                              the back of the queue, starting from a different one each time
     Dev = {"no_round_yield"} the code before: a call yields only when every stream answered Pending
     Dev = {"reask_fixed"}    yields, but asks the waiting streams again at the FRONT in a fixed order
                              (an intermediate repair: passed the hunter's tests with tokio's budget of
                              128, failed this framework's budget-of-1 cells - an idle stream ahead of
                              the ready one uses up the budget every time)
   Layer A: a stream with a message waits for at most Bound deliveries of the others, whatever the
   others have buffered.                                                                          *)
EXTENDS Naturals, Sequences, FiniteSets, TLC
CONSTANTS N, B, MaxBuf, Bound, Dev
Keys == 1..N
VARIABLES buf, kern, q, bl, df, since, turn, wait, pc, npend
vars == <<buf, kern, q, bl, df, since, turn, wait, pc, npend>>
InQ(k) == \E i \in 1..Len(q) : q[i] = k
Waiting == {k \in Keys : ~InQ(k)}
Has(k) == buf[k] > 0 \/ kern[k] = 1
RECURSIVE AppendAll(_, _)
AppendAll(s, ks) == IF ks = <<>> THEN s ELSE AppendAll(IF \E i \in 1..Len(s) : s[i] = Head(ks) THEN s ELSE Append(s, Head(ks)), Tail(ks))
\* the keys of a set as a sequence in ascending order (the map's iteration order: arbitrary but stable)
RECURSIVE Asc(_)
Asc(S) == IF S = {} THEN <<>> ELSE LET m == CHOOSE x \in S : \A y \in S : x <= y IN <<m>> \o Asc(S \ {m})
Rot(s, r) == IF s = <<>> THEN s ELSE LET k == r % Len(s) IN SubSeq(s, k + 1, Len(s)) \o SubSeq(s, 1, k)
Init == /\ buf \in [Keys -> 0..MaxBuf] /\ kern \in [Keys -> {0, 1}] /\ q = Asc(Keys) /\ bl = B /\ df = <<>>
        /\ since = 0 /\ turn = 0 /\ wait = [k \in Keys |-> 0] /\ pc = "idle" /\ npend = 0
\* the task gives control back: fresh budget, deferred wake-ups are delivered
\* (deferred wake-ups re-queue the events with the tickets they had: in the order in which they were refused; the I/O driver runs too)
Yielded(q0) == bl' = B /\ df' = <<>> /\ q' = AppendAll(q0, df \o Asc({k \in Keys : kern[k] = 1})) /\ since' = 0
Deliver(k) == wait' = [j \in Keys |-> IF j = k THEN 0 ELSE IF Has(j) THEN wait[j] + 1 ELSE wait[j]]
\* a call of poll_next begins
Begin ==
  /\ pc = "idle" /\ npend' = 0
  /\ IF "no_round_yield" \notin Dev /\ since > N /\ Waiting # {}
       THEN LET w == Asc(Waiting)
                q0 == IF "reask_fixed" \in Dev THEN w \o q ELSE q \o Rot(w, turn) IN
            /\ Yielded(q0) /\ turn' = turn + 1 /\ pc' = "idle"         \* answers Pending after waking its own waker: the task is polled again
            /\ UNCHANGED <<buf, kern, wait>>
       ELSE pc' = "loop" /\ UNCHANGED <<buf, kern, q, bl, df, since, turn, wait>>
\* one iteration of the loop: the stream at the front is polled
Step ==
  /\ pc = "loop"
  /\ IF q = <<>> \/ npend > N
       THEN /\ Yielded(q) /\ pc' = "idle" /\ UNCHANGED <<buf, kern, turn, wait, npend>>       \* every stream answered Pending: the call answers Pending
       ELSE LET k == Head(q) IN
            IF buf[k] > 0
              THEN /\ buf' = [buf EXCEPT ![k] = @ - 1] /\ q' = Append(Tail(q), k) /\ since' = since + 1 /\ Deliver(k)
                   /\ pc' = "idle" /\ UNCHANGED <<kern, bl, df, turn, npend>>
            ELSE IF bl = 0
              THEN /\ df' = Append(df, k) /\ q' = Tail(q) /\ npend' = npend + 1                   \* refused: Pending, wake-up deferred
                   /\ UNCHANGED <<buf, kern, bl, since, turn, wait, pc>>
            ELSE IF kern[k] = 1
              THEN /\ kern' = [kern EXCEPT ![k] = 0] /\ bl' = bl - 1 /\ q' = Append(Tail(q), k) /\ since' = since + 1 /\ Deliver(k)
                   /\ pc' = "idle" /\ UNCHANGED <<buf, df, turn, npend>>
              ELSE /\ bl' = bl - 1 /\ q' = Tail(q) /\ npend' = npend + 1                          \* nothing there: Pending, waits for the transport
                   /\ UNCHANGED <<buf, kern, df, since, turn, wait, pc>>
\* a message arrives for a stream that has none: its waker (if it waits) is woken by the transport - but only while the task is
\* not running (single-threaded runtime) - here: between calls
Arrive(k) == /\ pc = "idle" /\ kern[k] = 0 /\ buf[k] = 0 /\ kern' = [kern EXCEPT ![k] = 1]
             /\ UNCHANGED <<buf, q, bl, df, since, turn, wait, pc, npend>>    \* (the wake-up itself needs the I/O driver: it comes with the next yield)
             /\ \A i \in 1..Len(df) : df[i] # k
Next == Begin \/ Step \/ \E k \in Keys : Arrive(k)
Spec == Init /\ [][Next]_vars
\* a stream whose message needs the I/O driver to be noticed is found by the re-asking / by the deferred wake-up
Fair == \A k \in Keys : wait[k] <= Bound
Reach_Refused == df = <<>>
Reach_Yield == turn = 0
=============================================================================
