SPECIFICATION Spec
CONSTANTS
 Topics <- TopicsDef
 Frames <- FramesDef
 MaxHist = 5
 Dev = {}
INVARIANTS Refines VecIsBag
CHECK_DEADLOCK FALSE
