SPECIFICATION Spec
CONSTANTS
 HWM = 8
 Sizes = {1, 4, 7, 8, 9}
 MaxPub = 3
 MaxCredit = 12
 Dev = {}
INVARIANTS Reach_Armed
CHECK_DEADLOCK FALSE
