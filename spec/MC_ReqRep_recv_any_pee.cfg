SPECIFICATION Spec
CONSTANTS
 Peers = {1, 2}
 MaxCalls = 6
 Dev = {"recv_any_peer"}
INVARIANTS Refines MarkerMirrorsOwed
CHECK_DEADLOCK FALSE
