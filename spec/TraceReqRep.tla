---------------------------- MODULE TraceReqRep ----------------------------
(* Total monitor for REQ and REP sockets (C07 envelopes, C08 lock-step and reply routing, C14 for REQ).
   Layer A only: REQ is a two-state machine (a request is owed a recv or not) over API results and
   what appears on the wire; REP remembers which connection the latest received request came from and
   its envelope.  After the first violation in a scenario the rest of that scenario is not judged
   (dead), so one defect does not cascade.                                                         *)
EXTENDS DeliveryAbs, TraceCommon

VARIABLES l, scen, viol, dead, owed, rconn, lastdrop, rreq, call, wires, sdrop
tvars == <<avars, l, scen, viol, dead, owed, rconn, lastdrop, rreq, call, wires, sdrop>>
mvars == <<owed, rconn, lastdrop, rreq, sdrop>>
\* sdrop: a REQ send was abandoned while nothing of the request had reached the wire yet ("buffered"): whether the socket
\* counts that request as outstanding (it may still hold it) or not (it may have discarded it) is its choice, until the next call shows which

E == Rec[l]
Flag(code) == Report(scen, code, l) /\ viol' = viol \cup {code} /\ dead' = TRUE
NoFlag == UNCHANGED <<viol, dead>>
Step(evname) == l <= NRec /\ E.ev = evname /\ l' = l + 1

TInit == AInit /\ l = 1 /\ scen = 0 /\ viol = {} /\ dead = FALSE /\ owed = FALSE /\ rconn = 0 /\ lastdrop = FALSE
         /\ rreq = <<>> /\ call = <<>> /\ wires = <<>> /\ sdrop = "none"

TReset == Step("reset") /\ scen' = E.scen /\ stype' = E.sock /\ conn' = {} /\ ident' = <<>> /\ pend' = <<>> /\ cut' = <<>> /\ credit' = 0
          /\ dead' = FALSE /\ owed' = FALSE /\ rconn' = 0 /\ lastdrop' = FALSE /\ rreq' = <<>> /\ call' = <<>> /\ wires' = <<>> /\ sdrop' = "none" /\ UNCHANGED viol
TAttachRet == Step("attach_ret") /\ UNCHANGED <<scen, mvars, call, wires>> /\ NoFlag /\
   IF E.res = "ok" THEN DoAdmit(E.c, E.id) ELSE UNCHANGED avars
TWrote == Step("peer_wrote") /\ UNCHANGED <<scen, mvars, call, wires>> /\ NoFlag /\ DoWrote(E.c, E.m)
TCut == Step("peer_cut") /\ UNCHANGED <<scen, mvars, call, wires>> /\ NoFlag /\ DoCut(E.c, IF E.kind = "eof" THEN "eof" ELSE "err")
TPipe == Step("pipe") /\ UNCHANGED <<scen, mvars, call, wires>> /\ NoFlag /\
   (IF E.what = "break" THEN DoCut(E.c, "err") ELSE UNCHANGED avars)
TWire == Step("wire") /\ UNCHANGED <<avars, scen, mvars, call>> /\ NoFlag /\
   wires' = IF E.k = "msg" THEN Append(wires, <<E.c, E.m>>) ELSE wires
TSendCall == Step("send_call") /\ UNCHANGED <<avars, scen, mvars>> /\ NoFlag /\ call' = <<"send", E.m>> /\ wires' = <<>>
TRecvCall == Step("recv_call") /\ UNCHANGED <<avars, scen, mvars>> /\ NoFlag /\ call' = <<"recv">> /\ wires' = <<>>

Alive == {c \in conn : c \notin DOMAIN cut}
NoPartials == ~Has(E, "partials")
Returned == Fld(E, "returned", <<"absent">>)
Envelope(m) == SubSeq(m, 1, FirstEmpty(m))

\* ---- REQ ------------------------------------------------------------------------------------
ReqSendRet ==
  LET m == call[2] IN
  IF E.res = "ok" THEN
     IF owed /\ sdrop # "buffered" THEN Flag(IF lastdrop THEN "C14/req-send-accepted-after-dropped-recv" ELSE "C08/out-of-turn-accepted") /\ UNCHANGED <<avars, mvars>>
     \* (after a "buffered" abandoned send the socket may have discarded that request: then exactly the new one is on the wire)
     ELSE IF Len(wires) # 1 \/ ~NoPartials THEN Flag("C07/req-wire") /\ UNCHANGED <<avars, mvars>>
     ELSE IF wires[1][2] # <<Empty>> \o m THEN Flag("C07/req-wire") /\ UNCHANGED <<avars, mvars>>
     ELSE owed' = TRUE /\ rconn' = wires[1][1] /\ lastdrop' = FALSE /\ sdrop' = "none" /\ UNCHANGED <<avars, rreq>> /\ NoFlag
  ELSE IF E.res = "err" THEN
     (IF wires # <<>> \/ (~NoPartials /\ sdrop = "none" /\ ~owed) THEN Flag("C08/refused-call-wrote-bytes")
      ELSE IF owed /\ Returned # m THEN Flag("C08/refused-call-lost-message")
      ELSE IF ~owed /\ Alive # {} /\ DOMAIN cut = {} THEN Flag("C08/in-turn-refused")
      ELSE IF ~owed /\ conn = {} /\ Returned # m THEN Flag("C10/no-peer-message-not-returned")
      ELSE NoFlag) /\ UNCHANGED <<avars, mvars>>
  ELSE Flag("C03/panic") /\ UNCHANGED <<avars, mvars>>

ReqRecvRet ==
  IF E.res = "ok" THEN
     IF ~owed THEN Flag("C08/out-of-turn-accepted") /\ UNCHANGED <<avars, mvars>>
     ELSE LET P == Pend(rconn) IN
          IF P # <<>> /\ WellFormed("REQ", Head(P)) /\ Tail(Head(P)) = E.m
            THEN DoConsume(rconn) /\ owed' = FALSE /\ lastdrop' = FALSE /\ sdrop' = "none" /\ UNCHANGED <<rconn, rreq>> /\ NoFlag
          ELSE IF \E c \in conn \ {rconn} : Pend(c) # <<>> /\ Len(Head(Pend(c))) >= 1 /\ Tail(Head(Pend(c))) = E.m
            THEN Flag("C08/foreign-reply") /\ UNCHANGED <<avars, mvars>>
          ELSE Flag("C07/req-recv-payload") /\ UNCHANGED <<avars, mvars>>
  ELSE IF E.res = "err" THEN
     IF ~owed THEN UNCHANGED <<avars, mvars>> /\ NoFlag                         \* refused in turn, state unchanged
     ELSE IF rconn \in DOMAIN cut
          \* the request died with its peer.  Whether the socket now wants a send or still a recv is not demanded (a refused
          \* call after a fault is never flagged), but everything else is: the next requests must go out, with their envelope,
          \* to peers that are alive, and their replies must come back
          THEN owed' = FALSE /\ lastdrop' = FALSE /\ sdrop' = "none" /\ UNCHANGED <<avars, rconn, rreq>> /\ NoFlag
     ELSE IF sdrop = "buffered"                                                  \* the socket had discarded the abandoned request: no request is outstanding
          THEN owed' = FALSE /\ lastdrop' = FALSE /\ sdrop' = "none" /\ UNCHANGED <<avars, rconn, rreq>> /\ NoFlag
     ELSE IF Pend(rconn) # <<>> /\ ~WellFormed("REQ", Head(Pend(rconn)))
          THEN UNCHANGED <<avars, mvars, viol>> /\ dead' = TRUE                  \* behaviour after a malformed reply is not demanded
     ELSE Flag("C08/in-turn-refused") /\ UNCHANGED <<avars, mvars>>
  ELSE Flag("C03/panic") /\ UNCHANGED <<avars, mvars>>

\* ---- REP ------------------------------------------------------------------------------------
RepSendRet ==
  LET m == call[2] IN
  IF E.res = "ok" THEN
     IF rreq = <<>> THEN Flag("C08/out-of-turn-accepted") /\ UNCHANGED <<avars, mvars>>
     ELSE IF Len(wires) # 1 \/ ~NoPartials THEN Flag("C08/reply-on-wrong-connection") /\ UNCHANGED <<avars, mvars>>
     ELSE IF wires[1][1] # rreq[1] THEN Flag("C08/reply-on-wrong-connection") /\ UNCHANGED <<avars, mvars>>
     ELSE IF wires[1][2] # rreq[2] \o m THEN Flag("C07/rep-reply-envelope") /\ UNCHANGED <<avars, mvars>>
     ELSE rreq' = <<>> /\ UNCHANGED <<avars, owed, rconn, lastdrop, sdrop>> /\ NoFlag
  ELSE IF E.res = "err" THEN
     (IF wires # <<>> \/ ~NoPartials THEN Flag("C08/refused-call-wrote-bytes")
      ELSE IF rreq = <<>> /\ Returned # m THEN Flag("C08/refused-call-lost-message")
      ELSE IF rreq # <<>> /\ rreq[1] \in Alive THEN Flag("C08/in-turn-refused")
      ELSE NoFlag) /\ rreq' = <<>> /\ UNCHANGED <<avars, owed, rconn, lastdrop, sdrop>>
  ELSE Flag("C03/panic") /\ UNCHANGED <<avars, mvars>>

RepRecvRet ==
  IF E.res = "ok" THEN
     IF Len(E.m) = 0 THEN Flag("C07/rep-zero-frame-message") /\ UNCHANGED <<avars, mvars>>
     ELSE LET src == Sources(E.m) IN
          IF src # {} THEN LET c == CHOOSE x \in src : TRUE IN
               DoConsume(c) /\ rreq' = <<c, Envelope(Head(Pend(c)))>> /\ UNCHANGED <<owed, rconn, lastdrop, sdrop>> /\ NoFlag
          ELSE IF Later(E.m) # {} THEN Flag("C05/reordered-or-skipped") /\ UNCHANGED <<avars, mvars>>
          ELSE Flag("C07/rep-recv-payload") /\ UNCHANGED <<avars, mvars>>
  ELSE IF E.res = "err" THEN
     (IF Malformed # {} THEN LET c == CHOOSE x \in Malformed : TRUE IN DoConsume(c) /\ NoFlag
      ELSE IF credit > 0 THEN DoSpendCredit /\ NoFlag
      ELSE IF DOMAIN cut # {} THEN UNCHANGED avars /\ Flag("C16/error-repeated")
      ELSE UNCHANGED avars /\ Flag("C05/unattributable-error")) /\ UNCHANGED mvars
  ELSE Flag("C03/panic") /\ UNCHANGED <<avars, mvars>>

TSendRet == Step("send_ret") /\ UNCHANGED <<scen>> /\ call' = <<>> /\ wires' = <<>> /\
   IF dead \/ call = <<>> \/ call[1] # "send" THEN UNCHANGED <<avars, mvars>> /\ NoFlag
   ELSE IF stype = "REQ" THEN ReqSendRet ELSE RepSendRet
TRecvRet == Step("recv_ret") /\ UNCHANGED <<scen>> /\ call' = <<>> /\ wires' = <<>> /\
   IF dead THEN UNCHANGED <<avars, mvars>> /\ NoFlag
   ELSE IF stype = "REQ" THEN ReqRecvRet ELSE RepRecvRet
TRecvDropped == Step("recv_dropped") /\ UNCHANGED <<avars, scen, owed, rconn, rreq, sdrop>> /\ NoFlag /\ call' = <<>> /\ wires' = <<>>
   /\ lastdrop' = (owed \/ lastdrop)

\* A REQ send is abandoned while it waits for the transport.  Whatever of the request has reached the wire makes it THE outstanding
\* request: nothing else may follow it on that connection but the rest of it, and the next recv returns its reply.
PartConns == IF Has(E, "partials") THEN {c \in conn : ToString(c) \in DOMAIN E.partials} ELSE {}
TSendDropped == Step("send_dropped") /\ UNCHANGED <<avars, scen, lastdrop, rreq>> /\ NoFlag /\ call' = <<>> /\ wires' = <<>> /\
   IF dead \/ stype # "REQ" \/ call = <<>> \/ call[1] # "send" \/ owed THEN UNCHANGED <<owed, rconn, sdrop>>
   ELSE IF wires # <<>> THEN owed' = TRUE /\ rconn' = wires[1][1] /\ sdrop' = "none"
   ELSE IF PartConns # {} THEN owed' = TRUE /\ rconn' = (CHOOSE c \in PartConns : TRUE) /\ sdrop' = "none"
   ELSE IF Cardinality(Alive) = 1 THEN owed' = TRUE /\ rconn' = (CHOOSE c \in Alive : TRUE) /\ sdrop' = "buffered"
   ELSE UNCHANGED <<owed, rconn, sdrop>>

\* while a recv of the REQ socket is pending for a request it counts as outstanding, that request must be complete on the wire
\* (what an abandoned send left in the socket is written out by the recv: nothing else will do it)
TExpectWire == Step("expect_wire") /\ UNCHANGED <<avars, scen, mvars, call, wires>> /\
   IF ~dead /\ stype = "REQ" /\ call = <<"recv">> /\ owed /\ ~E.ok THEN Flag("C08/outstanding-request-never-completed") ELSE NoFlag

RECURSIVE DropMalformed(_, _)
DropMalformed(t, s) == IF s # <<>> /\ ~WellFormed(t, Head(s)) THEN DropMalformed(t, Tail(s)) ELSE s
TQuiescent == Step("quiescent") /\ UNCHANGED <<avars, scen, mvars, call, wires>> /\
   IF dead \/ Fld(E, "pending", "none") # "recv" THEN NoFlag
   ELSE IF stype = "REQ" /\ owed /\ rconn \notin DOMAIN cut /\ Pend(rconn) # <<>> /\ WellFormed("REQ", Head(Pend(rconn)))
        THEN Report(scen, "C05/message-never-delivered", l) /\ Flag("C06/parked-with-message-available")
   ELSE IF stype = "REP" /\ \E c \in Owing : DropMalformed("REP", Pend(c)) # <<>>
        THEN Report(scen, "C05/message-never-delivered", l) /\ Flag("C06/parked-with-message-available")
   ELSE NoFlag
TPanic == Step("panic") /\ UNCHANGED <<avars, scen, mvars, call, wires>> /\ Flag("C03/panic")
THarness == Step("harness_error") /\ UNCHANGED <<avars, scen, mvars, call, wires>> /\ Flag("harness/script-error")
Ignored == {"observed", "peer_part", "peer_bytes", "attach_call", "attach_pending", "released", "recv_pending", "send_pending", "end"}
TIgnore == l <= NRec /\ E.ev \in Ignored /\ l' = l + 1 /\ UNCHANGED <<avars, scen, mvars, call, wires>> /\ NoFlag

TNext == TReset \/ TAttachRet \/ TWrote \/ TCut \/ TPipe \/ TWire \/ TSendCall \/ TRecvCall \/ TSendRet \/ TRecvRet \/ TRecvDropped \/ TSendDropped \/ TExpectWire
         \/ TQuiescent \/ TPanic \/ THarness \/ TIgnore
TSpec == TInit /\ [][TNext]_tvars
Accepted == Consumed
=============================================================================
