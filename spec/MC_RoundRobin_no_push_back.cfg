SPECIFICATION Spec
CONSTANTS
 Peers = {1, 2, 3, 4}
 MaxSends = 8
 Dev = {"no_push_back"}
INVARIANT Refines
CHECK_DEADLOCK FALSE
