---------------------------- MODULE TraceHostile ----------------------------
(* Layer-A monitor for C03 on the bare reader stack: for every hostile byte string fed to the real
   FramedRead+codec the harness logs what came out (message shapes, panic flag, peak live-heap growth
   measured by a counting allocator).  The monitor recomputes the RFC 23 reference decode of the very
   same bytes with Zmtp.tla and allows exactly: any prefix of the reference's messages (delivering,
   ignoring, erroring, dropping the connection are all fine), no panic, heap growth in proportion to
   the bytes actually received.                                                                    *)
EXTENDS Zmtp, TraceCommon
VARIABLES l, viol
tvars == <<l, viol>>
E == Rec[l]
Flag(code) == Report(l, code, l) /\ viol' = viol \cup {code}
NoFlag == UNCHANGED viol
TInit == l = 1 /\ viol = {}
AllocBound(fed) == 1048576 + 64 * fed    \* generous: linear in what was received; a declared length alone must reserve nothing
ValidGreeting(g) == Len(g) >= 64 /\ g[1] = 255 /\ g[10] = 127
THostile == l <= NRec /\ E.ev = "hostile" /\ l' = l + 1 /\
  IF E.panic THEN Flag("C03/panic")
  ELSE IF E.peak > AllocBound(E.fed) THEN Flag("C03/alloc-disproportionate")
  ELSE IF Fld(E, "raw", FALSE) THEN
         (IF ~ValidGreeting(E.b) /\ E.msgs # <<>> THEN Flag("C03/bogus-item")
          ELSE IF ValidGreeting(E.b) /\ ~IsPrefixSeq(E.msgs, DecodeLenient(Sub(E.b, 65, Len(E.b))).msgs) THEN Flag("C03/bogus-item")
          ELSE NoFlag)
  ELSE IF ~IsPrefixSeq(E.msgs, DecodeLenient(E.b).msgs) THEN Flag("C03/bogus-item")
  ELSE NoFlag
\* large structured inputs (thousands of frames, huge sizes): only crash / allocation behaviour and message count are logged
TBig == l <= NRec /\ E.ev = "hostile_big" /\ l' = l + 1 /\
  IF E.panic THEN Flag("C03/panic")
  ELSE IF E.peak > AllocBound(E.fed) THEN Flag("C03/alloc-disproportionate")
  ELSE IF E.nmsgs > E.maxmsgs THEN Flag("C03/bogus-item")
  ELSE NoFlag
TNext == THostile \/ TBig
TSpec == TInit /\ [][TNext]_tvars
Accepted == Consumed
=============================================================================
