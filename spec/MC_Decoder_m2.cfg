SPECIFICATION Spec
CONSTANTS
 Streams <- StreamsDef
 Dev = {"drop_partial_on_last"}
INVARIANTS MatchesReference
CHECK_DEADLOCK FALSE
