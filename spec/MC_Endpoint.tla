---------------------------- MODULE MC_Endpoint ----------------------------
(* Breadth-first enumeration of every string over Alphabet up to length N behind each prefix of
   Prefixes (one state per string); Class is evaluated on every one (totality of the reference)
   and the string is printed as a vector for the real parser.                                   *)
EXTENDS Endpoint, Json
CONSTANTS Alphabet, N
VARIABLES pre, s
PrefixesDef == {<<116, 99, 112, 58, 47, 47>>, <<105, 112, 99, 58, 47, 47>>}      \* "tcp://", "ipc://"
Init == pre \in PrefixesDef /\ s = <<>>
Next == Len(s) < N /\ \E c \in Alphabet : s' = Append(s, c) /\ UNCHANGED pre
Spec == Init /\ [][Next]_<<pre, s>>
Classes == {"reject", "ipc", "tcp-v4", "tcp-v6", "tcp-domain", "tcp-v6-or-domain", "any"}
Total == Class(pre \o s) \in Classes
Emit == PrintT(<<"VEC", ToJson(pre \o s)>>)
=============================================================================
