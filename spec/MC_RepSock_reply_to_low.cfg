SPECIFICATION Spec
CONSTANTS
 Clients = {1, 2, 3}
 MaxReq = 2
 Dev = {"reply_to_lowest"}
INVARIANTS Refines OwnRepliesInOrder
CHECK_DEADLOCK FALSE
