SPECIFICATION Spec
CONSTANT Mode = "pairwise"
INVARIANTS Sym Emit
CHECK_DEADLOCK FALSE
