SPECIFICATION Spec
CONSTANTS
 Alphabet = {0, 1, 2, 3, 4, 5, 6, 7, 127, 255, 82}
 N = 4
INVARIANTS Agree Emit
CHECK_DEADLOCK FALSE
