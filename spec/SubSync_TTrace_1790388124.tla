---- MODULE SubSync_TTrace_1790388124 ----
EXTENDS Sequences, TLCExt, SubSync, Toolbox, Naturals, TLC

_expression ==
    LET SubSync_TEExpression == INSTANCE SubSync_TEExpression
    IN SubSync_TEExpression!expression
----

_trace ==
    LET SubSync_TETrace == INSTANCE SubSync_TETrace
    IN SubSync_TETrace!trace
----

_inv ==
    ~(
        TLCGet("level") = Len(_TETrace)
        /\
        todo = ({})
        /\
        call = (<<>>)
        /\
        ncalls = (3)
        /\
        subs = ({})
        /\
        told = (<<<<<<"S", "a">>, <<"S", "a">>, <<"U", "a">>>>, <<>>>>)
        /\
        reg = ({1})
        /\
        failed = ({})
        /\
        jpc = (<<"in", "out">>)
        /\
        snap = (<<{"a"}, {}>>)
    )
----

_init ==
    /\ jpc = _TETrace[1].jpc
    /\ subs = _TETrace[1].subs
    /\ todo = _TETrace[1].todo
    /\ ncalls = _TETrace[1].ncalls
    /\ told = _TETrace[1].told
    /\ reg = _TETrace[1].reg
    /\ call = _TETrace[1].call
    /\ snap = _TETrace[1].snap
    /\ failed = _TETrace[1].failed
----

_next ==
    /\ \E i,j \in DOMAIN _TETrace:
        /\ \/ /\ j = i + 1
              /\ i = TLCGet("level")
        /\ jpc  = _TETrace[i].jpc
        /\ jpc' = _TETrace[j].jpc
        /\ subs  = _TETrace[i].subs
        /\ subs' = _TETrace[j].subs
        /\ todo  = _TETrace[i].todo
        /\ todo' = _TETrace[j].todo
        /\ ncalls  = _TETrace[i].ncalls
        /\ ncalls' = _TETrace[j].ncalls
        /\ told  = _TETrace[i].told
        /\ told' = _TETrace[j].told
        /\ reg  = _TETrace[i].reg
        /\ reg' = _TETrace[j].reg
        /\ call  = _TETrace[i].call
        /\ call' = _TETrace[j].call
        /\ snap  = _TETrace[i].snap
        /\ snap' = _TETrace[j].snap
        /\ failed  = _TETrace[i].failed
        /\ failed' = _TETrace[j].failed

\* Uncomment the ASSUME below to write the states of the error trace
\* to the given file in Json format. Note that you can pass any tuple
\* to `JsonSerialize`. For example, a sub-sequence of _TETrace.
    \* ASSUME
    \*     LET J == INSTANCE Json
    \*         IN J!JsonSerialize("SubSync_TTrace_1790388124.json", _TETrace)

=============================================================================

 Note that you can extract this module `SubSync_TEExpression`
  to a dedicated file to reuse `expression` (the module in the 
  dedicated `SubSync_TEExpression.tla` file takes precedence 
  over the module `SubSync_TEExpression` below).

---- MODULE SubSync_TEExpression ----
EXTENDS Sequences, TLCExt, SubSync, Toolbox, Naturals, TLC

expression == 
    [
        \* To hide variables of the `SubSync` spec from the error trace,
        \* remove the variables below.  The trace will be written in the order
        \* of the fields of this record.
        jpc |-> jpc
        ,subs |-> subs
        ,todo |-> todo
        ,ncalls |-> ncalls
        ,told |-> told
        ,reg |-> reg
        ,call |-> call
        ,snap |-> snap
        ,failed |-> failed
        
        \* Put additional constant-, state-, and action-level expressions here:
        \* ,_stateNumber |-> _TEPosition
        \* ,_jpcUnchanged |-> jpc = jpc'
        
        \* Format the `jpc` variable as Json value.
        \* ,_jpcJson |->
        \*     LET J == INSTANCE Json
        \*     IN J!ToJson(jpc)
        
        \* Lastly, you may build expressions over arbitrary sets of states by
        \* leveraging the _TETrace operator.  For example, this is how to
        \* count the number of times a spec variable changed up to the current
        \* state in the trace.
        \* ,_jpcModCount |->
        \*     LET F[s \in DOMAIN _TETrace] ==
        \*         IF s = 1 THEN 0
        \*         ELSE IF _TETrace[s].jpc # _TETrace[s-1].jpc
        \*             THEN 1 + F[s-1] ELSE F[s-1]
        \*     IN F[_TEPosition - 1]
    ]

=============================================================================



Parsing and semantic processing can take forever if the trace below is long.
 In this case, it is advised to uncomment the module below to deserialize the
 trace from a generated binary file.

\*
\*---- MODULE SubSync_TETrace ----
\*EXTENDS IOUtils, SubSync, TLC
\*
\*trace == IODeserialize("SubSync_TTrace_1790388124.bin", TRUE)
\*
\*=============================================================================
\*

---- MODULE SubSync_TETrace ----
EXTENDS SubSync, TLC

trace == 
    <<
    ([todo |-> {},call |-> <<>>,ncalls |-> 0,subs |-> {},told |-> <<<<>>, <<>>>>,reg |-> {},failed |-> {},jpc |-> <<"out", "out">>,snap |-> <<{}, {}>>]),
    ([todo |-> {},call |-> <<"S", "a">>,ncalls |-> 1,subs |-> {"a"},told |-> <<<<>>, <<>>>>,reg |-> {},failed |-> {},jpc |-> <<"out", "out">>,snap |-> <<{}, {}>>]),
    ([todo |-> {},call |-> <<>>,ncalls |-> 1,subs |-> {"a"},told |-> <<<<>>, <<>>>>,reg |-> {},failed |-> {},jpc |-> <<"out", "out">>,snap |-> <<{}, {}>>]),
    ([todo |-> {},call |-> <<>>,ncalls |-> 1,subs |-> {"a"},told |-> <<<<>>, <<>>>>,reg |-> {},failed |-> {},jpc |-> <<"snap", "out">>,snap |-> <<{"a"}, {}>>]),
    ([todo |-> {},call |-> <<>>,ncalls |-> 1,subs |-> {"a"},told |-> <<<<<<"S", "a">>>>, <<>>>>,reg |-> {},failed |-> {},jpc |-> <<"sent", "out">>,snap |-> <<{"a"}, {}>>]),
    ([todo |-> {},call |-> <<>>,ncalls |-> 1,subs |-> {"a"},told |-> <<<<<<"S", "a">>>>, <<>>>>,reg |-> {1},failed |-> {},jpc |-> <<"in", "out">>,snap |-> <<{"a"}, {}>>]),
    ([todo |-> {1},call |-> <<"S", "a">>,ncalls |-> 2,subs |-> {"a"},told |-> <<<<<<"S", "a">>>>, <<>>>>,reg |-> {1},failed |-> {},jpc |-> <<"in", "out">>,snap |-> <<{"a"}, {}>>]),
    ([todo |-> {},call |-> <<>>,ncalls |-> 2,subs |-> {"a"},told |-> <<<<<<"S", "a">>, <<"S", "a">>>>, <<>>>>,reg |-> {1},failed |-> {},jpc |-> <<"in", "out">>,snap |-> <<{"a"}, {}>>]),
    ([todo |-> {1},call |-> <<"U", "a">>,ncalls |-> 3,subs |-> {},told |-> <<<<<<"S", "a">>, <<"S", "a">>>>, <<>>>>,reg |-> {1},failed |-> {},jpc |-> <<"in", "out">>,snap |-> <<{"a"}, {}>>]),
    ([todo |-> {},call |-> <<>>,ncalls |-> 3,subs |-> {},told |-> <<<<<<"S", "a">>, <<"S", "a">>, <<"U", "a">>>>, <<>>>>,reg |-> {1},failed |-> {},jpc |-> <<"in", "out">>,snap |-> <<{"a"}, {}>>])
    >>
----


=============================================================================

---- CONFIG SubSync_TTrace_1790388124 ----
CONSTANTS
    Peers = { 1 , 2 }
    Topics = { "a" , "b" }
    MaxCalls = 4
    Dev = { "resend_on_duplicate" }

INVARIANT
    _inv

CHECK_DEADLOCK
    \* CHECK_DEADLOCK off because of PROPERTY or INVARIANT above.
    FALSE

INIT
    _init

NEXT
    _next

CONSTANT
    _TETrace <- _trace

ALIAS
    _expression
=============================================================================
\* Generated on Sat Sep 26 02:02:05 UTC 2026