//! C19 driver: parse / format / re-parse every candidate endpoint string with the public API.
use serde_json::{json, Value};
use std::panic::{catch_unwind, AssertUnwindSafe};
use zeromq::{Endpoint, Host};

fn kind(e: &Endpoint) -> (&'static str, u32) {
    match e {
        Endpoint::Tcp(Host::Ipv4(_), p) => ("tcp-v4", *p as u32),
        Endpoint::Tcp(Host::Ipv6(_), p) => ("tcp-v6", *p as u32),
        Endpoint::Tcp(Host::Domain(_), p) => ("tcp-domain", *p as u32),
        Endpoint::Ipc(_) => ("ipc", 0),
        #[allow(unreachable_patterns)]
        _ => ("other", 0),
    }
}

pub fn c19(vectors: &[Value]) -> Vec<Value> {
    let mut out = Vec::with_capacity(vectors.len());
    for v in vectors {
        let codes: Vec<u32> = v.as_array().map(|a| a.iter().filter_map(|x| x.as_u64()).map(|x| x as u32).collect()).unwrap_or_default();
        let s: String = codes.iter().filter_map(|c| char::from_u32(*c)).collect();
        let r = catch_unwind(AssertUnwindSafe(|| {
            let p = s.parse::<Endpoint>();
            match p {
                Err(_) => json!({"res":"err"}),
                Ok(e) => {
                    let (k, port) = kind(&e);
                    let text = e.to_string();
                    let again = text.parse::<Endpoint>();
                    let rt = matches!(&again, Ok(e2) if *e2 == e);
                    // does the text form bracket the host?
                    let br = text.starts_with("tcp://[") && text.rfind("]:").is_some();
                    json!({"res":"ok","kind":k,"port":port,"rt":rt,"br":br})
                }
            }
        }));
        let mut e = r.unwrap_or_else(|_| json!({"res":"panic"}));
        e["ev"] = json!("ep");
        e["s"] = json!(codes);
        out.push(e);
    }
    out
}
