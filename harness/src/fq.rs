//! Binding R for the fair queue: replay TLC-generated behaviours of spec/FairQueue.tla (via GenFQ)
//! on the real queue through FairQueueProbe. "Other thread" actions of the model are executed
//! inside the scripted stream's poll_next, i.e. exactly in the window where the queue lock is
//! released. Emits (1) a layer-A trace for TraceFQ.tla and (2) layer-B drift notes.
use crate::sim::CountWaker;
use futures::Stream;
use serde_json::{json, Value};
use std::collections::HashMap;
use std::pin::Pin;
use std::sync::{Arc, Mutex};
use std::task::{Context, Poll, Waker};
use zeromq::__verif::{FairQueueProbe, ProbeHandle};

#[derive(Default)]
struct Src {
    avail: usize,
    closed: bool,
    waker: Option<Waker>,
    seq: usize,
    /// clones of the wakers this source was ever handed (a transport may keep and wake an old clone at any time)
    old: Vec<Waker>,
    /// generation of the connection behind this key: a stream object of an older generation belongs to a connection
    /// that was superseded by a newer one under the same key (it stays open and silent)
    gen: usize,
    /// what this source has produced is already in the stream's own buffer: handing it out needs no transport read
    buffered: bool,
}
struct World {
    script: Vec<Value>,
    cur: usize,
    srcs: HashMap<String, Src>,
    handle: Option<ProbeHandle<Scripted, String>>,
    drift: Vec<String>,
    out: Vec<Value>,
    /// cooperative-yield mode: until the current queue poll returns, every stream answers Pending after waking
    /// its own waker (what a runtime's exhausted task budget does when the task is polled outside a scheduler)
    exhausted: bool,
    polls_this_call: usize,
    livelocked: bool,
    /// a runtime's cooperative budget as tokio implements it (model-free scripts): reads per poll of the receiver task; a read
    /// beyond it is refused - Pending although data is there - and its waker is woken only after the task has yielded
    budget: Option<usize>,
    budget_left: usize,
    deferred: Vec<Waker>,
}
type Wd = Arc<Mutex<World>>;
struct Scripted {
    k: String,
    gen: usize,
    w: Wd,
}

fn ev(w: &Wd, v: Value) {
    w.lock().unwrap().out.push(v);
}

fn other_thread_action(w: &Wd, e: &Value) {
    let a = e["a"].as_str().unwrap_or("");
    let k = e["k"].as_str().unwrap_or("").to_string();
    match a {
        "Insert" => {
            let h = {
                let mut g = w.lock().unwrap();
                g.srcs.insert(k.clone(), Src::default());
                g.handle.clone().unwrap()
            };
            ev(w, json!({"ev":"ins","k":k}));
            h.insert(k.clone(), Scripted { k, gen: 0, w: w.clone() });
        }
        "Reinsert" => {
            // a new connection registers under a key that is still in the queue (a peer reconnecting under its identity while
            // the old connection is half-open): what the old connection had not delivered is gone with it, its waker is dead
            let (h, gen) = {
                let mut g = w.lock().unwrap();
                let s = g.srcs.entry(k.clone()).or_default();
                s.gen += 1;
                s.avail = 0;
                s.closed = false;
                s.waker = None;
                let gen = s.gen;
                (g.handle.clone().unwrap(), gen)
            };
            ev(w, json!({"ev":"reins","k":k}));
            h.insert(k.clone(), Scripted { k, gen, w: w.clone() });
        }
        "Produce" => {
            w.lock().unwrap().srcs.entry(k.clone()).or_default().avail += 1;
            ev(w, json!({"ev":"prod","k":k}));
        }
        "Close" => {
            w.lock().unwrap().srcs.entry(k.clone()).or_default().closed = true;
            ev(w, json!({"ev":"close","k":k}));
        }
        "Fire" => {
            let wk = w.lock().unwrap().srcs.get_mut(&k).and_then(|s| s.waker.take());
            match wk {
                Some(wk) => {
                    ev(w, json!({"ev":"fire","k":k}));
                    wk.wake();
                }
                None => w.lock().unwrap().drift.push(format!("Fire({}) but no waker registered", k)),
            }
        }
        "Wake" => {
            // model-free scripts: deliver the wake-up if the source owes one
            let wk = {
                let mut g = w.lock().unwrap();
                match g.srcs.get_mut(&k) {
                    Some(s) if s.avail > 0 || s.closed => s.waker.take(),
                    _ => None,
                }
            };
            if let Some(wk) = wk {
                ev(w, json!({"ev":"fire","k":k}));
                wk.wake();
            }
        }
        "StaleWake" => {
            // the source wakes an old clone of a waker it was handed earlier (duplicate / spurious wake-up)
            let wk = {
                let g = w.lock().unwrap();
                g.srcs.get(&k).and_then(|s| {
                    let i = e.get("i").and_then(|v| v.as_u64()).unwrap_or(0) as usize;
                    if s.old.is_empty() { None } else { Some(s.old[s.old.len() - 1 - (i % s.old.len())].clone()) }
                })
            };
            if let Some(wk) = wk {
                ev(w, json!({"ev":"fire","k":k,"stale":true}));
                wk.wake_by_ref();
            }
        }
        "StaleFire" => {
            // model-following: the source wakes the clone of the waker it got at its abs-th poll
            let abs = e.get("abs").and_then(|v| v.as_u64()).unwrap_or(1) as usize;
            let wk = w.lock().unwrap().srcs.get(&k).and_then(|s| s.old.get(abs - 1).cloned());
            match wk {
                Some(wk) => {
                    ev(w, json!({"ev":"fire","k":k,"stale":true}));
                    wk.wake_by_ref();
                }
                None => w.lock().unwrap().drift.push(format!("StaleFire({}, poll {}) but the source has no such waker", k, abs)),
            }
        }
        "Exhaust" => {
            w.lock().unwrap().exhausted = true;
            ev(w, json!({"ev":"exhaust"}));
        }
        "Budget" => {
            let mut g = w.lock().unwrap();
            g.budget = e.get("n").and_then(|v| v.as_u64()).map(|n| n as usize);
            g.budget_left = g.budget.unwrap_or(0);
        }
        "Buffered" => {
            w.lock().unwrap().srcs.entry(k.clone()).or_default().buffered = true;
        }
        "Remove" => {
            let h = w.lock().unwrap().handle.clone().unwrap();
            ev(w, json!({"ev":"rm","k":k}));
            h.remove(&k);
        }
        _ => {}
    }
}
fn is_other(e: &Value) -> bool {
    matches!(e["a"].as_str().unwrap_or(""), "Insert" | "Reinsert" | "Produce" | "Close" | "Fire" | "Remove" | "Wake" | "StaleWake" | "StaleFire" | "Exhaust" | "Budget" | "Buffered")
}

impl Stream for Scripted {
    type Item = (String, usize);
    fn poll_next(self: Pin<&mut Self>, cx: &mut Context<'_>) -> Poll<Option<Self::Item>> {
        let w = self.w.clone();
        let modelled = w.lock().unwrap().script.iter().any(|e| e["a"] == "PollStream");
        if modelled {
            // 1. the model must be at L1(res=poll, k=self.k), possibly after L3 / skipped L1s
            loop {
                let e = {
                    let g = w.lock().unwrap();
                    g.script.get(g.cur).cloned()
                };
                let Some(e) = e else {
                    w.lock().unwrap().drift.push("script exhausted inside window".into());
                    break;
                };
                let a = e["a"].as_str().unwrap_or("");
                if (a == "L3" && e["res"] != "parked") || (a == "L1" && e["res"] == "l1") {
                    w.lock().unwrap().cur += 1;
                    continue;
                }
                if a == "L1" && e["res"] == "poll" {
                    if e["k"].as_str().unwrap_or("") != self.k {
                        w.lock().unwrap().drift.push(format!("model polls {} but code polls {}", e["k"], self.k));
                    }
                    w.lock().unwrap().cur += 1;
                    break;
                }
                w.lock().unwrap().drift.push(format!("code polls stream {} but model is at {}", self.k, e));
                break;
            }
        }
        // 2. pre-answer other-thread actions (inside the unlocked window)
        loop {
            let e = {
                let g = w.lock().unwrap();
                g.script.get(g.cur).cloned()
            };
            match e {
                Some(e) if is_other(&e) => {
                    w.lock().unwrap().cur += 1;
                    other_thread_action(&w, &e);
                }
                _ => break,
            }
        }
        // 3. the stream's own answer
        let superseded = {
            let g = w.lock().unwrap();
            g.srcs.get(&self.k).map(|s| s.gen).unwrap_or(0) != self.gen
        };
        let yielding = !superseded && {
            let mut g = w.lock().unwrap();
            g.polls_this_call += 1;
            if g.exhausted && g.polls_this_call > 2000 {
                // the queue keeps re-polling self-waking streams without ever returning to its caller
                g.exhausted = false;
                if !g.livelocked {
                    g.livelocked = true;
                    let n = g.polls_this_call;
                    g.out.push(json!({"ev":"livelock","k":self.k,"polls":n}));
                }
            }
            g.exhausted
        };
        if yielding || superseded {
            if superseded {
                // the stream of a superseded connection: open, silent for ever
                ev(&w, json!({"ev":"spoll_old","k":self.k}));
            } else if w.lock().unwrap().polls_this_call <= 30 {
                ev(&w, json!({"ev":"spoll","k":self.k,"res":"pending","selfwake":true}));
            }
            {
                let mut g = w.lock().unwrap();
                let s = g.srcs.entry(self.k.clone()).or_default();
                if s.old.len() < 4096 {
                    s.old.push(cx.waker().clone());
                }
            }
            if yielding {
                cx.waker().wake_by_ref();
            }
            if modelled {
                let mut g = w.lock().unwrap();
                let e = g.script.get(g.cur).cloned();
                match e {
                    Some(e) if e["a"] == "PollStream" => {
                        if e["res"] != "l3" || (yielding && e["selfwake"] != true) {
                            g.drift.push(format!("PollStream model {} selfwake {} code {}", e["res"], e["selfwake"], if yielding { "yields" } else { "polls a superseded stream" }));
                        }
                        g.cur += 1;
                    }
                    other => g.drift.push(format!("expected PollStream, model at {:?}", other)),
                }
                drop(g);
                loop {
                    let e = {
                        let g = w.lock().unwrap();
                        g.script.get(g.cur).cloned()
                    };
                    match e {
                        Some(e) if is_other(&e) => {
                            w.lock().unwrap().cur += 1;
                            other_thread_action(&w, &e);
                        }
                        _ => break,
                    }
                }
            }
            return Poll::Pending;
        }
        {
            // the cooperative budget: a source whose data is not buffered needs a transport read
            let mut g = w.lock().unwrap();
            if g.budget.is_some() && !g.srcs.get(&self.k).map(|s| s.buffered).unwrap_or(false) {
                if g.budget_left == 0 {
                    g.deferred.push(cx.waker().clone());
                    g.out.push(json!({"ev":"spoll","k":self.k,"res":"pending","deferred":true}));
                    return Poll::Pending;
                }
                g.budget_left -= 1;
            }
        }
        let res = {
            let mut g = w.lock().unwrap();
            let s = g.srcs.entry(self.k.clone()).or_default();
            if s.old.len() < 4096 {
                s.old.push(cx.waker().clone());
            }
            if s.avail > 0 {
                s.avail -= 1;
                s.seq += 1;
                Poll::Ready(Some((self.k.clone(), s.seq)))
            } else if s.closed {
                Poll::Ready(None)
            } else {
                s.waker = Some(cx.waker().clone());
                Poll::Pending
            }
        };
        let want = match &res {
            Poll::Ready(Some(_)) => "l2",
            Poll::Ready(None) => "l1",
            Poll::Pending => "l3",
        };
        ev(&w, json!({"ev":"spoll","k":self.k,"res": match want {"l2" => "item", "l1" => "none", _ => "pending"}}));
        if modelled {
            let mut g = w.lock().unwrap();
            let e = g.script.get(g.cur).cloned();
            match e {
                Some(e) if e["a"] == "PollStream" => {
                    if e["res"] != want {
                        g.drift.push(format!("PollStream model {} code {}", e["res"], want));
                    }
                    g.cur += 1;
                }
                other => g.drift.push(format!("expected PollStream, model at {:?}", other)),
            }
        }
        // 4. post-answer other-thread actions, until L2/L3/L1
        loop {
            let e = {
                let g = w.lock().unwrap();
                g.script.get(g.cur).cloned()
            };
            match e {
                Some(e) if is_other(&e) => {
                    w.lock().unwrap().cur += 1;
                    other_thread_action(&w, &e);
                }
                _ => break,
            }
        }
        res
    }
}

fn snap_eq(model: &Value, h: &ProbeHandle<Scripted, String>, wakes: usize, delivered: &HashMap<String, usize>) -> Result<(), String> {
    let s = h.snapshot();
    let mut mready: Vec<(usize, String)> = model["ready"].as_array().map(|a| a.iter().map(|e| (e[0].as_u64().unwrap_or(0) as usize, e[1].as_str().unwrap_or("").to_string())).collect()).unwrap_or_default();
    mready.sort();
    let mut cready = s.ready.clone();
    cready.dedup();
    let mut mstreams: Vec<String> = model["streams"].as_array().map(|a| a.iter().map(|e| e.as_str().unwrap_or("").to_string()).collect()).unwrap_or_default();
    mstreams.sort();
    if mready != cready {
        return Err(format!("ready model {:?} code {:?}", mready, cready));
    }
    if model["nready"].as_u64().unwrap_or(0) as usize != s.ready.len() {
        return Err(format!("nready model {} code {}", model["nready"], s.ready.len()));
    }
    if mstreams != s.streams {
        return Err(format!("streams model {:?} code {:?}", mstreams, s.streams));
    }
    if model["waker"].as_bool().unwrap_or(false) != s.waker {
        return Err(format!("waker model {} code {}", model["waker"], s.waker));
    }
    if model["counter"].as_u64().unwrap_or(0) as usize != s.counter {
        return Err(format!("counter model {} code {}", model["counter"], s.counter));
    }
    if model["wakes"].as_u64().unwrap_or(0) as usize != wakes {
        return Err(format!("wakes model {} code {}", model["wakes"], wakes));
    }
    if let Some(o) = model["delivered"].as_object() {
        for (k, v) in o {
            if v.as_u64().unwrap_or(0) as usize != *delivered.get(k).unwrap_or(&0) {
                return Err(format!("delivered[{}] model {} code {:?}", k, v, delivered.get(k)));
            }
        }
    }
    Ok(())
}

pub struct FqStats {
    pub behaviours: usize,
    pub steps: usize,
    pub polls: usize,
    pub window_polls: usize,
    pub compared: usize,
    pub drifted: usize,
    pub drift_samples: Vec<String>,
    /// behaviours cut short where the code took a step the lock-granular model does not contain
    pub left_model: usize,
}

/// Replays scripts (one JSON array per line). Returns layer-A trace and stats.
pub fn replay(scripts: &[Value]) -> (Vec<Value>, FqStats) {
    let mut st = FqStats { behaviours: 0, steps: 0, polls: 0, window_polls: 0, compared: 0, drifted: 0, drift_samples: vec![], left_model: 0 };
    let mut trace = vec![];
    for sc in scripts {
        let script: Vec<Value> = sc.as_array().cloned().unwrap_or_default();
        st.behaviours += 1;
        st.steps += script.len();
        let mut probe: FairQueueProbe<Scripted, String> = FairQueueProbe::new(true);
        let w: Wd = Arc::new(Mutex::new(World { script, cur: 0, srcs: HashMap::new(), handle: Some(probe.handle()), drift: vec![], out: vec![], exhausted: false, polls_this_call: 0, livelocked: false, budget: None, budget_left: 0, deferred: vec![] }));
        ev(&w, json!({"ev":"reset","scen":st.behaviours}));
        // one counting waker per receiver future ("generation"): a cancelled recv's waker is dead, a wake
        // that only reaches a dead waker does not wake the current receiver
        let wakers: std::cell::RefCell<Vec<Arc<CountWaker>>> = std::cell::RefCell::new(vec![CountWaker::new()]);
        let cur_count = || wakers.borrow().last().unwrap().count();
        let total_count = || wakers.borrow().iter().map(|w| w.count()).sum::<usize>();
        let mut delivered: HashMap<String, usize> = HashMap::new();
        let mut wakes_at_ret = 0usize;
        let mut parked = false;
        let poll_fn = |probe: &mut FairQueueProbe<Scripted, String>, w: &Wd, delivered: &mut HashMap<String, usize>, parked: &mut bool, wakes_at_ret: &mut usize| -> Poll<Option<(String, (String, usize))>> {
            let waker = futures::task::waker(wakers.borrow().last().unwrap().clone());
            let mut cx = Context::from_waker(&waker);
            let woken = cur_count() > *wakes_at_ret;
            ev(w, json!({"ev":"poll","woken":woken,"parked":*parked}));
            w.lock().unwrap().polls_this_call = 0;
            let before = cur_count();
            let r = probe.poll_next(&mut cx);
            w.lock().unwrap().exhausted = false; // the caller got control back: a new task poll starts with a fresh budget
            // executor semantics: a wake-up delivered to this future's waker while it was being polled counts
            *wakes_at_ret = before;
            if r.is_ready() {
                // the call returned: the next call is a new future, polled with a new waker
                wakers.borrow_mut().push(CountWaker::new());
                *wakes_at_ret = 0;
            }
            match &r {
                Poll::Ready(Some((k, (_, seq)))) => {
                    *delivered.entry(k.clone()).or_default() += 1;
                    *parked = false;
                    ev(w, json!({"ev":"ret","res":"item","k":k,"seq":seq}));
                }
                Poll::Ready(None) => {
                    *parked = false;
                    ev(w, json!({"ev":"ret","res":"none"}));
                }
                Poll::Pending => {
                    *parked = true;
                    ev(w, json!({"ev":"ret","res":"pending"}));
                    // the receiver task has given control back: fresh budget, deferred wake-ups are delivered
                    let ws = {
                        let mut g = w.lock().unwrap();
                        g.budget_left = g.budget.unwrap_or(0);
                        std::mem::take(&mut g.deferred)
                    };
                    for wk in ws {
                        wk.wake();
                    }
                }
            }
            r
        };
        loop {
            let e = {
                let g = w.lock().unwrap();
                g.script.get(g.cur).cloned()
            };
            let Some(e) = e else { break };
            let a = e["a"].as_str().unwrap_or("").to_string();
            if is_other(&e) {
                w.lock().unwrap().cur += 1;
                other_thread_action(&w, &e);
                continue;
            }
            match a.as_str() {
                "Cancel" => {
                    w.lock().unwrap().cur += 1;
                    parked = false; // the pending call was abandoned; the next call is a new future with a new waker
                    wakers.borrow_mut().push(CountWaker::new());
                    wakes_at_ret = 0;
                    ev(&w, json!({"ev":"cancel"}));
                }
                "Nop" => {
                    w.lock().unwrap().cur += 1;
                }
                "Poll" => {
                    // model-free script: just poll
                    w.lock().unwrap().cur += 1;
                    st.polls += 1;
                    let _ = poll_fn(&mut probe, &w, &mut delivered, &mut parked, &mut wakes_at_ret);
                }
                "Begin" => {
                    if probe.round_yield_due() {
                        // the code is about to take a step spec/FairQueue.tla does not contain (it yields after a round of
                        // deliveries with a stream waiting, fix ff5a291, modelled in spec/Budget.tla): the rest of this
                        // behaviour cannot be followed step by step; what was recorded so far is still judged by layer A
                        st.left_model += 1;
                        break;
                    }
                    w.lock().unwrap().cur += 1;
                    let before = w.lock().unwrap().cur;
                    st.polls += 1;
                    let r = poll_fn(&mut probe, &w, &mut delivered, &mut parked, &mut wakes_at_ret);
                    let mut expect: Option<Value> = None;
                    loop {
                        let e = {
                            let g = w.lock().unwrap();
                            g.script.get(g.cur).cloned()
                        };
                        let Some(e) = e else { break };
                        let a = e["a"].as_str().unwrap_or("");
                        if (a == "L3" && e["res"] != "parked") || (a == "L1" && e["res"] == "l1") {
                            w.lock().unwrap().cur += 1;
                            continue;
                        }
                        if a == "L3" {
                            // every stream had its turn: the call gives control back (and has woken itself if events remain)
                            if !r.is_pending() {
                                w.lock().unwrap().drift.push("model yields but code returned Ready".into());
                            }
                            expect = Some(e["snap"].clone());
                            w.lock().unwrap().cur += 1;
                            break;
                        }
                        if a == "L2" {
                            if !matches!(r, Poll::Ready(Some(_))) {
                                w.lock().unwrap().drift.push("model L2 but code did not return an item".into());
                            }
                            expect = Some(e["snap"].clone());
                            w.lock().unwrap().cur += 1;
                            break;
                        }
                        if a == "L1" && e["res"] == "parked" {
                            if !r.is_pending() {
                                w.lock().unwrap().drift.push("model parked but code returned Ready".into());
                            }
                            expect = Some(e["snap"].clone());
                            w.lock().unwrap().cur += 1;
                            break;
                        }
                        w.lock().unwrap().drift.push(format!("after poll_next model is at {}", e));
                        break;
                    }
                    if w.lock().unwrap().cur - before > 2 {
                        st.window_polls += 1;
                    }
                    if let Some(snap) = expect {
                        st.compared += 1;
                        if let Err(m) = snap_eq(&snap, &probe.handle(), total_count(), &delivered) {
                            w.lock().unwrap().drift.push(m);
                        }
                    }
                }
                other => {
                    w.lock().unwrap().drift.push(format!("unexpected top-level model action {}", other));
                    w.lock().unwrap().cur += 1;
                }
            }
            if !w.lock().unwrap().drift.is_empty() {
                // the model no longer describes this execution: stop following it, but keep judging at layer A
                break;
            }
        }
        // epilogue (model-free, layer A only): sources deliver every wake-up they owe, then the receiver
        // runs as an executor would (re-polled only when woken) until nothing moves.
        {
            let mut g = w.lock().unwrap();
            let n = g.script.len();
            g.cur = n;
            let keep: Vec<Value> = vec![];
            g.script = keep; // model-free from here on
        }
        for _round in 0..200 {
            // flush owed wakes
            let owed: Vec<String> = {
                let g = w.lock().unwrap();
                g.srcs.iter().filter(|(_, s)| s.waker.is_some() && (s.avail > 0 || s.closed)).map(|(k, _)| k.clone()).collect()
            };
            for k in owed {
                other_thread_action(&w, &json!({"a":"Fire","k":k}));
            }
            let woken = cur_count() > wakes_at_ret;
            if parked && !woken {
                break;
            }
            st.polls += 1;
            let r = poll_fn(&mut probe, &w, &mut delivered, &mut parked, &mut wakes_at_ret);
            if let Poll::Ready(None) = r {
                break;
            }
        }
        let woken = cur_count() > wakes_at_ret;
        ev(&w, json!({"ev":"idle","parked":parked,"woken":woken}));
        let mut g = w.lock().unwrap();
        if !g.drift.is_empty() {
            st.drifted += 1;
            if st.drift_samples.len() < 5 {
                st.drift_samples.push(format!("behaviour {}: {:?}", st.behaviours, g.drift));
            }
        }
        trace.append(&mut g.out);
        g.handle = None; // break the Arc cycle
        g.srcs.clear();
    }
    (trace, st)
}
