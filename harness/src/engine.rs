//! Script interpreter: executes a scenario (list of ops) against one real socket whose peers are
//! scripted raw ZMTP speakers on in-memory pipes, and records a trace in the shared vocabulary.
#![allow(dead_code)]
use crate::refcodec as rc;
use crate::sim::{self, CountWaker, H, R, W};
use bytes::Bytes;
use serde_json::{json, Value};
use std::collections::BTreeMap;
use std::future::Future;
use std::io::ErrorKind;
use std::panic::{catch_unwind, AssertUnwindSafe};
use std::pin::Pin;
use std::sync::atomic::{AtomicBool, Ordering};
use std::sync::{Arc, Mutex};
use std::task::{Poll, Waker};
use zeromq::prelude::*;
use zeromq::util::PeerIdentity;
use zeromq::*;

pub static PANICS: Mutex<Vec<String>> = Mutex::new(Vec::new());
pub fn install_panic_hook() {
    std::panic::set_hook(Box::new(|info| {
        let msg = format!("{}", info);
        PANICS.lock().unwrap().push(msg.chars().take(200).collect());
    }));
}
pub fn take_panics() -> Vec<String> {
    std::mem::take(&mut *PANICS.lock().unwrap())
}

pub enum AnySock {
    Req(ReqSocket),
    Rep(RepSocket),
    Dealer(DealerSocket),
    Router(RouterSocket),
    Push(PushSocket),
    Pull(PullSocket),
    Pub(PubSocket),
    Sub(SubSocket),
    XPub(XPubSocket),
}
/// a future that is woken again and again is re-polled up to this many times before the driver calls it stalled (a 70 KB
/// message written one byte at a time over a pipe that yields at every fifth write needs ~30 000 polls)
pub const MAX_POLLS: usize = 3_000_000;
/// times a future was still being woken when the cap was reached (reported as harness_error: either a livelock in the
/// code under test or a cap that is too small; never silently taken for "pending")
pub static POLL_CAP_HITS: std::sync::atomic::AtomicUsize = std::sync::atomic::AtomicUsize::new(0);
pub type BoxFut<'a, T> = Pin<Box<dyn Future<Output = T> + Send + 'a>>;
pub const ALL_TYPES: [&str; 9] = ["REQ", "REP", "DEALER", "ROUTER", "PUSH", "PULL", "PUB", "SUB", "XPUB"];
pub const RECV_TYPES: [&str; 7] = ["REQ", "REP", "DEALER", "ROUTER", "PULL", "SUB", "XPUB"];

impl AnySock {
    pub fn new(t: &str, ident: Option<Vec<u8>>) -> AnySock {
        let mut o = SocketOptions::default();
        if let Some(id) = ident {
            if let Ok(p) = PeerIdentity::try_from(id) {
                o.peer_identity(p);
            }
        }
        match t {
            "REQ" => AnySock::Req(ReqSocket::with_options(o)),
            "REP" => AnySock::Rep(RepSocket::with_options(o)),
            "DEALER" => AnySock::Dealer(DealerSocket::with_options(o)),
            "ROUTER" => AnySock::Router(RouterSocket::with_options(o)),
            "PUSH" => AnySock::Push(PushSocket::with_options(o)),
            "PULL" => AnySock::Pull(PullSocket::with_options(o)),
            "PUB" => AnySock::Pub(PubSocket::with_options(o)),
            "SUB" => AnySock::Sub(SubSocket::with_options(o)),
            "XPUB" => AnySock::XPub(XPubSocket::with_options(o)),
            _ => panic!("unknown socket type {}", t),
        }
    }
    /// close(): returns the number of errors it reported
    pub async fn close(self) -> usize {
        match self {
            AnySock::Req(s) => s.close().await.len(),
            AnySock::Rep(s) => s.close().await.len(),
            AnySock::Dealer(s) => s.close().await.len(),
            AnySock::Router(s) => s.close().await.len(),
            AnySock::Push(s) => s.close().await.len(),
            AnySock::Pull(s) => s.close().await.len(),
            AnySock::Pub(s) => s.close().await.len(),
            AnySock::Sub(s) => s.close().await.len(),
            AnySock::XPub(s) => s.close().await.len(),
        }
    }
    pub fn backend(&self) -> Arc<dyn MultiPeerBackend> {
        match self {
            AnySock::Req(s) => s.backend(),
            AnySock::Rep(s) => s.backend(),
            AnySock::Dealer(s) => s.backend(),
            AnySock::Router(s) => s.backend(),
            AnySock::Push(s) => s.backend(),
            AnySock::Pull(s) => s.backend(),
            AnySock::Pub(s) => s.backend(),
            AnySock::Sub(s) => s.backend(),
            AnySock::XPub(s) => s.backend(),
        }
    }
    pub fn recv(&mut self) -> Option<BoxFut<'_, ZmqResult<ZmqMessage>>> {
        Some(match self {
            AnySock::Req(s) => s.recv(),
            AnySock::Rep(s) => s.recv(),
            AnySock::Dealer(s) => s.recv(),
            AnySock::Router(s) => s.recv(),
            AnySock::Pull(s) => s.recv(),
            AnySock::Sub(s) => s.recv(),
            AnySock::XPub(s) => s.recv(),
            _ => return None,
        })
    }
    pub fn send(&mut self, m: ZmqMessage) -> Option<BoxFut<'_, ZmqResult<()>>> {
        Some(match self {
            AnySock::Req(s) => s.send(m),
            AnySock::Rep(s) => s.send(m),
            AnySock::Dealer(s) => s.send(m),
            AnySock::Router(s) => s.send(m),
            AnySock::Push(s) => s.send(m),
            AnySock::Pub(s) => s.send(m),
            AnySock::XPub(s) => s.send(m),
            _ => return None,
        })
    }
    pub fn subscribe<'a>(&'a mut self, t: &'a str, on: bool) -> Option<BoxFut<'a, ZmqResult<()>>> {
        match self {
            AnySock::Sub(s) => Some(if on { Box::pin(s.subscribe(t)) } else { Box::pin(s.unsubscribe(t)) }),
            _ => None,
        }
    }
}

pub fn to_msg(frames: &[Vec<u8>]) -> ZmqMessage {
    let v: Vec<Bytes> = frames.iter().map(|f| Bytes::from(f.clone())).collect();
    if v.is_empty() {
        // the message shape "no frames": the public API can build it (split_off, pop_front)
        let mut m = ZmqMessage::from("x");
        return m.split_off(1);
    }
    ZmqMessage::try_from(v).expect("non-empty message")
}
pub fn from_msg(m: &ZmqMessage) -> Vec<Vec<u8>> {
    m.iter().map(|b| b.to_vec()).collect()
}
pub fn errkind(e: &ZmqError) -> (String, Option<Vec<Vec<u8>>>) {
    match e {
        ZmqError::Endpoint(_) => ("Endpoint".into(), None),
        ZmqError::Network(x) => (format!("Network:{:?}", x.kind()), None),
        ZmqError::NoSuchBind(_) => ("NoSuchBind".into(), None),
        ZmqError::Codec(x) => (format!("Codec:{}", x), None),
        ZmqError::Socket(s) => (format!("Socket:{}", s), None),
        ZmqError::BufferFull(_) => ("BufferFull".into(), None),
        ZmqError::ReturnToSender { reason, message } => (format!("ReturnToSender:{}", reason), Some(from_msg(message))),
        ZmqError::ReturnToSenderMultipart { .. } => ("ReturnToSenderMultipart".into(), None),
        ZmqError::Task(_) => ("Task".into(), None),
        ZmqError::Other(s) => (format!("Other:{}", s), None),
        ZmqError::NoMessage => ("NoMessage".into(), None),
        ZmqError::PeerIdentity => ("PeerIdentity".into(), None),
        ZmqError::UnsupportedVersion(_) => ("UnsupportedVersion".into(), None),
    }
}

// ---------------------------------------------------------------------------------------------
// gate controller for yield points
pub struct GateCtl {
    pub hold: Mutex<Option<String>>,
    pub reached: AtomicBool,
    pub waker: Mutex<Option<Waker>>,
    /// the gate holds ONE task (the first to arrive); later arrivals pass, so that two tasks that reach the same point
    /// are interleaved instead of both being parked on one waker slot
    pub owner: Mutex<Option<u64>>,
    pub next_id: std::sync::atomic::AtomicU64,
}
pub static GATE: std::sync::OnceLock<Arc<GateCtl>> = std::sync::OnceLock::new();
pub fn gate() -> Arc<GateCtl> {
    GATE.get_or_init(|| {
        let g = Arc::new(GateCtl { hold: Mutex::new(None), reached: AtomicBool::new(false), waker: Mutex::new(None), owner: Mutex::new(None), next_id: std::sync::atomic::AtomicU64::new(1) });
        zeromq::__verif::install_gate(Some(g.clone()));
        g
    })
    .clone()
}
impl zeromq::__verif::Gate for GateCtl {
    fn at(&self, name: &'static str) -> Pin<Box<dyn Future<Output = ()> + Send>> {
        let me = gate();
        let id = me.next_id.fetch_add(1, Ordering::SeqCst);
        Box::pin(futures::future::poll_fn(move |cx| {
            let mut held = me.hold.lock().unwrap().as_deref() == Some(name);
            if held {
                let mut owner = me.owner.lock().unwrap();
                match *owner {
                    None => *owner = Some(id),
                    Some(o) if o == id => {}
                    Some(_) => held = false,
                }
            }
            if held {
                me.reached.store(true, Ordering::SeqCst);
                *me.waker.lock().unwrap() = Some(cx.waker().clone());
                sim::bump();
                Poll::Pending
            } else {
                Poll::Ready(())
            }
        }))
    }
}
impl GateCtl {
    pub fn set_hold(&self, name: Option<String>) {
        *self.hold.lock().unwrap() = name;
        *self.owner.lock().unwrap() = None;
        self.reached.store(false, Ordering::SeqCst);
        if let Some(w) = self.waker.lock().unwrap().take() {
            w.wake();
        }
    }
}

// ---------------------------------------------------------------------------------------------
pub struct Conn {
    /// the peer announced no identity or an empty one: the socket must assign a fresh unique identity
    pub auto_ident: bool,
    pub to_lib: H,
    pub from_lib: H,
    pub scanned: usize,
    pub attached: bool,
    pub ident: Option<Vec<u8>>,
    pub rel_logged: (bool, bool),
    pub seen_logged: (bool, bool, bool),
    /// the scripted peer has closed / reset its end: it writes nothing more
    pub closed: bool,
}
pub struct Pending {
    pub fut: BoxFut<'static, ZmqResult<PeerIdentity>>,
    pub waker: Arc<CountWaker>,
    pub polls: usize,
    pub seen_wakes: usize,
}

pub struct Env {
    pub backend: Arc<dyn MultiPeerBackend>,
    pub conns: BTreeMap<i64, Conn>,
    pub attaching: BTreeMap<i64, Pending>,
    pub out: Vec<Value>,
    pub waker: Arc<CountWaker>,
    pub seq: u64,
    pub partial_sends: BTreeMap<i64, (Vec<u8>, usize, Vec<String>)>,
    /// connection on which the library last wrote a complete application message
    pub last_wire_conn: Option<i64>,
    /// scenario-level: pipes answer with hostile-but-legal readiness (self-waking Pending, late wake-ups of old wakers)
    pub jitter: Option<u64>,
    pub jitter_writes: bool,
    /// identity each connection announced in its READY (non-empty ones only)
    pub announced: BTreeMap<i64, Vec<u8>>,
}

pub enum Driven<T> {
    Done(T),
    Stalled,
    Panicked(String),
}

pub fn poll_catch<F: Future + ?Sized>(f: &mut Pin<Box<F>>, w: &Arc<CountWaker>) -> Result<Poll<F::Output>, String> {
    sim::IN_APP_POLL.store(true, Ordering::SeqCst);
    let polled = catch_unwind(AssertUnwindSafe(|| sim::poll_once(f, w)));
    sim::IN_APP_POLL.store(false, Ordering::SeqCst);
    match polled {
        Ok(p) => Ok(p),
        Err(e) => {
            let msg = if let Some(s) = e.downcast_ref::<&str>() {
                s.to_string()
            } else if let Some(s) = e.downcast_ref::<String>() {
                s.clone()
            } else {
                "panic".to_string()
            };
            Err(msg)
        }
    }
}

pub async fn drive_catch<F: Future + ?Sized>(f: &mut Pin<Box<F>>, w: &Arc<CountWaker>, max_polls: usize, polls: &mut usize) -> Driven<F::Output> {
    loop {
        let before = w.count();
        *polls += 1;
        match poll_catch(f, w) {
            Err(m) => return Driven::Panicked(m),
            Ok(Poll::Ready(x)) => return Driven::Done(x),
            Ok(Poll::Pending) => {}
        }
        // the caller's task gives control back to the executor
        sim::task_yielded();
        sim::settle().await;
        if w.count() == before {
            return Driven::Stalled;
        }
        if *polls >= max_polls {
            POLL_CAP_HITS.fetch_add(1, Ordering::SeqCst);
            return Driven::Stalled;
        }
    }
}

/// frame notation in scripts: plain hex, or "~<len>:<fill byte hex>:<prefix hex>" = prefix followed by fill bytes up to len
fn hexs(v: &Value) -> Vec<u8> {
    let s = v.as_str().unwrap_or("");
    if let Some(rest) = s.strip_prefix('~') {
        let mut it = rest.splitn(3, ':');
        let len: usize = it.next().and_then(|x| x.parse().ok()).unwrap_or(0);
        let fill = it.next().map(rc::unhex).and_then(|b| b.first().copied()).unwrap_or(b'.');
        let mut b = rc::unhex(it.next().unwrap_or(""));
        b.resize(len.max(b.len()), fill);
        b.truncate(len);
        return b;
    }
    rc::unhex(s)
}
pub fn frames_of(v: &Value) -> Vec<Vec<u8>> {
    v.as_array().map(|a| a.iter().map(hexs).collect()).unwrap_or_default()
}
fn kind_of(s: &str) -> ErrorKind {
    match s {
        "reset" => ErrorKind::ConnectionReset,
        "aborted" => ErrorKind::ConnectionAborted,
        "brokenpipe" => ErrorKind::BrokenPipe,
        "timedout" => ErrorKind::TimedOut,
        _ => ErrorKind::Other,
    }
}

/// TLC's Json module cannot read null (and empty objects are useless): drop such fields.
pub fn sanitize(v: &mut Value) {
    if let Value::Object(m) = v {
        let keys: Vec<String> = m.iter().filter(|(_, x)| x.is_null() || x.as_object().map(|o| o.is_empty()).unwrap_or(false)).map(|(k, _)| k.clone()).collect();
        for k in keys {
            m.remove(&k);
        }
        for (_, x) in m.iter_mut() {
            sanitize(x);
        }
    } else if let Value::Array(a) = v {
        for x in a.iter_mut() {
            if x.is_null() {
                *x = Value::String("null".into());
            }
            sanitize(x);
        }
    }
}

impl Env {
    pub fn new(backend: Arc<dyn MultiPeerBackend>) -> Env {
        Env { backend, conns: BTreeMap::new(), attaching: BTreeMap::new(), out: vec![], waker: CountWaker::new(), seq: 0, partial_sends: BTreeMap::new(), last_wire_conn: None, jitter: None, jitter_writes: false, announced: BTreeMap::new() }
    }
    pub fn ev(&mut self, mut v: Value) {
        sanitize(&mut v);
        self.seq += 1;
        v["i"] = json!(self.seq);
        self.out.push(v);
    }
    /// interpret what the library wrote since the last scan; log panics from spawned tasks
    pub fn scan(&mut self) {
        for p in take_panics() {
            self.ev(json!({"ev":"panic","msg":p}));
        }
        let ids: Vec<i64> = self.conns.keys().copied().collect();
        // what the library wrote since the last scan, on all connections, in the order the bytes were accepted
        let mut found: Vec<(u64, Value)> = vec![];
        for c in ids.iter().copied() {
            let (tap, scanned) = {
                let k = &self.conns[&c];
                (k.from_lib.tap_from(k.scanned), k.scanned)
            };
            if !tap.is_empty() {
                let p = rc::parse(&tap, scanned == 0);
                let mut off = scanned;
                for it in &p.items {
                    off += match it {
                        rc::WItem::Greeting(_) => 64,
                        rc::WItem::Command(b) => b.len() + if b.len() > 255 { 9 } else { 2 },
                        rc::WItem::Message(m) => m.iter().map(|f| f.len() + if f.len() > 255 { 9 } else { 2 }).sum(),
                    };
                    let clock = self.conns[&c].from_lib.clock_at(off);
                    match it {
                        rc::WItem::Greeting(_) => found.push((clock, json!({"ev":"wire","c":c,"k":"greeting"}))),
                        rc::WItem::Command(b) => found.push((clock, json!({"ev":"wire","c":c,"k":"cmd","b":rc::hex(b)}))),
                        rc::WItem::Message(m) => {
                            let n: usize = m.iter().map(|f| f.len() + if f.len() > 255 { 9 } else { 2 }).sum();
                            let mut e = json!({"ev":"wire","c":c,"k":"msg","m":rc::mdesc(m),"n":n,"off":off});
                            if m.len() == 1 && m[0].len() <= 16 && !m[0].is_empty() {
                                e["f0"] = json!(m[0]);
                            }
                            found.push((clock, e))
                        }
                    }
                }
                self.conns.get_mut(&c).unwrap().scanned = scanned + p.consumed;
            }
        }
        found.sort_by_key(|x| x.0);
        for (_, e) in found {
            if e["k"] == "msg" {
                self.last_wire_conn = e["c"].as_i64();
            }
            self.ev(e);
        }
        for c in ids.iter().copied() {
            // the socket has observed the end of this connection
            let (r, w, logged) = {
                let k = &self.conns[&c];
                (k.to_lib.seen(), k.from_lib.seen(), k.seen_logged)
            };
            let now = (r.0, r.1, w.2);
            if now.0 && !logged.0 {
                self.ev(json!({"ev":"observed","c":c,"how":"eof"}));
            }
            if now.1 && !logged.1 {
                self.ev(json!({"ev":"observed","c":c,"how":"rerr"}));
            }
            if now.2 && !logged.2 {
                self.ev(json!({"ev":"observed","c":c,"how":"werr"}));
            }
            self.conns.get_mut(&c).unwrap().seen_logged = now;
        }
        for c in ids {
            let (rd, wd, logged) = {
                let k = &self.conns[&c];
                (k.to_lib.rdropped(), k.from_lib.wdropped(), k.rel_logged)
            };
            if rd && !logged.0 {
                self.ev(json!({"ev":"released","c":c,"half":"r"}));
            }
            if wd && !logged.1 {
                self.ev(json!({"ev":"released","c":c,"half":"w"}));
            }
            self.conns.get_mut(&c).unwrap().rel_logged = (rd, wd);
        }
    }
    /// bytes the library wrote on c that do not (yet) form a complete item
    pub fn partials(&self) -> Value {
        let mut m = serde_json::Map::new();
        for (c, k) in &self.conns {
            let n = k.from_lib.tap_len() - k.scanned;
            if n > 0 {
                m.insert(c.to_string(), json!(n));
            }
        }
        Value::Object(m)
    }

    fn hello(op: &Value) -> Vec<Vec<u8>> {
        // returns segments
        if let Some(segs) = op.get("segs").and_then(|s| s.as_array()) {
            return segs.iter().map(hexs).collect();
        }
        let ptype = op["ptype"].as_str().unwrap_or("DEALER");
        let ident = op.get("ident").and_then(|v| v.as_str()).map(rc::unhex);
        let mut b = rc::greeting();
        b.extend(rc::ready(ptype, ident.as_deref()));
        if let Some(x) = op.get("extra").and_then(|v| v.as_str()) {
            b.extend(rc::unhex(x));
        }
        if op.get("first").is_some() {
            b.extend(rc::enc_msg(&frames_of(&op["first"])));
        }
        let mut cuts: Vec<usize> = op.get("split").and_then(|v| v.as_array()).map(|a| a.iter().filter_map(|x| x.as_u64()).map(|x| x as usize).collect()).unwrap_or_default();
        cuts.retain(|k| *k > 0 && *k < b.len());
        cuts.sort();
        cuts.dedup();
        let mut segs = vec![];
        let mut last = 0;
        for k in cuts {
            segs.push(b[last..k].to_vec());
            last = k;
        }
        segs.push(b[last..].to_vec());
        segs
    }

    /// ops that do not need `&mut socket`
    pub async fn env_op(&mut self, op: &Value) -> bool {
        let name = op["op"].as_str().unwrap_or("");
        let mut c = op.get("c").and_then(|v| v.as_i64()).unwrap_or(0);
        if name == "preply" {
            c = self.last_wire_conn.unwrap_or(0);
        }
        if matches!(name, "psend" | "preply" | "pbegin" | "pfinish" | "pbytes") && self.conns.get(&c).map(|k| k.closed).unwrap_or(false) {
            return true; // a peer that has closed its end writes nothing more
        }
        if matches!(name, "pclose" | "pfail") {
            if let Some(k) = self.conns.get_mut(&c) {
                k.closed = true;
            }
        }
        match name {
            "attach" | "attach_raw" => {
                let (to_lib, from_lib) = (H::new(), H::new());
                if let Some(j) = self.jitter {
                    let seed = j.wrapping_mul(1_000_003).wrapping_add(c as u64 * 7919);
                    to_lib.set_jitter(seed, false);
                    from_lib.set_jitter(seed ^ 0x9e37_79b9, self.jitter_writes);
                }
                for s in Self::hello(op) {
                    to_lib.push(&s);
                }
                if op.get("close").and_then(|v| v.as_bool()).unwrap_or(false) {
                    to_lib.close();
                }
                if let Some(k) = op.get("credit") {
                    from_lib.credit(k.as_u64().map(|x| x as usize));
                }
                if let Some(k) = op.get("wbreak").and_then(|v| v.as_str()) {
                    from_lib.break_pipe(kind_of(k));
                }
                let auto_ident = op.get("ident").and_then(|v| v.as_str()).map(|s| s.is_empty()).unwrap_or(true);
                if !auto_ident {
                    self.announced.insert(c, rc::unhex(op["ident"].as_str().unwrap_or("")));
                }
                self.conns.insert(c, Conn { auto_ident, to_lib: to_lib.clone(), from_lib: from_lib.clone(), scanned: 0, attached: false, ident: None, rel_logged: (false, false), seen_logged: (false, false, false), closed: false });
                let fut: BoxFut<'static, ZmqResult<PeerIdentity>> = Box::pin(zeromq::__verif::attach(self.backend.clone(), R(to_lib), W(from_lib)));
                self.attaching.insert(c, Pending { fut, waker: CountWaker::new(), polls: 0, seen_wakes: 0 });
                let announced = self.announced.get(&c).map(|a| rc::fdesc(a));
                self.ev(json!({"ev":"attach_call","c":c,"ptype":op.get("ptype").cloned().unwrap_or(Value::Null),"ident":op.get("ident").cloned().unwrap_or(Value::Null),"announced":announced}));
                if op.get("first").is_some() {
                    self.ev(json!({"ev":"peer_wrote","c":c,"m":rc::mdesc(&frames_of(&op["first"])),"with_handshake":true}));
                }
                if name == "attach_raw" {
                    self.ev(json!({"ev":"peer_bytes","c":c,"n":0,"raw_handshake":true}));
                }
                if op.get("close").and_then(|v| v.as_bool()).unwrap_or(false) {
                    self.ev(json!({"ev":"peer_cut","c":c,"kind":"eof"}));
                }
                self.attach_drive(c).await;
            }
            "attach_wait" => {
                self.attach_drive(c).await;
            }
            "gate_hold" => {
                gate().set_hold(op.get("name").and_then(|v| v.as_str()).map(|s| s.to_string()));
            }
            "gate_release" => {
                gate().set_hold(None);
                sim::settle().await;
                let ids: Vec<i64> = self.attaching.keys().copied().collect();
                for c in ids {
                    self.attach_drive(c).await;
                }
            }
            "psend" => {
                let frames = frames_of(&op["m"]);
                let b = rc::enc_msg(&frames);
                self.push_cut(c, &b, op.get("cuts"));
                self.ev(json!({"ev":"peer_wrote","c":c,"m":rc::mdesc(&frames),"note":op.get("note").cloned().unwrap_or(Value::Null)}));
            }
            "pburst" => {
                // several messages arrive in ONE segment: a single transport read brings them all into the library's read buffer
                let mut all = vec![];
                let ms: Vec<Vec<Vec<u8>>> = op.get("ms").and_then(|v| v.as_array()).map(|a| a.iter().map(frames_of).collect()).unwrap_or_default();
                for frames in &ms {
                    all.extend(rc::enc_msg(frames));
                }
                self.push_cut(c, &all, None);
                for frames in &ms {
                    self.ev(json!({"ev":"peer_wrote","c":c,"m":rc::mdesc(frames)}));
                }
            }
            "preply" => {
                // the peer that received the library's last message answers (no-op if nothing was written yet)
                if let Some(lc) = self.last_wire_conn {
                    let frames = frames_of(&op["m"]);
                    let b = rc::enc_msg(&frames);
                    self.push_cut(lc, &b, op.get("cuts"));
                    self.ev(json!({"ev":"peer_wrote","c":lc,"m":rc::mdesc(&frames)}));
                }
            }
            "preply_or_close" => {
                // the peer that received the library's last message either answers or, if it is one of `close`, closes
                if let Some(lc) = self.last_wire_conn {
                    let closes = op.get("close").and_then(|v| v.as_array()).map(|a| a.iter().any(|x| x.as_i64() == Some(lc))).unwrap_or(false);
                    if closes {
                        if let Some(k) = self.conns.get_mut(&lc) {
                            if !k.closed {
                                k.closed = true;
                                k.to_lib.close();
                                self.ev(json!({"ev":"peer_cut","c":lc,"kind":"eof"}));
                            }
                        }
                    } else {
                        let frames = frames_of(&op["m"]);
                        let b = rc::enc_msg(&frames);
                        self.push_cut(lc, &b, op.get("cuts"));
                        self.ev(json!({"ev":"peer_wrote","c":lc,"m":rc::mdesc(&frames)}));
                    }
                }
            }
            "pbegin" => {
                // first part of a message (per-mille of its encoding); completed by "pfinish"
                let frames = frames_of(&op["m"]);
                let b = rc::enc_msg(&frames);
                let pm = op.get("upto").and_then(|v| v.as_u64()).unwrap_or(500) as usize;
                let cutp = (b.len() * pm / 1000).clamp(1, b.len().saturating_sub(1).max(1));
                if let Some(k) = self.conns.get(&c) {
                    k.to_lib.push(&b[..cutp.min(b.len())]);
                }
                self.ev(json!({"ev":"peer_part","c":c,"n":cutp}));
                self.partial_sends.insert(c, (b, cutp, rc::mdesc(&frames)));
            }
            "pfinish" => {
                if let Some((b, cutp, d)) = self.partial_sends.remove(&c) {
                    if let Some(k) = self.conns.get(&c) {
                        k.to_lib.push(&b[cutp.min(b.len())..]);
                    }
                    self.ev(json!({"ev":"peer_wrote","c":c,"m":d}));
                }
            }
            "pbytes" => {
                let b = hexs(&op["b"]);
                self.push_cut(c, &b, op.get("cuts"));
                self.ev(json!({"ev":"peer_bytes","c":c,"n":b.len()}));
            }
            "pclose" => {
                if let Some(k) = self.conns.get(&c) {
                    k.to_lib.close();
                }
                self.ev(json!({"ev":"peer_cut","c":c,"kind":"eof"}));
            }
            "pfail" => {
                let kind = op.get("kind").and_then(|v| v.as_str()).unwrap_or("reset");
                if let Some(k) = self.conns.get(&c) {
                    k.to_lib.fail_read(kind_of(kind));
                }
                self.ev(json!({"ev":"peer_cut","c":c,"kind":kind}));
            }
            "wbreak" => {
                let kind = op.get("kind").and_then(|v| v.as_str()).unwrap_or("brokenpipe");
                if let Some(k) = self.conns.get(&c) {
                    k.from_lib.break_pipe(kind_of(kind));
                }
                self.ev(json!({"ev":"pipe","c":c,"what":"break","kind":kind}));
            }
            "credit" => {
                let k = op.get("k").and_then(|v| v.as_u64()).map(|x| x as usize);
                if let Some(cn) = self.conns.get(&c) {
                    cn.from_lib.credit(k);
                }
                let tap = self.conns.get(&c).map(|k| k.from_lib.tap_len()).unwrap_or(0);
                self.ev(json!({"ev":"pipe","c":c,"what":"credit","k":op.get("k").cloned().unwrap_or(Value::Null),"tap":tap}));
            }
            "maxw" => {
                let k = op.get("k").and_then(|v| v.as_u64()).map(|x| x as usize);
                if let Some(cn) = self.conns.get(&c) {
                    cn.from_lib.max_write(k);
                }
            }
            "expect_wire" => {
                // has the library written message m (complete) on connection c so far?
                sim::settle().await;
                let want = frames_of(&op["m"]);
                let ok = self.conns.get(&c).map(|k| {
                    let p = rc::parse(&k.from_lib.tap(), true);
                    p.items.iter().any(|it| matches!(it, rc::WItem::Message(m) if *m == want))
                }).unwrap_or(false);
                self.ev(json!({"ev":"expect_wire","c":c,"ok":ok,"m":rc::mdesc(&want)}));
            }
            "spurious" => {
                if let Some(k) = self.conns.get(&c) {
                    k.to_lib.spurious_read_wake();
                }
            }
            "settle" => {
                sim::settle().await;
            }
            "budget" => {
                // the application's task gets k transport reads per poll of the task (a runtime's cooperative budget)
                sim::set_budget(op.get("k").and_then(|v| v.as_i64()));
                sim::BUDGET_WRITES.store(op.get("writes").and_then(|v| v.as_bool()).unwrap_or(false), Ordering::SeqCst);
            }
            _ => return false,
        }
        sim::settle().await;
        self.redrive_attaching().await;
        self.scan();
        true
    }

    /// a suspended handshake whose waker fired is polled again, as an executor would (e.g. it was waiting for a
    /// lock that has been handed to it); never leave a woken future unpolled
    pub async fn redrive_attaching(&mut self) {
        let ids: Vec<i64> = self.attaching.iter().filter(|(_, p)| p.waker.count() > p.seen_wakes).map(|(c, _)| *c).collect();
        for c in ids {
            self.attach_drive(c).await;
        }
    }

    fn push_cut(&mut self, c: i64, b: &[u8], cuts: Option<&Value>) {
        let Some(k) = self.conns.get(&c) else { return };
        let mut cuts: Vec<usize> = cuts.and_then(|v| v.as_array()).map(|a| a.iter().filter_map(|x| x.as_u64()).map(|x| x as usize).collect()).unwrap_or_default();
        cuts.retain(|x| *x > 0 && *x < b.len());
        cuts.sort();
        cuts.dedup();
        let mut last = 0;
        for x in cuts {
            k.to_lib.push(&b[last..x]);
            last = x;
        }
        k.to_lib.push(&b[last..]);
    }

    async fn attach_drive(&mut self, c: i64) {
        let Some(mut p) = self.attaching.remove(&c) else { return };
        let r = drive_catch(&mut p.fut, &p.waker, 200, &mut p.polls).await;
        self.scan();
        match r {
            Driven::Done(Ok(id)) => {
                let idb: Vec<u8> = id.into();
                if let Some(k) = self.conns.get_mut(&c) {
                    k.attached = true;
                    k.ident = Some(idb.clone());
                }
                let auto = self.conns.get(&c).map(|k| k.auto_ident).unwrap_or(false);
                let announced = self.announced.get(&c).map(|a| rc::fdesc(a));
                self.ev(json!({"ev":"attach_ret","c":c,"res":"ok","id":rc::fdesc(&idb),"idhex":rc::hex(&idb),"polls":p.polls,"auto":auto,"announced":announced}));
            }
            Driven::Done(Err(e)) => {
                let (k, _) = errkind(&e);
                self.ev(json!({"ev":"attach_ret","c":c,"res":"err","err":k,"polls":p.polls}));
            }
            Driven::Panicked(m) => {
                take_panics();
                self.ev(json!({"ev":"panic","where":"attach","c":c,"msg":m}));
                self.ev(json!({"ev":"attach_ret","c":c,"res":"panic","polls":p.polls}));
            }
            Driven::Stalled => {
                self.ev(json!({"ev":"attach_pending","c":c,"polls":p.polls,"gate":gate().reached.load(Ordering::SeqCst)}));
                p.seen_wakes = p.waker.count();
                self.attaching.insert(c, p);
            }
        }
    }
}

enum Call<'a> {
    Recv(BoxFut<'a, ZmqResult<ZmqMessage>>),
    Send(BoxFut<'a, ZmqResult<()>>, Vec<String>),
    Sub(BoxFut<'a, ZmqResult<()>>, bool, String),
}

/// Run one scenario; returns the trace.
pub async fn run_scenario(sc: &Value) -> Vec<Value> {
    let stype = sc["sock"].as_str().unwrap_or("PULL").to_string();
    let ident = sc.get("identity").and_then(|v| v.as_str()).map(rc::unhex);
    let mut sock = AnySock::new(&stype, ident);
    let mut env = Env::new(sock.backend());
    env.jitter = sc.get("jitter").and_then(|v| v.as_u64());
    // a PUB-type socket drops a message for a subscriber whose pipe is not writable at that instant: a write that
    // answers Pending there is a (momentarily) slow subscriber by definition, so writes are not jittered for them
    env.jitter_writes = !matches!(stype.as_str(), "PUB" | "XPUB");
    gate().set_hold(None);
    sim::set_budget(None);
    take_panics();
    env.ev(json!({"ev":"reset","scen":sc.get("scen").cloned().unwrap_or(json!(0)),"sock":stype,"tag":sc.get("tag").cloned().unwrap_or(Value::Null),"jitter":env.jitter,"fair":true}));
    let ops: Vec<Value> = sc["ops"].as_array().cloned().unwrap_or_default();
    let mut i = 0usize;
    let mut dropped: Option<Value> = None;
    while i < ops.len() {
        let op = &ops[i];
        i += 1;
        let name = op["op"].as_str().unwrap_or("").to_string();
        if name == "drop_socket" {
            dropped = Some(op.clone());
            break;
        }
        let topic_owned: String = op.get("t").and_then(|v| v.as_str()).unwrap_or("").to_string();
        let mut call: Option<Call<'_>> = match name.as_str() {
            "recv" | "recv_poll" => match sock.recv() {
                Some(f) => {
                    env.ev(json!({"ev":"recv_call"}));
                    Some(Call::Recv(f))
                }
                None => None,
            },
            "send_burst" => {
                // the application sends in a tight loop: nothing else runs on the thread between two sends (no task of the
                // socket gets a turn) unless a send itself gives control back
                let ms: Vec<Vec<Vec<u8>>> = op.get("ms").and_then(|v| v.as_array()).map(|a| a.iter().map(frames_of).collect()).unwrap_or_default();
                let mut refusals = sim::BUDGET_REFUSALS.load(Ordering::SeqCst);
                for frames in ms {
                    // a write the runtime refused (cooperative budget) is a connection that did not take data at that instant
                    let r = sim::BUDGET_REFUSALS.load(Ordering::SeqCst);
                    if r != refusals {
                        refusals = r;
                        let cs: Vec<(i64, usize)> = env.conns.iter().filter(|(_, k)| k.attached).map(|(c, k)| (*c, k.from_lib.tap_len())).collect();
                        for (c, tap) in cs {
                            env.ev(json!({"ev":"pipe","c":c,"what":"refused","tap":tap}));
                        }
                    }
                    let d = rc::mdesc(&frames);
                    let n: usize = frames.iter().map(|f| f.len() + if f.len() > 255 { 9 } else { 2 }).sum();
                    let first: Vec<u8> = frames.first().map(|f| f[..f.len().min(16)].to_vec()).unwrap_or_default();
                    let Some(mut f) = sock.send(to_msg(&frames)) else { continue };
                    env.ev(json!({"ev":"send_call","m":d,"n":n,"note":{"first":first}}));
                    let w = CountWaker::new();
                    let mut polls = 0usize;
                    loop {
                        polls += 1;
                        let before = w.count();
                        match poll_catch(&mut f, &w) {
                            Err(m) => {
                                take_panics();
                                env.ev(json!({"ev":"panic","where":"send","msg":m}));
                                env.ev(json!({"ev":"send_ret","res":"panic","polls":polls}));
                                break;
                            }
                            Ok(Poll::Ready(Ok(()))) => {
                                env.scan();
                                let parts = env.partials();
                                env.ev(json!({"ev":"send_ret","res":"ok","polls":polls,"partials":parts}));
                                break;
                            }
                            Ok(Poll::Ready(Err(e))) => {
                                env.scan();
                                let (k, ret) = errkind(&e);
                                env.ev(json!({"ev":"send_ret","res":"err","err":k,"returned":ret.map(|r| rc::mdesc(&r)),"polls":polls}));
                                break;
                            }
                            Ok(Poll::Pending) => {
                                // the send gave control back: the executor runs what is runnable
                                sim::task_yielded();
                                sim::settle().await;
                                env.scan();
                                if w.count() == before || polls > 1000 {
                                    env.ev(json!({"ev":"send_pending","polls":polls,"wakes":w.count()}));
                                    env.ev(json!({"ev":"send_dropped","polls":polls}));
                                    break;
                                }
                            }
                        }
                    }
                }
                None
            }
            "send" | "send_to" => {
                let mut frames = frames_of(&op["m"]);
                if name == "send_to" {
                    // address the message to the identity connection c was registered under
                    let c = op.get("c").and_then(|v| v.as_i64()).unwrap_or(0);
                    let id = env.conns.get(&c).and_then(|k| k.ident.clone()).unwrap_or_else(|| b"no-such-connection".to_vec());
                    frames.insert(0, id);
                }
                let d = rc::mdesc(&frames);
                match sock.send(to_msg(&frames)) {
                    Some(f) => {
                        let n: usize = frames.iter().map(|f| f.len() + if f.len() > 255 { 9 } else { 2 }).sum();
                        env.ev(json!({"ev":"send_call","m":d,"n":n,"note":op.get("note").cloned().unwrap_or(Value::Null)}));
                        Some(Call::Send(f, d))
                    }
                    None => None,
                }
            }
            "sub" | "unsub" => {
                let on = name == "sub";
                match sock.subscribe(&topic_owned, on) {
                    Some(f) => {
                        env.ev(json!({"ev":"sub_call","on":on,"t":topic_owned,"tb":topic_owned.as_bytes()}));
                        Some(Call::Sub(f, on, topic_owned.clone()))
                    }
                    None => None,
                }
            }
            "quiescent" => {
                sim::settle().await;
                env.scan();
                let parts = env.partials();
                env.ev(json!({"ev":"quiescent","pending":"none","partials":parts}));
                None
            }
            // the call these refer to has already completed: nothing to do
            "recv_drop" | "recv_wait" | "call_drop" | "call_wait" | "call_poll" => None,
            _ => {
                if !env.env_op(op).await {
                    env.ev(json!({"ev":"harness_error","what":format!("unknown or inapplicable op {}", name)}));
                }
                None
            }
        };
        let Some(mut the_call) = call.take() else { continue };
        // pending mode: the call future borrows the socket
        let w = CountWaker::new();
        let mut polls = 0usize;
        let mut mode = name.clone(); // how to advance first
        let mut base = 0usize; // wake count seen right before the last poll of the call future
        let mut quiescent_after = false;
        loop {
            let single = mode == "recv_poll" || mode == "call_poll";
            let before = w.count();
            let res = match &mut the_call {
                Call::Recv(f) => {
                    if single {
                        polls += 1;
                        match poll_catch(f, &w) {
                            Err(m) => Driven::Panicked(m),
                            Ok(Poll::Ready(x)) => Driven::Done(x.map(Some)),
                            Ok(Poll::Pending) => {
                                sim::settle().await;
                                Driven::Stalled
                            }
                        }
                    } else {
                        match drive_catch(f, &w, MAX_POLLS, &mut polls).await {
                            Driven::Done(x) => Driven::Done(x.map(Some)),
                            Driven::Stalled => Driven::Stalled,
                            Driven::Panicked(m) => Driven::Panicked(m),
                        }
                    }
                }
                Call::Send(f, _) | Call::Sub(f, _, _) => {
                    if single {
                        polls += 1;
                        match poll_catch(f, &w) {
                            Err(m) => Driven::Panicked(m),
                            Ok(Poll::Ready(x)) => Driven::Done(x.map(|_| None)),
                            Ok(Poll::Pending) => {
                                sim::settle().await;
                                Driven::Stalled
                            }
                        }
                    } else {
                        match drive_catch(f, &w, MAX_POLLS, &mut polls).await {
                            Driven::Done(x) => Driven::Done(x.map(|_| None)),
                            Driven::Stalled => Driven::Stalled,
                            Driven::Panicked(m) => Driven::Panicked(m),
                        }
                    }
                }
            };
            base = if single { before } else { w.count() };
            env.redrive_attaching().await;
            env.scan();
            let what = match &the_call {
                Call::Recv(_) => "recv",
                Call::Send(..) => "send",
                Call::Sub(..) => "sub",
            };
            let mut finished = true;
            match res {
                Driven::Done(Ok(m)) => {
                    let parts = env.partials();
                    match m {
                        Some(m) => env.ev(json!({"ev":"recv_ret","res":"ok","m":rc::mdesc(&from_msg(&m)),"polls":polls,"wakes":w.count()})),
                        None => env.ev(json!({"ev":format!("{}_ret", what),"res":"ok","polls":polls,"partials":parts})),
                    }
                }
                Driven::Done(Err(e)) => {
                    let (k, ret) = errkind(&e);
                    let parts = env.partials();
                    env.ev(json!({"ev":format!("{}_ret", what),"res":"err","err":k,"returned":ret.map(|r| rc::mdesc(&r)),"polls":polls,"partials":parts}));
                }
                Driven::Panicked(m) => {
                    take_panics();
                    env.ev(json!({"ev":"panic","where":what,"msg":m}));
                    env.ev(json!({"ev":format!("{}_ret", what),"res":"panic","polls":polls}));
                }
                Driven::Stalled => {
                    env.ev(json!({"ev":format!("{}_pending", what),"polls":polls,"wakes":w.count()}));
                    finished = false;
                }
            }
            if quiescent_after {
                quiescent_after = false;
                let parts = env.partials();
                let woken = w.count() > base;
                env.ev(json!({"ev":"quiescent","pending": if finished { "none" } else { what },"woken_since_poll":woken,"partials":parts}));
            }
            if finished {
                break;
            }
            // process further ops while the call is pending
            let mut done = false;
            loop {
                if i >= ops.len() {
                    // end of script with the call still pending: abandon it
                    env.ev(json!({"ev":format!("{}_dropped", what),"polls":polls,"at_end":true}));
                    done = true;
                    break;
                }
                let op2 = &ops[i];
                i += 1;
                let n2 = op2["op"].as_str().unwrap_or("");
                match n2 {
                    "call_drop" | "recv_drop" => {
                        env.scan();
                        let parts = env.partials();
                        env.ev(json!({"ev":format!("{}_dropped", what),"polls":polls,"partials":parts}));
                        done = true;
                        break;
                    }
                    "call_wait" | "recv_wait" | "recv" => {
                        mode = "wait".into();
                        break;
                    }
                    "call_poll" | "recv_poll" => {
                        mode = "call_poll".into();
                        break;
                    }
                    "quiescent" => {
                        // quiescence includes the executor: a woken future is re-polled first
                        sim::settle().await;
                        env.scan();
                        if w.count() > base {
                            mode = "wait".into();
                            quiescent_after = true;
                            break;
                        }
                        let parts = env.partials();
                        env.ev(json!({"ev":"quiescent","pending":what,"woken_since_poll":false,"partials":parts}));
                    }
                    "send" | "send_to" | "sub" | "unsub" if what == "recv" => {
                        // the application can only make another call after abandoning the pending recv
                        env.ev(json!({"ev":"recv_dropped","polls":polls,"implicit":true}));
                        i -= 1;
                        done = true;
                        break;
                    }
                    _ => {
                        if !env.env_op(op2).await {
                            env.ev(json!({"ev":"harness_error","what":format!("op {} while {} pending", n2, what)}));
                        }
                    }
                }
            }
            if done {
                break;
            }
        }
        drop(the_call);
        sim::settle().await;
        env.redrive_attaching().await;
        env.scan();
    }
    sim::settle().await;
    env.scan();
    if let Some(op) = dropped {
        // C17, in-memory: the application drops (or closes) the socket in the middle of the script; the harness keeps no
        // reference to the backend either (the pending attach futures hold theirs, like the library's handshake tasks);
        // the remaining ops are environment ops only (gate_release, settle, ...); at the end every half must be released
        let how = op.get("how").and_then(|v| v.as_str()).unwrap_or("drop").to_string();
        env.ev(json!({"ev":"sock_dropped","how":how,"state":op.get("state").cloned().unwrap_or(json!("?")),"handshakes_in_flight":env.attaching.len()}));
        let dummy = AnySock::new("PULL", None);
        env.backend = dummy.backend();
        if how == "close" {
            let mut f: BoxFut<'static, usize> = Box::pin(sock.close());
            let w = CountWaker::new();
            let mut polls = 0;
            match drive_catch(&mut f, &w, MAX_POLLS, &mut polls).await {
                Driven::Done(n) => env.ev(json!({"ev":"close_ret","res":"ok","errors":n})),
                Driven::Stalled => env.ev(json!({"ev":"close_ret","res":"pending"})),
                Driven::Panicked(m) => {
                    take_panics();
                    env.ev(json!({"ev":"panic","where":"close","msg":m}));
                }
            }
        } else {
            drop(sock);
        }
        sim::settle().await;
        env.redrive_attaching().await;
        env.scan();
        while i < ops.len() {
            let op2 = &ops[i];
            i += 1;
            if !env.env_op(op2).await {
                env.ev(json!({"ev":"harness_error","what":format!("op {} after drop_socket", op2["op"].as_str().unwrap_or(""))}));
            }
            env.redrive_attaching().await;
            env.scan();
        }
        gate().set_hold(None);
        sim::settle().await;
        let ids: Vec<i64> = env.attaching.keys().copied().collect();
        for c in ids {
            env.attach_drive(c).await;
        }
        let still = env.attaching.len();
        env.attaching.clear(); // a handshake still blocked on its peer is owned by the harness here (F19 is judged on the real transport)
        sim::settle().await;
        env.scan();
        env.ev(json!({"ev":"end","after_drop":true,"handshakes_abandoned":still}));
        drop(dummy);
        return std::mem::take(&mut env.out);
    }
    let parts = env.partials();
    env.ev(json!({"ev":"quiescent","pending":"none","partials":parts,"final":true}));
    gate().set_hold(None);
    env.attaching.clear(); // abandoned handshakes are dropped before the socket
    drop(sock);
    sim::settle().await;
    env.scan();
    if POLL_CAP_HITS.swap(0, Ordering::SeqCst) > 0 {
        env.ev(json!({"ev":"harness_error","what":"a future was still being woken after MAX_POLLS polls"}));
    }
    env.ev(json!({"ev":"end"}));
    std::mem::take(&mut env.out)
}

// ---------------------------------------------------------------------------------------------
// proxy scenarios (C15): a real proxy(ROUTER, DEALER, capture) future polled by hand; scripted clients on the
// frontend, scripted workers on the backend, a scripted sink on the capture socket

pub async fn run_proxy_scenario(sc: &Value) -> Vec<Value> {
    let mut front = RouterSocket::new();
    let mut back = DealerSocket::new();
    if sc.get("prepoll").and_then(|v| v.as_bool()).unwrap_or(false) {
        // the application tried recv on both sockets from another task and gave up, before handing them to the proxy
        let other = CountWaker::new();
        {
            let mut f = front.recv();
            let _ = poll_catch(&mut f, &other);
        }
        {
            let mut f = back.recv();
            let _ = poll_catch(&mut f, &other);
        }
    }
    let cap_kind = sc.get("capture").and_then(|v| v.as_str()).unwrap_or("PUSH").to_string();
    let (cap_backend, cap): (Option<Arc<dyn MultiPeerBackend>>, Option<Box<dyn CaptureSocket>>) = match cap_kind.as_str() {
        "PUSH" => {
            let s = PushSocket::new();
            (Some(s.backend()), Some(Box::new(s)))
        }
        "PUB" => {
            let s = PubSocket::new();
            (Some(s.backend()), Some(Box::new(s)))
        }
        "DEALER" => {
            let s = DealerSocket::new();
            (Some(s.backend()), Some(Box::new(s)))
        }
        _ => (None, None),
    };
    let fb = front.backend();
    let bb = back.backend();
    let mut env = Env::new(fb.clone());
    env.jitter = sc.get("jitter").and_then(|v| v.as_u64());
    gate().set_hold(None);
    take_panics();
    env.ev(json!({"ev":"reset","scen":sc.get("scen").cloned().unwrap_or(json!(0)),"sock":"PROXY","capture":cap_kind,"jitter":env.jitter}));
    let ops: Vec<Value> = sc["ops"].as_array().cloned().unwrap_or_default();
    // attach phase ops may appear anywhere; the proxy future is created up front
    let mut fut: Pin<Box<dyn Future<Output = ZmqResult<()>>>> = Box::pin(zeromq::proxy(front, back, cap));
    let w = CountWaker::new();
    let mut polls = 0usize;
    let mut finished = false;
    let mut seen_wakes = usize::MAX; // wake count at the last poll; MAX = never polled
    for op in &ops {
        let name = op["op"].as_str().unwrap_or("");
        match name {
            "attach" => {
                let side = op.get("side").and_then(|v| v.as_str()).unwrap_or("front");
                env.backend = match side {
                    "back" => bb.clone(),
                    "cap" => match &cap_backend {
                        Some(b) => b.clone(),
                        None => continue,
                    },
                    _ => fb.clone(),
                };
                env.jitter_writes = !(side == "cap" && cap_kind == "PUB");
                let c = op.get("c").and_then(|v| v.as_i64()).unwrap_or(0);
                env.ev(json!({"ev":"side","c":c,"side":side}));
                env.env_op(op).await;
            }
            "poll" | "drive" => {
                if finished {
                    continue;
                }
                // executor semantics: a parked future is polled again only after its waker fired
                if seen_wakes != usize::MAX && w.count() == seen_wakes {
                    env.ev(json!({"ev":"proxy_pending","polls":polls,"not_woken":true}));
                    continue;
                }
                seen_wakes = w.count();
                let r = if name == "poll" {
                    polls += 1;
                    match poll_catch(&mut fut, &w) {
                        Err(m) => Driven::Panicked(m),
                        Ok(Poll::Ready(x)) => Driven::Done(x),
                        Ok(Poll::Pending) => {
                            sim::settle().await;
                            Driven::Stalled
                        }
                    }
                } else {
                    let r = drive_catch(&mut fut, &w, MAX_POLLS, &mut polls).await;
                    seen_wakes = w.count();
                    r
                };
                env.scan();
                match r {
                    Driven::Done(x) => {
                        finished = true;
                        let e = x.err().map(|e| errkind(&e).0);
                        env.ev(json!({"ev":"proxy_ended","err":e,"polls":polls}));
                    }
                    Driven::Panicked(m) => {
                        finished = true;
                        take_panics();
                        env.ev(json!({"ev":"panic","where":"proxy","msg":m}));
                    }
                    Driven::Stalled => env.ev(json!({"ev":"proxy_pending","polls":polls})),
                }
            }
            "quiescent" => {
                sim::settle().await;
                if !finished && (seen_wakes == usize::MAX || w.count() > seen_wakes) {
                    let r = drive_catch(&mut fut, &w, MAX_POLLS, &mut polls).await;
                    seen_wakes = w.count();
                    if let Driven::Done(x) = r {
                        finished = true;
                        let e = x.err().map(|e| errkind(&e).0);
                        env.ev(json!({"ev":"proxy_ended","err":e,"polls":polls}));
                    }
                }
                sim::settle().await;
                env.scan();
                let parts = env.partials();
                env.ev(json!({"ev":"quiescent","pending":"proxy","partials":parts,"final":op.get("final").and_then(|v| v.as_bool()).unwrap_or(false)}));
            }
            _ => {
                if !env.env_op(op).await {
                    env.ev(json!({"ev":"harness_error","what":format!("unknown op {}", name)}));
                }
            }
        }
    }
    env.attaching.clear();
    drop(fut);
    sim::settle().await;
    env.scan();
    if POLL_CAP_HITS.swap(0, Ordering::SeqCst) > 0 {
        env.ev(json!({"ev":"harness_error","what":"a future was still being woken after MAX_POLLS polls"}));
    }
    env.ev(json!({"ev":"end"}));
    std::mem::take(&mut env.out)
}
