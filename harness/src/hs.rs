//! C04 driver: one scripted raw peer per configuration cell against the real handshake.
use crate::engine::{self, AnySock, BoxFut, Driven};
use crate::refcodec as rc;
use crate::sim::{self, CountWaker, H, R, W};
use serde_json::{json, Value};
use std::collections::HashSet;
use std::panic::{catch_unwind, AssertUnwindSafe};
use std::str::FromStr;
use zeromq::SocketType;

fn peer_bytes(cell: &Value) -> (Vec<u8>, Option<Vec<u8>>) {
    let ver = (cell["ver"][0].as_u64().unwrap_or(3) as u8, cell["ver"][1].as_u64().unwrap_or(0) as u8);
    let mut g = rc::greeting_with(ver.0, ver.1, cell["mech"].as_str().unwrap_or("NULL").as_bytes(), false);
    match cell["sig"].as_str().unwrap_or("ok") {
        "bad0" => g[0] = 0xfe,
        "bad9" => g[9] = 0x00,
        _ => {}
    }
    let ident: Option<Vec<u8>> = match cell["ident"].as_str().unwrap_or("none") {
        "empty" => Some(vec![]),
        "one" => Some(b"A".to_vec()),
        "max255" => Some(vec![b'm'; 255]),
        "over256" => Some(vec![b'o'; 256]),
        _ => None,
    };
    let first = match cell["first"].as_str().unwrap_or("ready") {
        "ready" => {
            let mut props: Vec<(Vec<u8>, Vec<u8>)> = vec![];
            let ncase = cell["ncase"].as_str().unwrap_or("canonical");
            let name = |n: &[u8]| -> Vec<u8> {
                match ncase {
                    "lower" => n.to_ascii_lowercase(),
                    "upper" => n.to_ascii_uppercase(),
                    _ => n.to_vec(),
                }
            };
            let pt = cell["ptype"].as_str().unwrap_or("missing");
            if pt != "missing" {
                props.push((name(b"Socket-Type"), pt.as_bytes().to_vec()));
            }
            if let Some(id) = &ident {
                props.push((name(b"Identity"), id.clone()));
            }
            rc::enc_frame_raw(4, &rc::cmd_body(b"READY", &props), false)
        }
        "othercmd" => rc::enc_frame_raw(4, &rc::cmd_body(b"ERROR", &[]), false),
        _ => rc::enc_msg(&[b"x".to_vec()]),
    };
    g.extend(first);
    (g, ident)
}

fn followup(loc: &str, tag: &[u8]) -> Vec<Vec<u8>> {
    match loc {
        "REP" => vec![vec![], tag.to_vec()],
        "REQ" => vec![vec![], tag.to_vec()],
        "XPUB" | "PUB" => vec![[&[1u8][..], tag].concat()],
        _ => vec![tag.to_vec()],
    }
}

pub async fn c04(cells: &[Value]) -> Vec<Value> {
    let mut out = vec![];
    let mut autoids: Vec<Vec<u8>> = vec![];
    for (k, v) in cells.iter().enumerate() {
        let cell = &v["cell"];
        let loc = cell["loc"].as_str().unwrap_or("PULL").to_string();
        let mut sock = AnySock::new(&loc, None);
        let (to_lib, from_lib) = (H::new(), H::new());
        let (bytes, ident) = peer_bytes(cell);
        to_lib.push(&bytes);
        let mut fut: BoxFut<'static, _> = Box::pin(zeromq::__verif::attach(sock.backend(), R(to_lib.clone()), W(from_lib.clone())));
        let w = CountWaker::new();
        let mut polls = 0;
        let mut r = engine::drive_catch(&mut fut, &w, 100, &mut polls).await;
        let mut stalled = false;
        if let Driven::Stalled = r {
            // the library is waiting for more bytes: the peer hangs up, now it has to decide
            stalled = true;
            to_lib.close();
            r = engine::drive_catch(&mut fut, &w, 100, &mut polls).await;
        }
        drop(fut);
        sim::settle().await;
        let (res, id): (&str, Option<Vec<u8>>) = match r {
            Driven::Done(Ok(id)) => ("ok", Some(id.into())),
            Driven::Done(Err(_)) => ("err", None),
            Driven::Panicked(_) => {
                engine::take_panics();
                ("panic", None)
            }
            Driven::Stalled => ("err", None),
        };
        let mut idok = true;
        if let Some(id) = &id {
            match &ident {
                Some(a) if !a.is_empty() => idok = id == a,
                _ => {
                    idok = id.len() == 16;
                    autoids.push(id.clone());
                }
            }
        }
        // later traffic on this connection
        let tag = format!("t{}", k).into_bytes();
        let mut traffic = false;
        if !to_lib.rdropped() && !stalled {
            to_lib.push(&rc::enc_msg(&followup(&loc, &tag)));
        }
        sim::settle().await;
        let is_recv = engine::RECV_TYPES.contains(&loc.as_str()) && loc != "REQ";
        if is_recv {
            let rw = CountWaker::new();
            let got = {
                let mut rf = sock.recv().unwrap();
                let mut p = 0;
                match engine::drive_catch(&mut rf, &rw, 50, &mut p).await {
                    Driven::Done(Ok(m)) => Some(engine::from_msg(&m)),
                    Driven::Panicked(_) => {
                        engine::take_panics();
                        None
                    }
                    _ => None,
                }
            };
            if let Some(m) = got {
                traffic = m.iter().any(|f| f.ends_with(&tag));
                if loc == "ROUTER" && res == "ok" {
                    // label must be the registered identity
                    if let (Some(idv), Some(f0)) = (&id, m.first()) {
                        if f0 != idv {
                            idok = false;
                        }
                    }
                }
            }
        } else {
            // send-type sockets: does an application message reach this connection?
            let before = from_lib.tap_len();
            let m = if loc == "PUB" { vec![tag.clone()] } else { vec![tag.clone()] };
            let sw = CountWaker::new();
            {
                let mut sf = sock.send(engine::to_msg(&m)).unwrap();
                let mut p = 0;
                let _ = engine::drive_catch(&mut sf, &sw, 50, &mut p).await;
            }
            sim::settle().await;
            let tap = from_lib.tap();
            traffic = tap.len() > before && tap[before..].windows(tag.len()).any(|x| x == &tag[..]);
        }
        sim::settle().await;
        let rel = to_lib.rdropped() && from_lib.wdropped();
        out.push(json!({"ev":"hs","cell":cell,"res":res,"idok":idok,"traffic":traffic,"rel":rel,"stalled":stalled,"polls":polls}));
        drop(sock);
        sim::settle().await;
    }
    let distinct: HashSet<&Vec<u8>> = autoids.iter().collect();
    out.push(json!({"ev":"autoids","total":autoids.len(),"distinct":distinct.len()}));
    // all 12x12 compatibility queries
    let names = ["PAIR", "PUB", "SUB", "REQ", "REP", "DEALER", "ROUTER", "PULL", "PUSH", "XPUB", "XSUB", "STREAM"];
    for a in names {
        for b in names {
            let r = catch_unwind(AssertUnwindSafe(|| {
                let x = SocketType::from_str(a).ok()?;
                let y = SocketType::from_str(b).ok()?;
                Some(x.compatible(y))
            }));
            let res = match r {
                Ok(Some(true)) => "true",
                Ok(Some(false)) => "false",
                Ok(None) => "false",
                Err(_) => "panic",
            };
            out.push(json!({"ev":"compat","a":a,"b":b,"res":res}));
        }
    }
    engine::take_panics();
    out
}
