mod engine;
mod fq;
mod refcodec;
mod sim;

use serde_json::Value;
use std::io::{BufRead, Write};

fn arg(args: &[String], name: &str) -> Option<String> {
    args.iter().position(|a| a == name).and_then(|i| args.get(i + 1).cloned())
}

fn read_ndjson(path: &str) -> Vec<Value> {
    let f = std::fs::File::open(path).unwrap_or_else(|e| {
        eprintln!("cannot open {}: {}", path, e);
        std::process::exit(2)
    });
    std::io::BufReader::new(f)
        .lines()
        .map_while(Result::ok)
        .filter(|l| !l.trim().is_empty())
        .map(|l| serde_json::from_str(&l).unwrap_or_else(|e| {
            eprintln!("bad json line: {}", e);
            std::process::exit(2)
        }))
        .collect()
}

fn write_ndjson(path: &str, evs: &[Value]) {
    let mut f = std::io::BufWriter::new(std::fs::File::create(path).expect("create out"));
    for e in evs {
        writeln!(f, "{}", e).unwrap();
    }
}

fn cmd_run(args: &[String]) {
    let inp = arg(args, "--in").expect("--in");
    let out = arg(args, "--out").expect("--out");
    let scripts = read_ndjson(&inp);
    engine::install_panic_hook();
    let rt = tokio::runtime::Builder::new_current_thread().enable_all().build().unwrap();
    let mut all = vec![];
    rt.block_on(async {
        for sc in &scripts {
            let tr = engine::run_scenario(sc).await;
            all.extend(tr);
        }
    });
    // renumber globally
    for (i, e) in all.iter_mut().enumerate() {
        e["i"] = serde_json::json!(i + 1);
    }
    write_ndjson(&out, &all);
    println!("scenarios={} events={}", scripts.len(), all.len());
}

fn cmd_fq(args: &[String]) {
    let inp = arg(args, "--in").expect("--in");
    let out = arg(args, "--out").expect("--out");
    let scripts = read_ndjson(&inp);
    let (trace, st) = fq::replay(&scripts);
    write_ndjson(&out, &trace);
    println!(
        "{}",
        serde_json::json!({"behaviours": st.behaviours, "model_steps": st.steps, "polls": st.polls, "window_polls": st.window_polls,
            "snapshots_compared": st.compared, "drifted": st.drifted, "drift_samples": st.drift_samples, "events": trace.len()})
    );
}

fn main() {
    let args: Vec<String> = std::env::args().collect();
    match args.get(1).map(|s| s.as_str()) {
        Some("run") => cmd_run(&args),
        Some("fq") => cmd_fq(&args),
        _ => {
            eprintln!("usage: zv run --in scripts.ndjson --out trace.ndjson");
            std::process::exit(2);
        }
    }
}
