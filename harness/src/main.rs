mod alloc;
mod codec;
mod engine;
mod ep;
mod fq;
mod hs;
mod net;
mod refcodec;
mod sim;

use serde_json::Value;

#[global_allocator]
static GLOBAL: alloc::Counting = alloc::Counting;
use std::io::{BufRead, Write};

fn arg(args: &[String], name: &str) -> Option<String> {
    args.iter().position(|a| a == name).and_then(|i| args.get(i + 1).cloned())
}

fn read_ndjson(path: &str) -> Vec<Value> {
    let f = std::fs::File::open(path).unwrap_or_else(|e| {
        eprintln!("cannot open {}: {}", path, e);
        std::process::exit(2)
    });
    std::io::BufReader::new(f)
        .lines()
        .map_while(Result::ok)
        .filter(|l| !l.trim().is_empty())
        .map(|l| serde_json::from_str(&l).unwrap_or_else(|e| {
            eprintln!("bad json line: {}", e);
            std::process::exit(2)
        }))
        .collect()
}

fn write_ndjson(path: &str, evs: &[Value]) {
    let mut f = std::io::BufWriter::new(std::fs::File::create(path).expect("create out"));
    for e in evs {
        writeln!(f, "{}", e).unwrap();
    }
}

fn cmd_run(args: &[String]) {
    use std::sync::atomic::{AtomicUsize, Ordering};
    use std::sync::Arc;
    let inp = arg(args, "--in").expect("--in");
    let out = arg(args, "--out").expect("--out");
    let scripts = read_ndjson(&inp);
    engine::install_panic_hook();
    // watchdog: the scenarios are run on one thread with hand-polled futures; if the code under test blocks that
    // thread (a synchronous lock that can never be granted), nothing moves any more: report which scenario and exit 3.
    // What finished before is already on disk.
    let cur = Arc::new(AtomicUsize::new(0));
    {
        let cur = cur.clone();
        std::thread::spawn(move || {
            let mut last = (usize::MAX, u64::MAX);
            let mut idle = 0;
            loop {
                std::thread::sleep(std::time::Duration::from_millis(500));
                let now = (cur.load(Ordering::SeqCst), sim::activity());
                if now == last {
                    idle += 1;
                } else {
                    idle = 0;
                    last = now;
                }
                if idle >= 20 {
                    println!("HANG scenario_index={}", now.0);
                    std::process::exit(3);
                }
            }
        });
    }
    // the scenarios run on a thread with a 2 MiB stack (what a spawned thread or a tokio worker has): input-dependent
    // recursion in the code under test overflows it and kills the process, which the caller reports with the scenario
    let nscripts = scripts.len();
    let worker = std::thread::Builder::new().stack_size(2 * 1024 * 1024).spawn(move || {
        let rt = tokio::runtime::Builder::new_current_thread().enable_all().build().unwrap();
        let mut f = std::io::BufWriter::new(std::fs::File::create(&out).expect("create out"));
        let mut n = 0usize;
        rt.block_on(async {
            for (k, sc) in scripts.iter().enumerate() {
                cur.store(k, Ordering::SeqCst);
                let tr = if sc["sock"] == "PROXY" { engine::run_proxy_scenario(sc).await } else { engine::run_scenario(sc).await };
                for mut e in tr {
                    n += 1;
                    e["i"] = serde_json::json!(n);
                    writeln!(f, "{}", e).unwrap();
                }
                f.flush().unwrap();
            }
        });
        n
    });
    let n = worker.expect("spawn").join().unwrap_or_else(|_| std::process::exit(101));
    println!("scenarios={} events={}", nscripts, n);
}

fn cmd_fq(args: &[String]) {
    let inp = arg(args, "--in").expect("--in");
    let out = arg(args, "--out").expect("--out");
    let scripts = read_ndjson(&inp);
    let (trace, st) = fq::replay(&scripts);
    write_ndjson(&out, &trace);
    println!(
        "{}",
        serde_json::json!({"behaviours": st.behaviours, "model_steps": st.steps, "polls": st.polls, "window_polls": st.window_polls,
            "snapshots_compared": st.compared, "drifted": st.drifted, "drift_samples": st.drift_samples, "left_model": st.left_model, "events": trace.len()})
    );
}

fn cmd_c01(args: &[String]) {
    let inp = arg(args, "--in").expect("--in");
    let out = arg(args, "--out").expect("--out");
    let seed: u64 = arg(args, "--seed").and_then(|s| s.parse().ok()).unwrap_or(1);
    let n: usize = arg(args, "--random").and_then(|s| s.parse().ok()).unwrap_or(100);
    let vectors = read_ndjson(&inp);
    engine::install_panic_hook();
    let rt = tokio::runtime::Builder::new_current_thread().enable_all().build().unwrap();
    let all_idents = args.iter().any(|a| a == "--all-idents");
    let evs = rt.block_on(codec::c01(&vectors, seed, n, all_idents));
    write_ndjson(&out, &evs);
    let noncanon = evs.iter().filter(|e| e.get("canonical").and_then(|c| c.as_bool()) == Some(false)).count();
    println!("{}", serde_json::json!({"events": evs.len(), "vectors": vectors.len(), "non_canonical": noncanon}));
}

fn cmd_c02(args: &[String]) {
    let inp = arg(args, "--in").expect("--in");
    let out = arg(args, "--out").expect("--out");
    let seed: u64 = arg(args, "--seed").and_then(|s| s.parse().ok()).unwrap_or(1);
    let n: usize = arg(args, "--random").and_then(|s| s.parse().ok()).unwrap_or(10);
    let max_exh: usize = arg(args, "--max-exh").and_then(|s| s.parse().ok()).unwrap_or(12);
    let vectors = read_ndjson(&inp);
    engine::install_panic_hook();
    let evs = codec::c02(&vectors, seed, max_exh, n);
    let mut evs2 = evs.clone();
    for e in evs2.iter_mut() {
        engine::sanitize(e);
    }
    write_ndjson(&out, &evs2);
    println!("{}", serde_json::json!({"streams": evs.len(), "partitions": evs.iter().map(|e| e["partitions"].as_u64().unwrap_or(0)).sum::<u64>()}));
}

fn cmd_c03(args: &[String]) {
    let inp = arg(args, "--in").expect("--in");
    let out = arg(args, "--out").expect("--out");
    let vectors = read_ndjson(&inp);
    engine::install_panic_hook();
    let n = codec::c03(&vectors, arg(args, "--progress"), out);
    println!("{}", serde_json::json!({"vectors": vectors.len(), "events": n}));
}

fn cmd_c04(args: &[String]) {
    let inp = arg(args, "--in").expect("--in");
    let out = arg(args, "--out").expect("--out");
    let cells = read_ndjson(&inp);
    engine::install_panic_hook();
    let rt = tokio::runtime::Builder::new_current_thread().enable_all().build().unwrap();
    let evs = rt.block_on(hs::c04(&cells));
    write_ndjson(&out, &evs);
    println!("{}", serde_json::json!({"cells": cells.len(), "events": evs.len()}));
}

fn cmd_c19(args: &[String]) {
    let inp = arg(args, "--in").expect("--in");
    let out = arg(args, "--out").expect("--out");
    let vectors = read_ndjson(&inp);
    engine::install_panic_hook();
    let evs = ep::c19(&vectors);
    write_ndjson(&out, &evs);
    println!("{}", serde_json::json!({"vectors": vectors.len(), "ok": evs.iter().filter(|e| e["res"] == "ok").count()}));
}

fn cmd_net(args: &[String]) {
    let inp = arg(args, "--in").expect("--in");
    let out = arg(args, "--out").expect("--out");
    let dir = arg(args, "--dir").expect("--dir");
    let scripts = read_ndjson(&inp);
    engine::install_panic_hook();
    let _ = std::fs::create_dir_all(&dir);
    let rt = tokio::runtime::Builder::new_multi_thread().worker_threads(2).enable_all().build().unwrap();
    std::thread::spawn(|| {
        use std::sync::atomic::Ordering::SeqCst;
        let (mut last, mut since) = (0usize, std::time::Instant::now());
        loop {
            std::thread::sleep(std::time::Duration::from_millis(500));
            let p = net::FLOOD_PROGRESS.load(SeqCst);
            if p != last || !net::FLOOD_ACTIVE.load(SeqCst) {
                last = p;
                since = std::time::Instant::now();
            } else if since.elapsed().as_secs() >= 40 {
                // recv was called 40 s ago and the call has neither returned nor let the 5 s timeout around it fire:
                // the task is spinning inside the library without ever yielding to the runtime
                println!("WATCHDOG: the receive loop has not come back from recv for 40 s (recv calls so far: {})", p);
                std::process::exit(3);
            }
        }
    });
    // scenarios marked "rt":"current" run on a single-threaded runtime (everything on one thread: what the library's tasks
    // do between two awaits of the application is then deterministic)
    let rt_cur = tokio::runtime::Builder::new_current_thread().enable_all().build().unwrap();
    let mut f = std::io::BufWriter::new(std::fs::File::create(&out).expect("create out"));
    let mut n = 0usize;
    for sc in scripts.iter() {
        let run = async {
            match tokio::time::timeout(std::time::Duration::from_secs(180), net::run_net_scenario(sc, &dir)).await {
                Ok(t) => t,
                Err(_) => vec![serde_json::json!({"ev":"reset","scen":sc["scen"],"sock":sc["sock"],"tag":"","fds":0,"tasks":0}), serde_json::json!({"ev":"scenario_timeout"}), serde_json::json!({"ev":"end","tasks_left":0})],
            }
        };
        let mut tr = if sc.get("rt").and_then(|v| v.as_str()) == Some("current") { rt_cur.block_on(run) } else { rt.block_on(run) };
        let endev = tr.pop();
        for p in engine::take_panics() {
            tr.push(serde_json::json!({"ev":"panic","msg":p}));
        }
        tr.extend(endev);
        for mut e in tr {
            n += 1;
            engine::sanitize(&mut e);
            e["i"] = serde_json::json!(n);
            writeln!(f, "{}", e).unwrap();
        }
        f.flush().unwrap();
    }
    println!("scenarios={} events={}", scripts.len(), n);
}

fn main() {
    let args: Vec<String> = std::env::args().collect();
    match args.get(1).map(|s| s.as_str()) {
        Some("run") => cmd_run(&args),
        Some("fq") => cmd_fq(&args),
        Some("c01") => cmd_c01(&args),
        Some("c02") => cmd_c02(&args),
        Some("c03") => cmd_c03(&args),
        Some("c04") => cmd_c04(&args),
        Some("c19") => cmd_c19(&args),
        Some("net") => cmd_net(&args),
        _ => {
            eprintln!("usage: zv run --in scripts.ndjson --out trace.ndjson");
            std::process::exit(2);
        }
    }
}
