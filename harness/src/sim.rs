//! In-memory byte pipes fully controlled by the driver, counting wakers, quiescence detection.
#![allow(dead_code)]
use futures::task::ArcWake;
use futures::{AsyncRead, AsyncWrite};
use std::collections::VecDeque;
use std::future::Future;
use std::io;
use std::pin::Pin;
use std::sync::atomic::{AtomicU64, AtomicUsize, Ordering};
use std::sync::{Arc, Mutex};
use std::task::{Context, Poll, Waker};

/// Global activity counter: any pipe progress or wake bumps it. Used to detect quiescence.
pub static ACTIVITY: AtomicU64 = AtomicU64::new(0);
pub fn bump() {
    ACTIVITY.fetch_add(1, Ordering::SeqCst);
}
pub fn activity() -> u64 {
    ACTIVITY.load(Ordering::SeqCst)
}

type Hook = Box<dyn FnOnce() + Send>;

/// A runtime's cooperative budget, as tokio implements it: a task may do BUDGET reads per poll of the task; further reads
/// answer Pending WITHOUT looking at the transport, and the waker they were given is woken only once the task has given
/// control back to the executor (deferred wake). i64::MAX = no budget.
pub static BUDGET_PER_POLL: std::sync::atomic::AtomicI64 = std::sync::atomic::AtomicI64::new(i64::MAX);
pub static BUDGET_LEFT: std::sync::atomic::AtomicI64 = std::sync::atomic::AtomicI64::new(i64::MAX);
pub static DEFERRED: Mutex<Vec<Waker>> = Mutex::new(Vec::new());
pub static BUDGET_REFUSALS: AtomicU64 = AtomicU64::new(0);
/// the budget belongs to the application's task: it applies only to transport operations made while the driver polls the
/// application's call (the socket's own tasks - readers, flushers - have budgets of their own, never exhausted here)
pub static IN_APP_POLL: std::sync::atomic::AtomicBool = std::sync::atomic::AtomicBool::new(false);
/// does the budget also cover writes (a successful write uses one unit, a write beyond the budget is refused)?
pub static BUDGET_WRITES: std::sync::atomic::AtomicBool = std::sync::atomic::AtomicBool::new(false);
pub fn set_budget(k: Option<i64>) {
    let k = k.unwrap_or(i64::MAX);
    BUDGET_PER_POLL.store(k, Ordering::SeqCst);
    BUDGET_LEFT.store(k, Ordering::SeqCst);
    DEFERRED.lock().unwrap().clear();
    BUDGET_WRITES.store(false, Ordering::SeqCst);
}
/// the application's task has returned Pending to the executor: deferred wake-ups are delivered, the next poll has a fresh budget
pub fn task_yielded() {
    BUDGET_LEFT.store(BUDGET_PER_POLL.load(Ordering::SeqCst), Ordering::SeqCst);
    let ws = std::mem::take(&mut *DEFERRED.lock().unwrap());
    for w in ws {
        bump();
        w.wake();
    }
}

#[derive(Default)]
pub struct Chan {
    /// segments: each poll_read returns at most the rest of the first segment
    pub segs: VecDeque<Vec<u8>>,
    pub eof: bool,
    pub rerr: Option<io::ErrorKind>,
    pub rwaker: Option<Waker>,
    pub wwaker: Option<Waker>,
    /// None = unlimited; Some(k) = accept k more bytes then stall
    pub credit: Option<usize>,
    /// max bytes accepted per poll_write call (partial writes)
    pub max_write: Option<usize>,
    pub tap: Vec<u8>,
    /// (tap length after the write, global logical clock) for every accepted write: orders bytes across connections
    pub marks: Vec<(usize, u64)>,
    pub broken: Option<io::ErrorKind>,
    pub rdropped: bool,
    pub wdropped: bool,
    pub wclosed: bool,
    pub reads: u64,
    pub read_bytes: u64,
    pub writes: u64,
    pub on_read: Option<Hook>,
    /// the library has seen the end of this connection: a read returned EOF / an error, or a write returned an error
    pub seen_eof: bool,
    pub seen_rerr: bool,
    pub seen_werr: bool,
    /// hostile-but-legal readiness (Some(state of an LCG)): a poll may answer Pending after waking its own waker (what a
    /// runtime's cooperative budget does), and a waker registered earlier may be kept and woken again later (what tokio's
    /// readiness re-check does); never twice in a row, so every operation still completes
    pub jitter: Option<u64>,
    pub jitter_writes: bool,
    pub yielded_r: bool,
    pub yielded_w: bool,
    pub kept: Vec<Waker>,
    pub yields: u64,
}

impl Chan {
    fn flip(&mut self, one_in: u64) -> bool {
        match self.jitter.as_mut() {
            None => false,
            Some(st) => {
                *st = st.wrapping_mul(6364136223846793005).wrapping_add(1442695040888963407);
                (*st >> 33) % one_in == 0
            }
        }
    }
}

#[derive(Clone, Default)]
pub struct H(pub Arc<Mutex<Chan>>);
pub struct R(pub H);
pub struct W(pub H);

impl Drop for R {
    fn drop(&mut self) {
        self.0 .0.lock().unwrap().rdropped = true;
        bump();
    }
}
impl Drop for W {
    fn drop(&mut self) {
        self.0 .0.lock().unwrap().wdropped = true;
        bump();
    }
}

impl AsyncRead for R {
    fn poll_read(self: Pin<&mut Self>, cx: &mut Context<'_>, out: &mut [u8]) -> Poll<io::Result<usize>> {
        let hook = self.0 .0.lock().unwrap().on_read.take();
        if let Some(h) = hook {
            h();
        }
        if BUDGET_PER_POLL.load(Ordering::SeqCst) != i64::MAX && IN_APP_POLL.load(Ordering::SeqCst) {
            if BUDGET_LEFT.load(Ordering::SeqCst) <= 0 {
                DEFERRED.lock().unwrap().push(cx.waker().clone());
                BUDGET_REFUSALS.fetch_add(1, Ordering::SeqCst);
                return Poll::Pending;
            }
            BUDGET_LEFT.fetch_sub(1, Ordering::SeqCst);
        }
        let mut c = self.0 .0.lock().unwrap();
        c.reads += 1;
        if c.jitter.is_some() {
            if !c.yielded_r && c.flip(4) {
                c.yielded_r = true;
                c.yields += 1;
                drop(c);
                bump();
                cx.waker().wake_by_ref();
                return Poll::Pending;
            }
            c.yielded_r = false;
            if c.kept.len() < 3 && c.flip(3) {
                c.kept.push(cx.waker().clone());
            }
        }
        while let Some(f) = c.segs.front() {
            if f.is_empty() {
                c.segs.pop_front();
            } else {
                break;
            }
        }
        if c.segs.is_empty() {
            if let Some(k) = c.rerr.take() {
                c.eof = true;
                c.seen_rerr = true;
                bump();
                return Poll::Ready(Err(k.into()));
            }
            if c.eof {
                c.seen_eof = true;
                bump();
                return Poll::Ready(Ok(0));
            }
            c.rwaker = Some(cx.waker().clone());
            return Poll::Pending;
        }
        let seg = c.segs.front_mut().unwrap();
        let n = out.len().min(seg.len());
        out[..n].copy_from_slice(&seg[..n]);
        seg.drain(..n);
        if seg.is_empty() {
            c.segs.pop_front();
        }
        c.read_bytes += n as u64;
        bump();
        Poll::Ready(Ok(n))
    }
}

impl AsyncWrite for W {
    fn poll_write(self: Pin<&mut Self>, cx: &mut Context<'_>, data: &[u8]) -> Poll<io::Result<usize>> {
        if BUDGET_WRITES.load(Ordering::SeqCst) && BUDGET_PER_POLL.load(Ordering::SeqCst) != i64::MAX && IN_APP_POLL.load(Ordering::SeqCst) {
            if BUDGET_LEFT.load(Ordering::SeqCst) <= 0 {
                DEFERRED.lock().unwrap().push(cx.waker().clone());
                BUDGET_REFUSALS.fetch_add(1, Ordering::SeqCst);
                return Poll::Pending;
            }
            BUDGET_LEFT.fetch_sub(1, Ordering::SeqCst);
        }
        let mut c = self.0 .0.lock().unwrap();
        c.writes += 1;
        if let Some(k) = c.broken {
            c.seen_werr = true;
            bump();
            return Poll::Ready(Err(k.into()));
        }
        if c.jitter.is_some() && c.jitter_writes {
            if !c.yielded_w && c.flip(5) {
                c.yielded_w = true;
                c.yields += 1;
                drop(c);
                bump();
                cx.waker().wake_by_ref();
                return Poll::Pending;
            }
            c.yielded_w = false;
        }
        let mut n = match c.credit {
            None => data.len(),
            Some(0) => {
                c.wwaker = Some(cx.waker().clone());
                return Poll::Pending;
            }
            Some(k) => k.min(data.len()),
        };
        if let Some(m) = c.max_write {
            n = n.min(m.max(1));
        }
        if let Some(k) = c.credit.as_mut() {
            *k -= n;
        }
        c.tap.extend_from_slice(&data[..n]);
        let len = c.tap.len();
        c.marks.push((len, ACTIVITY.fetch_add(1, Ordering::SeqCst)));
        Poll::Ready(Ok(n))
    }
    fn poll_flush(self: Pin<&mut Self>, _: &mut Context<'_>) -> Poll<io::Result<()>> {
        let c = self.0 .0.lock().unwrap();
        if let Some(k) = c.broken {
            return Poll::Ready(Err(k.into()));
        }
        Poll::Ready(Ok(()))
    }
    fn poll_close(self: Pin<&mut Self>, _: &mut Context<'_>) -> Poll<io::Result<()>> {
        self.0 .0.lock().unwrap().wclosed = true;
        Poll::Ready(Ok(()))
    }
}

impl H {
    pub fn new() -> Self {
        H(Arc::new(Mutex::new(Chan::default())))
    }
    fn wake_r(&self, f: impl FnOnce(&mut Chan)) {
        let (w, kept) = {
            let mut c = self.0.lock().unwrap();
            f(&mut c);
            (c.rwaker.take(), std::mem::take(&mut c.kept))
        };
        bump();
        if let Some(w) = w {
            w.wake();
        }
        // late wake-ups of wakers the transport was handed earlier
        for k in kept {
            k.wake();
        }
    }
    pub fn set_jitter(&self, seed: u64, writes: bool) {
        let mut c = self.0.lock().unwrap();
        c.jitter = Some(seed | 1);
        c.jitter_writes = writes;
    }
    fn wake_w(&self, f: impl FnOnce(&mut Chan)) {
        let w = {
            let mut c = self.0.lock().unwrap();
            f(&mut c);
            c.wwaker.take()
        };
        bump();
        if let Some(w) = w {
            w.wake();
        }
    }
    /// one segment = at most one read
    pub fn push(&self, b: &[u8]) {
        if b.is_empty() {
            return;
        }
        self.wake_r(|c| c.segs.push_back(b.to_vec()));
    }
    pub fn close(&self) {
        self.wake_r(|c| c.eof = true);
    }
    pub fn fail_read(&self, k: io::ErrorKind) {
        self.wake_r(|c| c.rerr = Some(k));
    }
    pub fn spurious_read_wake(&self) {
        self.wake_r(|_| {});
    }
    pub fn credit(&self, k: Option<usize>) {
        self.wake_w(|c| c.credit = k);
    }
    pub fn add_credit(&self, k: usize) {
        self.wake_w(|c| {
            if let Some(x) = c.credit.as_mut() {
                *x += k
            }
        });
    }
    pub fn max_write(&self, k: Option<usize>) {
        self.0.lock().unwrap().max_write = k;
    }
    pub fn break_pipe(&self, k: io::ErrorKind) {
        self.wake_w(|c| c.broken = Some(k));
    }
    pub fn tap(&self) -> Vec<u8> {
        self.0.lock().unwrap().tap.clone()
    }
    pub fn tap_from(&self, off: usize) -> Vec<u8> {
        let c = self.0.lock().unwrap();
        if off >= c.tap.len() {
            vec![]
        } else {
            c.tap[off..].to_vec()
        }
    }
    /// logical time at which the byte at tap position `off` (1-based end offset) was accepted
    pub fn clock_at(&self, off: usize) -> u64 {
        let c = self.0.lock().unwrap();
        match c.marks.binary_search_by(|m| m.0.cmp(&off)) {
            Ok(i) => c.marks[i].1,
            Err(i) => c.marks.get(i).map(|m| m.1).unwrap_or(u64::MAX),
        }
    }
    pub fn tap_len(&self) -> usize {
        self.0.lock().unwrap().tap.len()
    }
    pub fn unread(&self) -> usize {
        self.0.lock().unwrap().segs.iter().map(|s| s.len()).sum()
    }
    pub fn rdropped(&self) -> bool {
        self.0.lock().unwrap().rdropped
    }
    pub fn wdropped(&self) -> bool {
        self.0.lock().unwrap().wdropped
    }
    pub fn reads(&self) -> u64 {
        self.0.lock().unwrap().reads
    }
    pub fn on_next_read(&self, h: Hook) {
        self.0.lock().unwrap().on_read = Some(h);
    }
    pub fn seen(&self) -> (bool, bool, bool) {
        let c = self.0.lock().unwrap();
        (c.seen_eof, c.seen_rerr, c.seen_werr)
    }
    pub fn has_read_waker(&self) -> bool {
        self.0.lock().unwrap().rwaker.is_some()
    }
}

pub struct CountWaker(pub AtomicUsize);
impl ArcWake for CountWaker {
    fn wake_by_ref(a: &Arc<Self>) {
        a.0.fetch_add(1, Ordering::SeqCst);
        bump();
    }
}
impl CountWaker {
    pub fn new() -> Arc<Self> {
        Arc::new(CountWaker(AtomicUsize::new(0)))
    }
    pub fn count(&self) -> usize {
        self.0.load(Ordering::SeqCst)
    }
}

pub fn poll_once<F: Future + ?Sized>(f: &mut Pin<Box<F>>, w: &Arc<CountWaker>) -> Poll<F::Output> {
    let waker = futures::task::waker(w.clone());
    let mut cx = Context::from_waker(&waker);
    bump();
    f.as_mut().poll(&mut cx)
}

/// Let library-spawned tasks run until nothing moves for three consecutive rounds.
pub async fn settle() {
    let mut stable = 0;
    let mut last = activity();
    let mut rounds = 0;
    while stable < 3 && rounds < 10_000 {
        tokio::task::yield_now().await;
        rounds += 1;
        let a = activity();
        if a == last {
            stable += 1;
        } else {
            stable = 0;
            last = a;
        }
    }
}

/// Executor semantics for a hand-polled future: poll; if pending, let spawned tasks settle and
/// re-poll only if the future's waker was actually woken. Returns None if it stays pending at a
/// quiescent point (after `max_polls` polls at most).
pub async fn drive<F: Future + ?Sized>(f: &mut Pin<Box<F>>, w: &Arc<CountWaker>, max_polls: usize) -> (Option<F::Output>, usize) {
    let mut polls = 0;
    loop {
        let before = w.count();
        polls += 1;
        if let Poll::Ready(x) = poll_once(f, w) {
            return (Some(x), polls);
        }
        settle().await;
        if w.count() == before || polls >= max_polls {
            return (None, polls);
        }
    }
}
