//! Independent reference implementation of RFC 23 (ZMTP 3.0) framing, used to build peer byte
//! streams and to interpret what the library wrote. Total: never panics on any input.
#![allow(dead_code)]

pub fn enc_frame_raw(flags: u8, body: &[u8], force_long: bool) -> Vec<u8> {
    let mut o = Vec::with_capacity(body.len() + 9);
    if body.len() > 255 || force_long {
        o.push(flags | 2);
        o.extend_from_slice(&(body.len() as u64).to_be_bytes());
    } else {
        o.push(flags & !2);
        o.push(body.len() as u8);
    }
    o.extend_from_slice(body);
    o
}
pub fn enc_msg(frames: &[Vec<u8>]) -> Vec<u8> {
    let mut o = vec![];
    for (i, f) in frames.iter().enumerate() {
        o.extend(enc_frame_raw(if i + 1 < frames.len() { 1 } else { 0 }, f, false));
    }
    o
}
pub fn greeting_with(major: u8, minor: u8, mech: &[u8], as_server: bool) -> Vec<u8> {
    let mut g = vec![0u8; 64];
    g[0] = 0xff;
    g[9] = 0x7f;
    g[10] = major;
    g[11] = minor;
    let n = mech.len().min(20);
    g[12..12 + n].copy_from_slice(&mech[..n]);
    g[32] = as_server as u8;
    g
}
pub fn greeting() -> Vec<u8> {
    greeting_with(3, 0, b"NULL", false)
}
pub fn cmd_body(name: &[u8], props: &[(Vec<u8>, Vec<u8>)]) -> Vec<u8> {
    let mut b = vec![name.len() as u8];
    b.extend_from_slice(name);
    for (k, v) in props {
        b.push(k.len() as u8);
        b.extend_from_slice(k);
        b.extend_from_slice(&(v.len() as u32).to_be_bytes());
        b.extend_from_slice(v);
    }
    b
}
pub fn ready(socket_type: &str, identity: Option<&[u8]>) -> Vec<u8> {
    let mut props = vec![(b"Socket-Type".to_vec(), socket_type.as_bytes().to_vec())];
    if let Some(id) = identity {
        props.push((b"Identity".to_vec(), id.to_vec()));
    }
    enc_frame_raw(4, &cmd_body(b"READY", &props), false)
}

#[derive(Debug, Clone, PartialEq, Eq)]
pub struct RawFrame {
    pub flags: u8,
    pub long: bool,
    pub hdr_off: usize,
    pub body_off: usize,
    pub len: usize,
}
#[derive(Debug, Clone, PartialEq, Eq)]
pub enum WItem {
    Greeting(Vec<u8>),
    Command(Vec<u8>),
    Message(Vec<Vec<u8>>),
}
#[derive(Debug, Clone, PartialEq, Eq)]
pub enum Tail {
    Clean,
    /// incomplete frame: bytes present of it
    PartialFrame(usize),
    /// complete frames with MORE, message not finished
    PartialMsg(usize),
    /// frame size does not fit in memory / usize
    Huge,
}
pub struct Parsed {
    pub items: Vec<WItem>,
    pub frames: Vec<RawFrame>,
    pub tail: Tail,
    /// number of bytes consumed by complete items
    pub consumed: usize,
}

/// Parse a byte stream (optionally starting with a 64-byte greeting) into items.
pub fn parse(b: &[u8], with_greeting: bool) -> Parsed {
    let mut items = vec![];
    let mut frames = vec![];
    let mut pos = 0usize;
    let mut consumed = 0usize;
    if with_greeting {
        if b.len() < 64 {
            return Parsed { items, frames, tail: Tail::PartialFrame(b.len()), consumed };
        }
        items.push(WItem::Greeting(b[..64].to_vec()));
        pos = 64;
        consumed = 64;
    }
    let mut partial: Vec<Vec<u8>> = vec![];
    loop {
        if pos >= b.len() {
            let tail = if partial.is_empty() { Tail::Clean } else { Tail::PartialMsg(partial.len()) };
            return Parsed { items, frames, tail, consumed };
        }
        let rest = &b[pos..];
        let flags = rest[0];
        let long = flags & 2 != 0;
        let hdr = if long { 9 } else { 2 };
        if rest.len() < hdr {
            return Parsed { items, frames, tail: Tail::PartialFrame(rest.len()), consumed };
        }
        let len64 = if long { u64::from_be_bytes(rest[1..9].try_into().unwrap()) } else { rest[1] as u64 };
        if len64 > (usize::MAX / 4) as u64 {
            return Parsed { items, frames, tail: Tail::Huge, consumed };
        }
        let len = len64 as usize;
        if rest.len() - hdr < len {
            return Parsed { items, frames, tail: Tail::PartialFrame(rest.len()), consumed };
        }
        let body = rest[hdr..hdr + len].to_vec();
        frames.push(RawFrame { flags, long, hdr_off: pos, body_off: pos + hdr, len });
        pos += hdr + len;
        if flags & 4 != 0 {
            items.push(WItem::Command(body));
            if partial.is_empty() {
                consumed = pos;
            }
        } else {
            partial.push(body);
            if flags & 1 == 0 {
                items.push(WItem::Message(std::mem::take(&mut partial)));
                consumed = pos;
            }
        }
    }
}

/// Bounds-checked command parser: name + properties, or an error class.
pub fn parse_cmd(body: &[u8]) -> Result<(Vec<u8>, Vec<(Vec<u8>, Vec<u8>)>), &'static str> {
    if body.is_empty() {
        return Err("cmd-empty");
    }
    let nl = body[0] as usize;
    if body.len() < 1 + nl {
        return Err("cmd-name-beyond");
    }
    let name = body[1..1 + nl].to_vec();
    let mut rest = &body[1 + nl..];
    let mut props = vec![];
    while !rest.is_empty() {
        let pl = rest[0] as usize;
        if rest.len() < 1 + pl + 4 {
            return Err("cmd-prop-truncated");
        }
        let k = rest[1..1 + pl].to_vec();
        let vl = u32::from_be_bytes(rest[1 + pl..5 + pl].try_into().unwrap()) as usize;
        if rest.len() - (5 + pl) < vl {
            return Err("cmd-prop-value-beyond");
        }
        let v = rest[5 + pl..5 + pl + vl].to_vec();
        props.push((k, v));
        rest = &rest[5 + pl + vl..];
    }
    Ok((name, props))
}

fn fnv(b: &[u8]) -> u32 {
    let mut h: u32 = 0x811c9dc5;
    for x in b {
        h ^= *x as u32;
        h = h.wrapping_mul(0x01000193);
    }
    h
}
/// Frame descriptor used in traces: small frames verbatim, large ones by length and hash.
pub fn fdesc(b: &[u8]) -> String {
    if b.len() <= 24 && b.iter().all(|c| (0x21..=0x7e).contains(c) && *c != b'"' && *c != b'\\') {
        format!("s{}", String::from_utf8_lossy(b))
    } else if b.len() <= 12 {
        let mut s = String::from("x");
        for c in b {
            s.push_str(&format!("{:02x}", c));
        }
        s
    } else {
        format!("L{}:{:08x}", b.len(), fnv(b))
    }
}
pub fn mdesc(frames: &[Vec<u8>]) -> Vec<String> {
    frames.iter().map(|f| fdesc(f)).collect()
}
pub fn hex(b: &[u8]) -> String {
    let mut s = String::new();
    for c in b {
        s.push_str(&format!("{:02x}", c));
    }
    s
}
pub fn unhex(s: &str) -> Vec<u8> {
    let s = s.as_bytes();
    let mut o = vec![];
    let mut i = 0;
    while i + 1 < s.len() {
        let h = |c: u8| -> u8 {
            match c {
                b'0'..=b'9' => c - b'0',
                b'a'..=b'f' => c - b'a' + 10,
                b'A'..=b'F' => c - b'A' + 10,
                _ => 0,
            }
        };
        o.push(h(s[i]) * 16 + h(s[i + 1]));
        i += 2;
    }
    o
}
