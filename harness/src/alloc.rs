//! Counting global allocator: live and peak heap bytes, to bound allocation against bytes received.
use std::alloc::{GlobalAlloc, Layout, System};
use std::sync::atomic::{AtomicUsize, Ordering};

pub struct Counting;
static LIVE: AtomicUsize = AtomicUsize::new(0);
static PEAK: AtomicUsize = AtomicUsize::new(0);

fn add(n: usize) {
    let l = LIVE.fetch_add(n, Ordering::Relaxed) + n;
    PEAK.fetch_max(l, Ordering::Relaxed);
}
fn sub(n: usize) {
    LIVE.fetch_sub(n, Ordering::Relaxed);
}

unsafe impl GlobalAlloc for Counting {
    unsafe fn alloc(&self, l: Layout) -> *mut u8 {
        let p = System.alloc(l);
        if !p.is_null() {
            add(l.size());
        }
        p
    }
    unsafe fn dealloc(&self, p: *mut u8, l: Layout) {
        System.dealloc(p, l);
        sub(l.size());
    }
    unsafe fn alloc_zeroed(&self, l: Layout) -> *mut u8 {
        let p = System.alloc_zeroed(l);
        if !p.is_null() {
            add(l.size());
        }
        p
    }
    unsafe fn realloc(&self, p: *mut u8, l: Layout, new: usize) -> *mut u8 {
        let q = System.realloc(p, l, new);
        if !q.is_null() {
            if new >= l.size() {
                add(new - l.size());
            } else {
                sub(l.size() - new);
            }
        }
        q
    }
}

/// start a measurement window: returns the current live byte count and resets the peak to it
pub fn window_start() -> usize {
    let l = LIVE.load(Ordering::Relaxed);
    PEAK.store(l, Ordering::Relaxed);
    l
}
/// peak growth over the baseline since window_start
pub fn window_peak(base: usize) -> usize {
    PEAK.load(Ordering::Relaxed).saturating_sub(base)
}
