//! Drivers for the codec properties (C01 framing, C02 segmentation, C03 hostile bytes) on the real
//! frame codec through the __verif::codec wrappers.
use crate::engine::{self, AnySock};
use crate::refcodec as rc;
use crate::sim::{self, H, R, W};
use bytes::{Bytes, BytesMut};
use serde_json::{json, Value};
use std::panic::{catch_unwind, AssertUnwindSafe};
use zeromq::__verif::codec::{Codec, Item};

fn pattern(len: usize, salt: usize) -> Vec<u8> {
    (0..len).map(|i| ((i * 31 + salt * 7 + (i >> 8)) & 0xff) as u8).collect()
}

/// Encode a message with the real encoder, walk the produced bytes, log the parse found.
pub fn enc_event(frames: &[Vec<u8>]) -> Value {
    let lens: Vec<usize> = frames.iter().map(|f| f.len()).collect();
    let r = catch_unwind(AssertUnwindSafe(|| {
        let mut c = Codec::new();
        let mut dst = BytesMut::new();
        let ok = c.encode_message(frames.iter().map(|f| Bytes::from(f.clone())).collect(), &mut dst);
        (ok, dst)
    }));
    let (ok, dst) = match r {
        Ok(x) => x,
        Err(_) => return json!({"ev":"panic","where":"encode","lens":lens}),
    };
    if !ok {
        return json!({"ev":"panic","where":"encode-refused","lens":lens});
    }
    let b = &dst[..];
    // walk: greedy frame-by-frame parse, never trusting more than is there
    let mut fs = vec![];
    let mut pos = 0usize;
    let mut body_ok = true;
    let mut i = 0usize;
    while pos < b.len() && fs.len() < frames.len() + 2 {
        let fl = b[pos];
        let szn = if fl & 2 != 0 { 8 } else { 1 };
        if pos + 1 + szn > b.len() {
            break;
        }
        let sz: Vec<u8> = b[pos + 1..pos + 1 + szn].to_vec();
        let len64 = if szn == 8 { u64::from_be_bytes(sz.clone().try_into().unwrap()) } else { sz[0] as u64 };
        let off = pos + 1 + szn;
        let len = if len64 > (b.len() - off) as u64 { b.len() - off } else { len64 as usize };
        if i < frames.len() && (len != frames[i].len() || b[off..off + len] != frames[i][..]) {
            body_ok = false;
        }
        fs.push(json!({"fl":fl,"sz":sz,"off":off,"len":len}));
        pos = off + len;
        i += 1;
    }
    // library decode of its own bytes
    let rt = catch_unwind(AssertUnwindSafe(|| {
        let mut c = Codec::new();
        let mut src = BytesMut::new();
        src.extend_from_slice(&rc::greeting());
        src.extend_from_slice(b);
        let g = c.decode(&mut src);
        if !matches!(g, Ok(Some(Item::Greeting { .. }))) {
            return false;
        }
        match c.decode(&mut src) {
            Ok(Some(Item::Message(m))) => m.len() == frames.len() && m.iter().zip(frames).all(|(a, b)| a[..] == b[..]) && src.is_empty(),
            _ => false,
        }
    }))
    .unwrap_or(false);
    json!({"ev":"enc","lens":lens,"frames":fs,"total":b.len(),"body":body_ok,"rt":rt})
}

pub struct Lcg(pub u64);
#[allow(dead_code)]
impl Lcg {
    pub fn next(&mut self) -> u64 {
        self.0 = self.0.wrapping_mul(6364136223846793005).wrapping_add(1442695040888963407);
        self.0 >> 33
    }
    pub fn below(&mut self, n: u64) -> u64 {
        self.next() % n.max(1)
    }
}

/// C01: vectors from TLC (message shapes) + seeded random messages + greeting/READY of every socket type.
pub async fn c01(vectors: &[Value], seed: u64, nrandom: usize, all_idents: bool) -> Vec<Value> {
    let mut out = vec![];
    for (k, v) in vectors.iter().enumerate() {
        let lens: Vec<usize> = v["lens"].as_array().map(|a| a.iter().filter_map(|x| x.as_u64()).map(|x| x as usize).collect()).unwrap_or_default();
        let frames: Vec<Vec<u8>> = lens.iter().enumerate().map(|(i, n)| pattern(*n, k + i)).collect();
        let mut e = enc_event(&frames);
        // layer-B note: equality with the canonical skeleton computed by the specification
        let canon: Vec<Vec<u8>> = v["hdrs"].as_array().map(|a| a.iter().map(|h| h.as_array().map(|x| x.iter().filter_map(|y| y.as_u64()).map(|y| y as u8).collect()).unwrap_or_default()).collect()).unwrap_or_default();
        if let (Some(fs), true) = (e.get("frames").and_then(|f| f.as_array()), v.get("hdrs").is_some()) {
            let got: Vec<Vec<u8>> = fs.iter().map(|f| {
                let mut h = vec![f["fl"].as_u64().unwrap_or(0) as u8];
                h.extend(f["sz"].as_array().map(|x| x.iter().filter_map(|y| y.as_u64()).map(|y| y as u8).collect::<Vec<u8>>()).unwrap_or_default());
                h
            }).collect();
            e["canonical"] = json!(got == canon && e["total"].as_u64() == v["total"].as_u64());
        }
        out.push(e);
    }
    let mut rng = Lcg(seed.wrapping_mul(2654435761).wrapping_add(99));
    for k in 0..nrandom {
        let n = 1 + rng.below(8) as usize;
        let frames: Vec<Vec<u8>> = (0..n)
            .map(|i| {
                // log-uniform length up to 8 MiB (large ones rare), plus exact boundaries
                let class = rng.below(10);
                let len = match class {
                    0 => 0,
                    1 => [254usize, 255, 256, 257, 65535, 65536][rng.below(6) as usize],
                    2 => (1usize << (10 + rng.below(if k % 20 == 0 { 13 } else { 8 }))) + rng.below(1000) as usize,
                    _ => rng.below(300) as usize,
                };
                let mut f = pattern(len, k + i);
                for b in f.iter_mut().take(16) {
                    *b = rng.below(256) as u8;
                }
                f
            })
            .collect();
        out.push(enc_event(&frames));
    }
    // greeting + READY actually written by each socket type on an attached connection
    for (ti, t) in engine::ALL_TYPES.iter().enumerate() {
        // every identity length 1..=255 (the READY size crosses the short/long boundary inside this range);
        // quick tier: all lengths for three socket types with different name lengths, boundary lengths for the rest
        let mut idents: Vec<Option<Vec<u8>>> = vec![None];
        for n in 1..=255usize {
            if all_idents || ti % 3 == 0 || n == 1 || n == 255 {
                idents.push(Some((0..n).map(|i| (0x30 + ((i + n) % 75)) as u8).collect()));
            }
        }
        for ident in idents {
            let sock = AnySock::new(t, ident.clone());
            let (to_lib, from_lib) = (H::new(), H::new());
            // the peer stays silent: the library writes its greeting first, then waits
            let mut fut: engine::BoxFut<'static, _> = Box::pin(zeromq::__verif::attach(sock.backend(), R(to_lib.clone()), W(from_lib.clone())));
            let w = sim::CountWaker::new();
            let mut polls = 0;
            let _ = engine::drive_catch(&mut fut, &w, 50, &mut polls).await;
            // now let the peer greet so that the library proceeds to READY
            to_lib.push(&rc::greeting());
            let _ = engine::drive_catch(&mut fut, &w, 50, &mut polls).await;
            let tap = from_lib.tap();
            let g: Vec<u8> = tap.iter().take(64).copied().collect();
            let r: Vec<u8> = tap.iter().skip(64).copied().collect();
            out.push(json!({"ev":"hello","sock":t,"ident":ident.clone().unwrap_or_default(),"g":g,"r":r}));
            drop(fut);
            drop(sock);
            sim::settle().await;
        }
    }
    out
}

// ---------------------------------------------------------------------------------------------
// C02: segmentation independence on the real reader stack

fn items_of_parsed(p: &rc::Parsed) -> Vec<Value> {
    p.items
        .iter()
        .map(|it| match it {
            rc::WItem::Greeting(_) => json!("G"),
            rc::WItem::Command(_) => json!("C"),
            rc::WItem::Message(m) => json!(m.iter().map(|f| f.len()).collect::<Vec<usize>>()),
        })
        .collect()
}

fn item_sig(it: &Result<Item, String>) -> (Value, Vec<Vec<u8>>) {
    match it {
        Ok(Item::Greeting { .. }) => (json!("G"), vec![]),
        Ok(Item::Command { .. }) => (json!("C"), vec![]),
        Ok(Item::Message(m)) => (json!(m.iter().map(|f| f.len()).collect::<Vec<usize>>()), m.iter().map(|f| f.to_vec()).collect()),
        Err(e) => (json!(format!("ERR:{}", e)), vec![]),
    }
}

/// Feed `bytes` cut at `cuts` (sorted positions) through the library's real FramedRead + codec.
/// Returns the item signatures after each chunk (cumulative count) and all items.
pub fn feed_partition(bytes: &[u8], cuts: &[usize], eof: bool) -> (Vec<usize>, Vec<(Value, Vec<Vec<u8>>)>, bool) {
    let h = H::new();
    let mut stream = zeromq::__verif::codec::framed_read(R(h.clone()));
    let w = sim::CountWaker::new();
    let waker = futures::task::waker(w);
    let mut cx = std::task::Context::from_waker(&waker);
    let mut counts = vec![];
    let mut items = vec![];
    let mut last = 0usize;
    let mut ended = false;
    let mut bounds: Vec<usize> = cuts.to_vec();
    bounds.push(bytes.len());
    for (bi, b) in bounds.iter().enumerate() {
        if *b > last {
            h.push(&bytes[last..*b]);
            last = *b;
        }
        if bi + 1 == bounds.len() && eof {
            h.close();
        }
        loop {
            match futures::Stream::poll_next(std::pin::Pin::new(&mut stream), &mut cx) {
                std::task::Poll::Ready(Some(it)) => {
                    let is_err = it.is_err();
                    items.push(item_sig(&it));
                    if is_err || items.len() > 10_000 {
                        ended = true;
                        break;
                    }
                }
                std::task::Poll::Ready(None) => {
                    ended = true;
                    break;
                }
                std::task::Poll::Pending => break,
            }
        }
        counts.push(items.len());
        if ended {
            break;
        }
    }
    (counts, items, ended)
}

fn bodies_of_parsed(p: &rc::Parsed) -> Vec<Vec<Vec<u8>>> {
    p.items.iter().map(|it| match it { rc::WItem::Message(m) => m.clone(), _ => vec![] }).collect()
}

pub fn c02(vectors: &[Value], seed: u64, max_exh: usize, nrandom: usize) -> Vec<Value> {
    let mut out = vec![];
    let mut rng = Lcg(seed ^ 0x5eed);
    let mut streams: Vec<(Value, Vec<u8>, Option<Vec<Value>>, Option<Vec<Value>>)> = vec![];
    for v in vectors {
        let bytes: Vec<u8> = v["bytes"].as_array().map(|a| a.iter().filter_map(|x| x.as_u64()).map(|x| x as u8).collect()).unwrap_or_default();
        streams.push((v["id"].clone(), bytes, v["items"].as_array().cloned(), v["per"].as_array().cloned()));
    }
    // seeded random streams with large frames (oracle: the harness's reference codec, itself checked against the TLC vectors above)
    for k in 0..nrandom {
        let mut b = rc::greeting();
        let n = 1 + rng.below(4);
        for j in 0..n {
            if rng.below(5) == 0 {
                b.extend(rc::ready("DEALER", if rng.below(2) == 0 { Some(b"idX") } else { None }));
            }
            let nf = 1 + rng.below(3) as usize;
            let frames: Vec<Vec<u8>> = (0..nf).map(|i| pattern([0usize, 1, 100, 255, 256, 8191, 8192, 8193, 20000, 70000][rng.below(10) as usize], k + i + j as usize)).collect();
            b.extend(rc::enc_msg(&frames));
        }
        streams.push((json!(format!("r{}", k)), b, None, None));
    }
    // messages of many small frames delivered in one read (a decoder must not give up after a budget of frames)
    for k in [63usize, 64, 65, 66, 100, 257, 1000, 5000] {
        let mut b = rc::greeting();
        let frames: Vec<Vec<u8>> = (0..k).map(|i| vec![(i % 251) as u8; i % 3]).collect();
        b.extend(rc::enc_msg(&frames));
        b.extend(rc::enc_msg(&[b"after".to_vec()]));
        streams.push((json!(format!("many{}", k)), b, None, None));
    }
    for (id, bytes, exp_items, per) in streams {
        let parsed = rc::parse(&bytes, true);
        let ref_items = items_of_parsed(&parsed);
        let ref_bodies = bodies_of_parsed(&parsed);
        let mut oracle_disagree = false;
        if let Some(e) = &exp_items {
            if *e != ref_items {
                oracle_disagree = true;
            }
        }
        let expected = exp_items.clone().unwrap_or(ref_items.clone());
        let n = bytes.len();
        let tail = n.saturating_sub(64);
        // partitions
        let mut parts: Vec<Vec<usize>> = vec![];
        let exhaustive = tail <= max_exh;
        if exhaustive {
            // every subset of cut positions {64, 65, .., n-1}
            let pos: Vec<usize> = (64..n).collect();
            for mask in 0u64..(1u64 << pos.len()) {
                parts.push(pos.iter().enumerate().filter(|(i, _)| mask >> i & 1 == 1).map(|(_, p)| *p).collect());
            }
            for c in 1..64 {
                parts.push(vec![c]);
            }
        } else {
            parts.push(vec![]);
            parts.push((1..n).collect()); // byte at a time
            if n <= 400 {
                for a in 1..n {
                    parts.push(vec![a]);
                    for b2 in (a + 1)..n {
                        parts.push(vec![a, b2]);
                    }
                }
            } else {
                for _ in 0..300 {
                    let a = 1 + rng.below((n - 1) as u64) as usize;
                    parts.push(vec![a]);
                    let b2 = 1 + rng.below((n - 1) as u64) as usize;
                    let mut v = vec![a, b2];
                    v.sort();
                    v.dedup();
                    parts.push(v);
                }
                for _ in 0..40 {
                    let k = 1 + rng.below(40);
                    let mut v: Vec<usize> = (0..k).map(|_| 1 + rng.below((n - 1) as u64) as usize).collect();
                    v.sort();
                    v.dedup();
                    parts.push(v);
                }
                // reads of at most 8192 / 1500 bytes
                for step in [8192usize, 1500, 4096, 65536] {
                    parts.push((1..n).filter(|p| p % step == 0).collect());
                }
            }
        }
        let (mut bad, mut drift) = (0usize, 0usize);
        let mut first_bad = Value::Null;
        let mut first_drift = Value::Null;
        for cuts in &parts {
            let r = catch_unwind(AssertUnwindSafe(|| feed_partition(&bytes, cuts, false)));
            let (counts, items, _ended) = match r {
                Ok(x) => x,
                Err(_) => {
                    bad += 1;
                    if first_bad.is_null() {
                        first_bad = json!({"cuts":cuts.iter().take(50).collect::<Vec<_>>(),"panic":true});
                    }
                    continue;
                }
            };
            let got: Vec<Value> = items.iter().map(|(s, _)| s.clone()).collect();
            let mut ok = got == expected;
            if ok {
                // body content
                for (i, (_, b)) in items.iter().enumerate() {
                    if i < ref_bodies.len() && !ref_bodies[i].is_empty() && *b != ref_bodies[i] {
                        ok = false;
                    }
                }
            }
            if !ok {
                bad += 1;
                if first_bad.is_null() {
                    first_bad = json!({"cuts":cuts.iter().take(50).collect::<Vec<_>>(),"got":got.iter().take(12).collect::<Vec<_>>(),"expected":expected.iter().take(12).collect::<Vec<_>>()});
                }
            }
            // layer B: item count after each chunk equals the model's table for that prefix length
            if let Some(per) = &per {
                let mut bounds = cuts.clone();
                bounds.push(n);
                for (i, b) in bounds.iter().enumerate() {
                    if i < counts.len() && *b >= 1 && *b <= per.len() {
                        let want = per[*b - 1][0].as_u64().unwrap_or(0) as usize;
                        if counts[i] != want {
                            drift += 1;
                            if first_drift.is_null() {
                                first_drift = json!({"cuts":cuts.iter().take(50).collect::<Vec<_>>(),"after":b,"items":counts[i],"model":want});
                            }
                            break;
                        }
                    }
                }
            }
        }
        // layer B: decoder debug state after every prefix (one-shot feeds), against the model's table
        if let Some(per) = &per {
            for p in 1..=n.min(per.len()) {
                let r = catch_unwind(AssertUnwindSafe(|| {
                    let mut c = Codec::new();
                    let mut src = BytesMut::from(&bytes[..p]);
                    let mut guard = 0;
                    while let Ok(Some(_)) = c.decode(&mut src) {
                        guard += 1;
                        if guard > 1000 {
                            break;
                        }
                    }
                    c.debug_state()
                }));
                let Ok(dbg) = r else {
                    bad += 1;
                    if first_bad.is_null() {
                        first_bad = json!({"cuts":[p],"panic":true,"one_shot_prefix":p});
                    }
                    break;
                };
                let st = per[p - 1][1].as_str().unwrap_or("");
                let need = per[p - 1][2].as_i64().unwrap_or(0);
                let st_ok = dbg.contains(&format!("state: {}", st));
                let need_ok = need < 0 || dbg.contains(&format!("waiting_for: {},", need));
                if !(st_ok && need_ok) {
                    drift += 1;
                    if first_drift.is_null() {
                        first_drift = json!({"prefix":p,"model":[st, need],"code":dbg.chars().take(120).collect::<String>()});
                    }
                    break;
                }
            }
        }
        out.push(json!({"ev":"seg","id":id,"len":n,"partitions":parts.len(),"exhaustive":exhaustive,"bad":bad,"first_bad":first_bad,"drift":drift,"first_drift":first_drift,
            "oracle_disagree":oracle_disagree,"expected":expected.iter().take(8).collect::<Vec<_>>()}));
    }
    out
}

// ---------------------------------------------------------------------------------------------
// C03: hostile bytes into the bare reader stack (runs on a thread with tokio's default 2 MiB stack)

fn bytes_of(v: &Value) -> Vec<u8> {
    if let Some(s) = v.as_str() {
        return rc::unhex(s);
    }
    v.as_array().map(|a| a.iter().filter_map(|x| x.as_u64()).map(|x| x as u8).collect()).unwrap_or_default()
}

/// expands a compact description of a large structured input
fn big_input(v: &Value) -> (Vec<u8>, u64) {
    // {"big":"more_frames","k":200000} | {"big":"long_size","size":"ffffffffffffff00","body":100}
    let mut b = rc::greeting();
    let mut maxmsgs = 0u64;
    match v["big"].as_str().unwrap_or("") {
        "more_frames" => {
            let k = v["k"].as_u64().unwrap_or(1000);
            let fl = v["flag"].as_u64().unwrap_or(1) as u8;
            for _ in 0..k {
                b.extend_from_slice(&[fl, 1, 0x41]);
            }
            if v["finish"].as_bool().unwrap_or(false) {
                b.extend_from_slice(&[0, 0]);
                maxmsgs = 1;
            }
            if fl & 1 == 0 {
                maxmsgs = k;
            }
        }
        "long_size" => {
            b.push(v["flag"].as_u64().unwrap_or(2) as u8);
            b.extend(bytes_of(&v["size"]));
            b.extend(std::iter::repeat(0x42).take(v["body"].as_u64().unwrap_or(0) as usize));
            maxmsgs = 1;
        }
        "many_messages" => {
            let k = v["k"].as_u64().unwrap_or(1000);
            for _ in 0..k {
                b.extend_from_slice(&[0, 1, 0x43]);
            }
            maxmsgs = k;
        }
        _ => {}
    }
    (b, maxmsgs)
}

pub fn c03(vectors: &[Value], progress: Option<String>, out_path: String) -> usize {
    use std::io::Write;
    let vectors = vectors.to_vec();
    let h = std::thread::Builder::new()
        .stack_size(2 * 1024 * 1024)
        .spawn(move || {
            // results are written as they are produced: if this process dies, what it had finished survives
            let mut f = std::fs::File::create(&out_path).expect("create out");
            let mut n = 0usize;
            let mut emit = |e: Value| {
                let _ = writeln!(f, "{}", e);
                let _ = f.flush();
                n += 1;
            };
            for (i, v) in vectors.iter().enumerate() {
                if let Some(p) = &progress {
                    let _ = std::fs::write(p, format!("{}", i));
                }
                if v.get("big").is_some() {
                    let (bytes, maxmsgs) = big_input(v);
                    let base = crate::alloc::window_start();
                    let r = catch_unwind(AssertUnwindSafe(|| feed_partition(&bytes, &[], true)));
                    let peak = crate::alloc::window_peak(base).min(i32::MAX as usize); // TLC integers are 32-bit
                    let (panic, nmsgs) = match &r {
                        Ok((_, items, _)) => (false, items.iter().filter(|(s, _)| s.is_array()).count()),
                        Err(_) => (true, 0),
                    };
                    emit(json!({"ev":"hostile_big","id":i,"what":v,"fed":bytes.len(),"peak":peak,"panic":panic,"nmsgs":nmsgs,"maxmsgs":maxmsgs}));
                    continue;
                }
                let raw = v.get("raw").is_some();
                let tail = if raw { bytes_of(&v["raw"]) } else { bytes_of(&v["b"]) };
                let mut bytes = if raw { vec![] } else { rc::greeting() };
                bytes.extend_from_slice(&tail);
                let cuts: Vec<usize> = v.get("cuts").and_then(|c| c.as_array()).map(|a| a.iter().filter_map(|x| x.as_u64()).map(|x| x as usize).collect()).unwrap_or_default();
                let base = crate::alloc::window_start();
                let r = catch_unwind(AssertUnwindSafe(|| feed_partition(&bytes, &cuts, true)));
                let peak = crate::alloc::window_peak(base).min(i32::MAX as usize); // TLC integers are 32-bit
                let (panic, msgs, errs) = match &r {
                    Ok((_, items, _)) => (
                        false,
                        items.iter().filter(|(s, _)| s.is_array()).map(|(s, _)| s.clone()).collect::<Vec<Value>>(),
                        items.iter().filter(|(s, _)| s.as_str().map(|x| x.starts_with("ERR")).unwrap_or(false)).count(),
                    ),
                    Err(_) => (true, vec![], 0),
                };
                let mut e = json!({"ev":"hostile","id":i,"b":tail,"fed":bytes.len(),"peak":peak,"panic":panic,"msgs":msgs,"errs":errs});
                if raw {
                    e["raw"] = json!(true);
                }
                emit(e);
            }
            n
        })
        .expect("spawn");
    h.join().unwrap_or(0)
}
