//! Real-transport driver (C17, C18, C20): operation sequences on real sockets over loopback TCP (v4, v6,
//! localhost) and IPC, observed from outside: return values, binds() contents, fresh raw connect probes, EOF seen
//! by raw peers, existence of the IPC path, alive tokio tasks, open descriptors, monitor events.
use crate::engine::{errkind, from_msg, to_msg, AnySock};
use crate::refcodec as rc;
use futures::StreamExt;
use serde_json::{json, Value};
use std::collections::BTreeMap;
use std::time::Duration;
use tokio::io::{AsyncReadExt, AsyncWriteExt};
use tokio::net::{TcpListener, TcpStream, UnixStream};
use zeromq::prelude::*;
use zeromq::*;

/// watchdog of the flood driver: FLOOD_ACTIVE while the receive loop runs, FLOOD_PROGRESS bumped whenever recv returns
/// (or times out); a thread in main exits the process with code 3 when the loop has not come back for 40 s
pub static FLOOD_ACTIVE: std::sync::atomic::AtomicBool = std::sync::atomic::AtomicBool::new(false);
pub static FLOOD_PROGRESS: std::sync::atomic::AtomicUsize = std::sync::atomic::AtomicUsize::new(0);

pub const SETTLE: Duration = Duration::from_secs(10);
const STEP: Duration = Duration::from_millis(20);

pub enum Raw {
    Tcp(TcpStream),
    Unix(UnixStream),
}
impl Raw {
    async fn write_all(&mut self, b: &[u8]) -> std::io::Result<()> {
        match self {
            Raw::Tcp(s) => s.write_all(b).await,
            Raw::Unix(s) => s.write_all(b).await,
        }
    }
    async fn read(&mut self, b: &mut [u8]) -> std::io::Result<usize> {
        match self {
            Raw::Tcp(s) => s.read(b).await,
            Raw::Unix(s) => s.read(b).await,
        }
    }
}
pub struct Client {
    pub raw: Raw,
    pub inbuf: Vec<u8>,
    pub handshaken: bool,
}

/// is there a LISTEN socket on this TCP port that belongs to this very process? (an ephemeral port that this socket
/// released may be handed to any other process of the machine at any time)
fn listening_here(port: u16) -> bool {
    listeners(port).0
}
/// (a LISTEN socket on this port belongs to this process, a LISTEN socket on this port belongs to somebody else)
fn listeners(port: u16) -> (bool, bool) {
    let inodes = listen_inodes(port);
    if inodes.is_empty() {
        return (false, false);
    }
    let mut mine: Vec<String> = vec![];
    if let Ok(d) = std::fs::read_dir("/proc/self/fd") {
        for e in d.flatten() {
            if let Ok(l) = std::fs::read_link(e.path()) {
                mine.push(l.to_string_lossy().to_string());
            }
        }
    }
    let ours = inodes.iter().any(|i| mine.iter().any(|l| *l == format!("socket:[{}]", i)));
    let foreign = inodes.iter().any(|i| !mine.iter().any(|l| *l == format!("socket:[{}]", i)));
    (ours, foreign)
}
fn listen_inodes(port: u16) -> Vec<String> {
    let mut inodes: Vec<String> = vec![];
    for f in ["/proc/net/tcp", "/proc/net/tcp6"] {
        if let Ok(t) = std::fs::read_to_string(f) {
            for line in t.lines().skip(1) {
                let c: Vec<&str> = line.split_whitespace().collect();
                if c.len() > 9 && c[3] == "0A" {
                    if let Some(p) = c[1].rsplit(':').next().and_then(|h| u16::from_str_radix(h, 16).ok()) {
                        if p == port {
                            inodes.push(c[9].to_string());
                        }
                    }
                }
            }
        }
    }
    inodes
}

/// SO_LINGER {on, 0}: closing sends RST instead of FIN
fn socket_linger0(s: &std::net::TcpStream) -> bool {
    use std::os::fd::AsRawFd;
    let l = libc::linger { l_onoff: 1, l_linger: 0 };
    // SAFETY: plain setsockopt on a descriptor we own, with a correctly sized option value
    let r = unsafe { libc::setsockopt(s.as_raw_fd(), libc::SOL_SOCKET, libc::SO_LINGER, &l as *const _ as *const libc::c_void, std::mem::size_of::<libc::linger>() as libc::socklen_t) };
    r == 0
}

fn fd_count() -> usize {
    std::fs::read_dir("/proc/self/fd").map(|d| d.count()).unwrap_or(0)
}
fn alive_tasks() -> usize {
    tokio::runtime::Handle::current().metrics().num_alive_tasks()
}

async fn raw_connect(ep: &str) -> std::io::Result<Raw> {
    if let Some(p) = ep.strip_prefix("ipc://") {
        Ok(Raw::Unix(UnixStream::connect(p).await?))
    } else {
        let hp = ep.strip_prefix("tcp://").unwrap_or(ep);
        let s = TcpStream::connect(hp).await?;
        let _ = s.set_nodelay(true);
        Ok(Raw::Tcp(s))
    }
}

fn peer_type_for(sock: &str) -> &'static str {
    match sock {
        "PULL" => "PUSH",
        "PUSH" => "PULL",
        "SUB" => "PUB",
        "PUB" | "XPUB" => "SUB",
        "REQ" => "REP",
        "REP" => "REQ",
        "DEALER" => "DEALER",
        "ROUTER" => "DEALER",
        _ => "DEALER",
    }
}

/// read until `inbuf` holds at least n bytes (or timeout / EOF)
async fn fill(c: &mut Client, n: usize, dur: Duration) -> bool {
    let deadline = tokio::time::Instant::now() + dur;
    let mut b = [0u8; 65536];
    while c.inbuf.len() < n {
        match tokio::time::timeout_at(deadline, c.raw.read(&mut b)).await {
            Ok(Ok(0)) | Ok(Err(_)) | Err(_) => return false,
            Ok(Ok(k)) => c.inbuf.extend_from_slice(&b[..k]),
        }
    }
    true
}

/// full client-side handshake as a compatible peer; `upto`: send only that many bytes of greeting+READY
async fn handshake(c: &mut Client, sock: &str, upto: Option<usize>, then: &str) -> &'static str {
    let mut hello = rc::greeting();
    hello.extend(rc::ready(peer_type_for(sock), None));
    let n = upto.unwrap_or(hello.len()).min(hello.len());
    if c.raw.write_all(&hello[..n]).await.is_err() {
        return "write-failed";
    }
    if upto.is_some() {
        match then {
            "garbage" => {
                let _ = c.raw.write_all(&[0x5a; 200]).await;
            }
            "close" => {
                // caller drops the client
            }
            _ => {}
        }
        return "stopped";
    }
    // expect greeting (64) + a READY command from the library
    if !fill(c, 66, SETTLE).await {
        return "no-reply";
    }
    let p = rc::parse(&c.inbuf, true);
    let mut tries = 0;
    let mut p = p;
    while p.items.len() < 2 && tries < 50 {
        let want = c.inbuf.len() + 1;
        if !fill(c, want, Duration::from_millis(200)).await {
            tries += 1;
        }
        p = rc::parse(&c.inbuf, true);
    }
    if p.items.len() >= 2 && matches!(p.items[1], rc::WItem::Command(_)) {
        c.inbuf.drain(..p.consumed);
        c.handshaken = true;
        "handshaken"
    } else {
        "bad-reply"
    }
}

fn app_msg(sock: &str, tag: &[u8]) -> Vec<Vec<u8>> {
    match sock {
        "REP" => vec![vec![], tag.to_vec()],
        "XPUB" => vec![[&[1u8][..], tag].concat()],
        _ => vec![tag.to_vec()],
    }
}

/// does the client receive a message containing tag within dur?
async fn client_gets(c: &mut Client, tag: &[u8], dur: Duration) -> bool {
    let deadline = tokio::time::Instant::now() + dur;
    let mut b = [0u8; 65536];
    loop {
        if c.inbuf.windows(tag.len()).any(|w| w == tag) {
            return true;
        }
        match tokio::time::timeout_at(deadline, c.raw.read(&mut b)).await {
            Ok(Ok(0)) | Ok(Err(_)) | Err(_) => return false,
            Ok(Ok(k)) => c.inbuf.extend_from_slice(&b[..k]),
        }
    }
}

/// does the client see end-of-stream (or a reset) within dur?
async fn client_eof(c: &mut Client, dur: Duration) -> bool {
    let deadline = tokio::time::Instant::now() + dur;
    let mut b = [0u8; 65536];
    loop {
        match tokio::time::timeout_at(deadline, c.raw.read(&mut b)).await {
            Ok(Ok(0)) | Ok(Err(_)) => return true,
            Err(_) => return false,
            Ok(Ok(_)) => {}
        }
    }
}

pub async fn run_net_scenario(sc: &Value, workdir: &str) -> Vec<Value> {
    let stype = sc["sock"].as_str().unwrap_or("PULL").to_string();
    let mut out: Vec<Value> = vec![];
    let base_fds = fd_count();
    let base_tasks = alive_tasks();
    out.push(json!({"ev":"reset","scen":sc.get("scen").cloned().unwrap_or(json!(0)),"sock":stype,"tag":sc.get("tag").cloned().unwrap_or(json!("")),"fds":base_fds,"tasks":base_tasks}));
    let mut sock: Option<AnySock> = Some(AnySock::new(&stype, None));
    macro_rules! new_monitor {
        () => {
            sock.as_mut().map(|s| match s {
                AnySock::Req(x) => x.monitor(),
                AnySock::Rep(x) => x.monitor(),
                AnySock::Dealer(x) => x.monitor(),
                AnySock::Router(x) => x.monitor(),
                AnySock::Push(x) => x.monitor(),
                AnySock::Pull(x) => x.monitor(),
                AnySock::Pub(x) => x.monitor(),
                AnySock::Sub(x) => x.monitor(),
                AnySock::XPub(x) => x.monitor(),
            })
        };
    }
    // "monitor_at": "start" (default) | "later" (only by an install_monitor op: after bind, or replacing an earlier one)
    let mut monitor = if sc.get("monitor_at").and_then(|v| v.as_str()) == Some("later") { None } else { new_monitor!() };
    let mut names: BTreeMap<String, String> = BTreeMap::new(); // name -> resolved endpoint text
    let mut clients: BTreeMap<i64, Client> = BTreeMap::new();
    let mut servers: BTreeMap<String, (TcpListener, Vec<TcpStream>)> = BTreeMap::new();
    let mut nmsg = 0usize;
    let mut hoard: Vec<std::fs::File> = vec![];
    let mut saved_limit: Option<u64> = None;
    let ops: Vec<Value> = sc["ops"].as_array().cloned().unwrap_or_default();
    macro_rules! with_sock {
        ($s:ident, $body:expr) => {
            match sock.as_mut() {
                Some(AnySock::Req($s)) => $body,
                Some(AnySock::Rep($s)) => $body,
                Some(AnySock::Dealer($s)) => $body,
                Some(AnySock::Router($s)) => $body,
                Some(AnySock::Push($s)) => $body,
                Some(AnySock::Pull($s)) => $body,
                Some(AnySock::Pub($s)) => $body,
                Some(AnySock::Sub($s)) => $body,
                Some(AnySock::XPub($s)) => $body,
                None => unreachable!(),
            }
        };
    }
    let mut gave_up = false;
    for op in &ops {
        // once an operation that should complete promptly has run into the 10 s bound, the verdict for this scenario is
        // already in the trace: do not spend 10 s on each of the remaining operations as well
        if !gave_up {
            if let Some(last) = out.last() {
                let r = last.get("res").and_then(|v| v.as_str()).unwrap_or("");
                let slow = r == "timeout" || r == "no-reply" || (last["ev"] == "exchange" && r == "failed");
                if slow && last.get("settled").and_then(|v| v.as_bool()) != Some(true) {
                    gave_up = true;
                    out.push(json!({"ev":"skipped_rest","after":last["ev"].clone()}));
                }
            }
        }
        if gave_up {
            continue;
        }
        let name = op["op"].as_str().unwrap_or("");
        let nm = op.get("name").and_then(|v| v.as_str()).unwrap_or("a").to_string();
        let k = op.get("k").and_then(|v| v.as_i64()).unwrap_or(1);
        match name {
            "bind" | "bind_dup" => {
                if sock.is_none() {
                    continue;
                }
                let req = if name == "bind_dup" {
                    names.get(&nm).cloned().unwrap_or_default()
                } else {
                    let e = op["ep"].as_str().unwrap_or("tcp://127.0.0.1:0").to_string();
                    e.replace("$DIR", workdir)
                };
                let r = with_sock!(s, tokio::time::timeout(SETTLE, s.bind(&req)).await);
                match r {
                    Ok(Ok(ep)) => {
                        let text = ep.to_string();
                        let port = match &ep {
                            Endpoint::Tcp(_, p) => *p as i64,
                            _ => -1,
                        };
                        if name == "bind" {
                            names.insert(nm.clone(), text.clone());
                        }
                        out.push(json!({"ev":name,"name":nm,"req":req,"res":"ok","resolved":text,"port":port}));
                    }
                    Ok(Err(e)) => out.push(json!({"ev":name,"name":nm,"req":req,"res":"err","err":errkind(&e).0})),
                    Err(_) => out.push(json!({"ev":name,"name":nm,"req":req,"res":"timeout"})),
                }
            }
            "unbind" | "unbind_unknown" => {
                if sock.is_none() {
                    continue;
                }
                let text = if name == "unbind" { names.get(&nm).cloned().unwrap_or_default() } else { "tcp://127.0.0.1:1".to_string() };
                let ep: Result<Endpoint, _> = text.parse();
                let Ok(ep) = ep else {
                    out.push(json!({"ev":name,"name":nm,"res":"harness-bad-endpoint","text":text}));
                    continue;
                };
                let r = with_sock!(s, tokio::time::timeout(SETTLE, s.unbind(ep)).await);
                // "blocking until the endpoint is no longer in use": a connection attempt made the instant unbind has
                // returned - synchronously, without giving the runtime another turn - must already be refused
                let mut after = "n/a".to_string();
                if name == "unbind" && matches!(r, Ok(Ok(()))) {
                    if let Some(hp) = text.strip_prefix("tcp://") {
                        if let Some(addr) = std::net::ToSocketAddrs::to_socket_addrs(hp).ok().and_then(|mut a| a.next()) {
                            let c = std::net::TcpStream::connect_timeout(&addr, Duration::from_millis(300));
                            // the connect was accepted by whatever listened on the port at that instant. It was this socket's
                            // own listener unless somebody else has bound the port meanwhile and is listening there now (our own
                            // listener may well have gone by the time /proc is read: that does not clear it)
                            after = if c.is_ok() && !listeners(addr.port()).1 { "accepted".into() } else { "refused".into() };
                        }
                    } else if let Some(path) = text.strip_prefix("ipc://") {
                        after = if std::os::unix::net::UnixStream::connect(path).is_ok() { "accepted".into() } else { "refused".into() };
                    }
                }
                let res = match r {
                    Ok(Ok(())) => "ok".to_string(),
                    Ok(Err(e)) => format!("err:{}", errkind(&e).0),
                    Err(_) => "timeout".to_string(),
                };
                out.push(json!({"ev":name,"name":nm,"res":res,"after":after}));
            }
            "binds" => {
                if sock.is_none() {
                    continue;
                }
                let mut v: Vec<String> = with_sock!(s, s.binds().keys().map(|e| e.to_string()).collect());
                v.sort();
                // report by name
                let mut byname: Vec<String> = vec![];
                let mut unknown = 0;
                for t in &v {
                    match names.iter().find(|(_, x)| *x == t) {
                        Some((n, _)) => byname.push(n.clone()),
                        None => unknown += 1,
                    }
                }
                byname.sort();
                out.push(json!({"ev":"binds","names":byname,"unknown":unknown}));
            }
            "probe" | "probe_settle" => {
                // fresh connection attempt to a (formerly) bound endpoint
                let text = names.get(&nm).cloned().unwrap_or_default();
                let deadline = tokio::time::Instant::now() + SETTLE;
                let want_refused = name == "probe_settle";
                let mut res;
                loop {
                    res = match tokio::time::timeout(SETTLE, raw_connect(&text)).await {
                        Ok(Ok(raw)) => {
                            let mut c = Client { raw, inbuf: vec![], handshaken: false };
                            if op.get("handshake").and_then(|v| v.as_bool()).unwrap_or(false) {
                                handshake(&mut c, &stype, None, "").await
                            } else {
                                "accepted"
                            }
                        }
                        Ok(Err(_)) => "refused",
                        Err(_) => "timeout",
                    };
                    if !want_refused || res == "refused" || tokio::time::Instant::now() >= deadline {
                        break;
                    }
                    tokio::time::sleep(STEP).await;
                }
                let port: u16 = text.rsplit(':').next().and_then(|p| p.parse().ok()).unwrap_or(0);
                let ours = if text.starts_with("ipc://") { true } else { res != "refused" && listening_here(port) };
                out.push(json!({"ev":"probe","name":nm,"res":res,"settled":want_refused,"ours":ours}));
            }
            "fd_exhaust" => {
                // the process runs out of descriptors: accept() on every listener fails (EMFILE) while a connection waits in
                // the backlog; `keep` descriptors are left for the scripted client itself
                let keep = op.get("keep").and_then(|v| v.as_u64()).unwrap_or(1) as usize;
                let mut lim = libc::rlimit { rlim_cur: 0, rlim_max: 0 };
                unsafe { libc::getrlimit(libc::RLIMIT_NOFILE, &mut lim) };
                saved_limit = Some(lim.rlim_cur);
                let cur = fd_count() as u64;
                let newlim = libc::rlimit { rlim_cur: (cur + 200).min(lim.rlim_max), rlim_max: lim.rlim_max };
                unsafe { libc::setrlimit(libc::RLIMIT_NOFILE, &newlim) };
                loop {
                    match std::fs::File::open("/dev/null") {
                        Ok(f) => hoard.push(f),
                        Err(_) => break,
                    }
                    if hoard.len() > 100_000 {
                        break;
                    }
                }
                for _ in 0..keep {
                    hoard.pop();
                }
                out.push(json!({"ev":"fd_exhaust","held":hoard.len(),"keep":keep}));
            }
            "fd_release" => {
                hoard.clear();
                if let Some(c) = saved_limit.take() {
                    let mut lim = libc::rlimit { rlim_cur: 0, rlim_max: 0 };
                    unsafe { libc::getrlimit(libc::RLIMIT_NOFILE, &mut lim) };
                    lim.rlim_cur = c;
                    unsafe { libc::setrlimit(libc::RLIMIT_NOFILE, &lim) };
                }
                out.push(json!({"ev":"fd_release"}));
            }
            "ipc_sabotage" => {
                // somebody replaces the endpoint's socket file by a directory: the listener keeps working (it holds the
                // socket), but the library's removal of the file at unbind / close must fail - and be reported
                let text = names.get(&nm).cloned().unwrap_or_default();
                let path = text.strip_prefix("ipc://").unwrap_or("").to_string();
                let ok = std::fs::remove_file(&path).is_ok() && std::fs::create_dir(&path).is_ok();
                out.push(json!({"ev":"ipc_sabotage","name":nm,"ok":ok}));
            }
            "ipc_exists" => {
                let text = names.get(&nm).cloned().unwrap_or_default();
                let path = text.strip_prefix("ipc://").unwrap_or("").to_string();
                let deadline = tokio::time::Instant::now() + if op.get("settle").and_then(|v| v.as_bool()).unwrap_or(false) { SETTLE } else { Duration::from_millis(0) };
                let mut exists = std::path::Path::new(&path).exists();
                while exists && tokio::time::Instant::now() < deadline {
                    tokio::time::sleep(STEP).await;
                    exists = std::path::Path::new(&path).exists();
                }
                out.push(json!({"ev":"ipc_exists","name":nm,"exists":exists}));
            }
            "client" => {
                // a raw client connects to bound endpoint `name`; kind: good | stall | garbage | close, at: byte offset
                let text = names.get(&nm).cloned().unwrap_or_default();
                let kind = op.get("kind").and_then(|v| v.as_str()).unwrap_or("good").to_string();
                let at = op.get("at").and_then(|v| v.as_u64()).map(|x| x as usize);
                match tokio::time::timeout(SETTLE, raw_connect(&text)).await {
                    Ok(Ok(raw)) => {
                        let mut c = Client { raw, inbuf: vec![], handshaken: false };
                        let res = handshake(&mut c, &stype, if kind == "good" { None } else { Some(at.unwrap_or(0)) }, &kind).await;
                        out.push(json!({"ev":"client","k":k,"name":nm,"kind":kind,"at":at,"res":res}));
                        if kind == "close" {
                            drop(c);
                        } else {
                            if kind == "good" && (stype == "PUB" || stype == "XPUB") {
                                let _ = c.raw.write_all(&rc::enc_msg(&[vec![1u8]])).await; // subscribe to everything
                            }
                            clients.insert(k, c);
                        }
                    }
                    Ok(Err(_)) => out.push(json!({"ev":"client","k":k,"name":nm,"kind":kind,"res":"refused"})),
                    Err(_) => out.push(json!({"ev":"client","k":k,"name":nm,"kind":kind,"res":"timeout"})),
                }
            }
            "reset_burst" => {
                // n clients that connect and abort (RST) at once, faster than the accept loop can pick them up
                let text = names.get(&nm).cloned().unwrap_or_default();
                let n = op.get("n").and_then(|v| v.as_u64()).unwrap_or(20);
                let mut done = 0;
                if let Some(hp) = text.strip_prefix("tcp://") {
                    let hp = hp.to_string();
                    done = tokio::task::spawn_blocking(move || {
                        let mut k = 0;
                        for _ in 0..n {
                            if let Ok(s) = std::net::TcpStream::connect(&hp) {
                                let sock = socket_linger0(&s);
                                drop(s);
                                if sock {
                                    k += 1;
                                }
                            }
                        }
                        k
                    })
                    .await
                    .unwrap_or(0);
                }
                out.push(json!({"ev":"reset_burst","name":nm,"n":done}));
            }
            "mt_flood" => {
                // n raw clients write k tagged messages each, concurrently from their own tasks on the multi-threaded runtime,
                // in random chunks; the socket's recv results are logged against a global order (a message is logged as written
                // BEFORE its first byte is sent, so a recv can never precede it in the trace); TraceDelivery judges the trace
                if sock.is_none() {
                    continue;
                }
                let text = names.get(&nm).cloned().unwrap_or_default();
                let n = op.get("clients").and_then(|v| v.as_u64()).unwrap_or(3) as i64;
                let kmsgs = op.get("msgs").and_then(|v| v.as_u64()).unwrap_or(20) as usize;
                let seed = op.get("seed").and_then(|v| v.as_u64()).unwrap_or(1);
                // backlog mode: big messages, writers never pause, the application starts receiving late and then calls recv
                // back to back: the receive loop is always ready and never has to park
                let big = op.get("backlog").and_then(|v| v.as_bool()).unwrap_or(false);
                let log: std::sync::Arc<std::sync::Mutex<Vec<Value>>> = Default::default();
                let mut handles = vec![];
                let mut ready = 0;
                for c in 1..=n {
                    let Ok(Ok(raw)) = tokio::time::timeout(SETTLE, raw_connect(&text)).await else { continue };
                    let mut cl = Client { raw, inbuf: vec![], handshaken: false };
                    // handshake with an announced identity so that ROUTER labels are known
                    let ident = format!("mt{}", c).into_bytes();
                    let mut hello = rc::greeting();
                    hello.extend(rc::ready(peer_type_for(&stype), Some(&ident)));
                    if cl.raw.write_all(&hello).await.is_err() || !fill(&mut cl, 66, SETTLE).await {
                        continue;
                    }
                    ready += 1;
                    log.lock().unwrap().push(json!({"ev":"attach_ret","c":c,"res":"ok","id":rc::fdesc(&ident),"auto":false}));
                    let log2 = log.clone();
                    let st = stype.clone();
                    handles.push(tokio::spawn(async move {
                        let mut rng = crate::codec::Lcg(seed.wrapping_mul(7919).wrapping_add(c as u64));
                        for j in 1..=kmsgs {
                            let tag = format!("c{}m{}", c, j).into_bytes();
                            let mut frames = app_msg(&st, &tag);
                            if big && st != "XPUB" {
                                // every message is larger than the reader's buffer: at least one read system call per message
                                frames.push(vec![b'B'; 12000]);
                                frames.push(tag.clone());
                            } else if st != "XPUB" && rng.below(3) == 0 {
                                frames.push(vec![b'z'; [0usize, 1, 255, 256, 9000][rng.below(5) as usize]]);
                                frames.push(tag.clone());
                            }
                            let bytes = rc::enc_msg(&frames);
                            log2.lock().unwrap().push(json!({"ev":"peer_wrote","c":c,"m":rc::mdesc(&frames)}));
                            let mut off = 0;
                            while off < bytes.len() {
                                let lim = if big { 60000 } else if rng.below(4) == 0 { 7 } else { 4000 };
                                let step = (1 + rng.below(lim) as usize).min(bytes.len() - off);
                                if cl.raw.write_all(&bytes[off..off + step]).await.is_err() {
                                    return cl;
                                }
                                off += step;
                                if !big && rng.below(5) == 0 {
                                    tokio::task::yield_now().await;
                                }
                            }
                            if !big && rng.below(10) == 0 {
                                tokio::time::sleep(Duration::from_millis(rng.below(3))).await;
                            }
                        }
                        cl
                    }));
                }
                // the application: recv until everything announced has been seen, or nothing arrives for a while
                let total = ready as usize * kmsgs;
                let mut got = 0usize;
                let hard = tokio::time::Instant::now() + Duration::from_secs(60);
                let mut pending_at_end = false;
                if big {
                    tokio::time::sleep(Duration::from_millis(400)).await;
                }
                FLOOD_ACTIVE.store(true, std::sync::atomic::Ordering::SeqCst);
                while got < total && tokio::time::Instant::now() < hard {
                    FLOOD_PROGRESS.fetch_add(1, std::sync::atomic::Ordering::SeqCst);
                    log.lock().unwrap().push(json!({"ev":"recv_call"}));
                    let f = sock.as_mut().unwrap().recv().unwrap();
                    match tokio::time::timeout(Duration::from_secs(5), f).await {
                        Ok(Ok(m)) => {
                            got += 1;
                            log.lock().unwrap().push(json!({"ev":"recv_ret","res":"ok","m":rc::mdesc(&from_msg(&m))}));
                        }
                        Ok(Err(e)) => log.lock().unwrap().push(json!({"ev":"recv_ret","res":"err","err":errkind(&e).0})),
                        Err(_) => {
                            // writers done and nothing for 5 s: quiescent with a recv pending
                            if handles.iter().all(|h| h.is_finished()) {
                                pending_at_end = true;
                                break;
                            }
                        }
                    }
                }
                FLOOD_ACTIVE.store(false, std::sync::atomic::Ordering::SeqCst);
                let mut k2 = 100;
                for h in handles {
                    if let Ok(cl) = h.await {
                        k2 += 1;
                        clients.insert(k2, cl);
                    }
                }
                let mut l = log.lock().unwrap();
                out.append(&mut l);
                out.push(json!({"ev":"quiescent","pending": if pending_at_end || got < total { "recv" } else { "none" },"woken_since_poll":false,"mt":true,"got":got,"total":total}));
            }
            "mt_twins" => {
                // Registry.tla on the real runtime: groups of two raw connections that announce ONE identity finish their
                // handshakes at the same instant (READY written from two tasks behind a barrier) while the application receives;
                // afterwards every connection the socket has not closed must be one it reads from
                if sock.is_none() {
                    continue;
                }
                let text = names.get(&nm).cloned().unwrap_or_default();
                let rounds = op.get("rounds").and_then(|v| v.as_u64()).unwrap_or(10);
                let groups = op.get("groups").and_then(|v| v.as_u64()).unwrap_or(8);
                for r in 0..rounds {
                    let mut cls: Vec<(String, Client)> = vec![];
                    for g in 0..groups {
                        for side in ["a", "b"] {
                            let Ok(Ok(raw)) = tokio::time::timeout(SETTLE, raw_connect(&text)).await else { continue };
                            let mut cl = Client { raw, inbuf: vec![], handshaken: false };
                            if cl.raw.write_all(&rc::greeting()).await.is_err() || !fill(&mut cl, 64, SETTLE).await {
                                continue;
                            }
                            cls.push((format!("tw{}g{}{}", r, g, side), cl));
                        }
                    }
                    let barrier = std::sync::Arc::new(tokio::sync::Barrier::new(cls.len()));
                    let mut hs = vec![];
                    for (tag, mut cl) in cls {
                        let b = barrier.clone();
                        let st = stype.clone();
                        hs.push(tokio::spawn(async move {
                            let ident = tag[..tag.len() - 1].as_bytes().to_vec();
                            let ready = rc::ready(peer_type_for(&st), Some(&ident));
                            b.wait().await;
                            let ok = cl.raw.write_all(&ready).await.is_ok();
                            let frames = app_msg(&st, tag.as_bytes());
                            let wrote = ok && cl.raw.write_all(&rc::enc_msg(&frames)).await.is_ok();
                            (tag, cl, wrote)
                        }));
                    }
                    // the application receives while the handshakes race
                    let mut got: std::collections::BTreeSet<String> = Default::default();
                    let until = tokio::time::Instant::now() + Duration::from_millis(400);
                    while tokio::time::Instant::now() < until {
                        let f = sock.as_mut().unwrap().recv().unwrap();
                        if let Ok(Ok(m)) = tokio::time::timeout(Duration::from_millis(40), f).await {
                            for fr in from_msg(&m) {
                                let t = String::from_utf8_lossy(&fr).to_string();
                                if let Some(i) = t.find("tw") {
                                    got.insert(t[i..].to_string());
                                }
                            }
                        }
                    }
                    let mut done = vec![];
                    for h in hs {
                        if let Ok(x) = h.await {
                            done.push(x);
                        }
                    }
                    // the race is over: every connection that is still open writes once more, and it is THIS message that
                    // must arrive (the first one may have been read before a registration step let go of the read half)
                    let mut state: Vec<(String, bool, bool)> = vec![];
                    for (tag, cl, wrote) in done.iter_mut() {
                        let eof = client_eof(cl, Duration::from_millis(30)).await;
                        let tag2 = format!("{}2", tag);
                        let frames = app_msg(&stype, tag2.as_bytes());
                        let w2 = !eof && *wrote && cl.raw.write_all(&rc::enc_msg(&frames)).await.is_ok();
                        state.push((tag2, w2, eof));
                    }
                    // a connection that is open and not yet read from gets more time before it counts (a loaded machine)
                    let patience = tokio::time::Instant::now() + Duration::from_secs(3);
                    while state.iter().any(|(t, w, e)| *w && !*e && !got.contains(t)) && tokio::time::Instant::now() < patience {
                        let f = sock.as_mut().unwrap().recv().unwrap();
                        if let Ok(Ok(m)) = tokio::time::timeout(Duration::from_millis(100), f).await {
                            for fr in from_msg(&m) {
                                let t = String::from_utf8_lossy(&fr).to_string();
                                if let Some(i) = t.find("tw") {
                                    got.insert(t[i..].to_string());
                                }
                            }
                        }
                        for (i, (_, cl, _)) in done.iter_mut().enumerate() {
                            if !state[i].2 {
                                state[i].2 = client_eof(cl, Duration::from_millis(1)).await;
                            }
                        }
                    }
                    for (tag, wrote, eof) in state {
                        let delivered = got.contains(&tag);
                        out.push(json!({"ev":"twin","round":r,"tag":tag,"wrote":wrote,"closed_by_socket":eof,"delivered":delivered}));
                    }
                    // (the clients are dropped here: the socket sees their end during the next round's receive loop)
                }
            }
            "mt_rejoin" => {
                // Registry.tla on the real runtime: a peer of a round-robin sender comes back under its identity (READY on the
                // new connection) at about the moment the socket notices the end of the old one; afterwards the peer is
                // connected, so a send must reach it
                if sock.is_none() {
                    continue;
                }
                let text = names.get(&nm).cloned().unwrap_or_default();
                let rounds = op.get("rounds").and_then(|v| v.as_u64()).unwrap_or(100);
                let seed = op.get("seed").and_then(|v| v.as_u64()).unwrap_or(1);
                let mut rng = crate::codec::Lcg(seed.wrapping_mul(7919).wrapping_add(17));
                let ident = b"rejoiner".to_vec();
                let mut old: Option<Client> = None;
                for r in 0..rounds {
                    let Ok(Ok(raw)) = tokio::time::timeout(SETTLE, raw_connect(&text)).await else { continue };
                    let mut cl = Client { raw, inbuf: vec![], handshaken: false };
                    if cl.raw.write_all(&rc::greeting()).await.is_err() || !fill(&mut cl, 64, SETTLE).await {
                        continue;
                    }
                    let ready = rc::ready(peer_type_for(&stype), Some(&ident));
                    let offset = rng.below(200);
                    let closer = old.take().map(|o| {
                        tokio::spawn(async move {
                            drop(o);
                        })
                    });
                    let writer = tokio::spawn(async move {
                        tokio::time::sleep(Duration::from_micros(offset)).await;
                        let ok = cl.raw.write_all(&ready).await.is_ok();
                        (cl, ok)
                    });
                    // the application is in recv (that is where a DEALER notices the end of the old connection)
                    let until = tokio::time::Instant::now() + Duration::from_millis(8);
                    while tokio::time::Instant::now() < until && stype != "PUSH" {
                        let f = sock.as_mut().unwrap().recv().unwrap();
                        let _ = tokio::time::timeout(Duration::from_millis(2), f).await;
                    }
                    if let Some(c) = closer {
                        let _ = c.await;
                    }
                    let Ok((mut cl, ok)) = writer.await else { continue };
                    if !ok || !fill(&mut cl, 66, SETTLE).await {
                        out.push(json!({"ev":"rejoin","round":r,"handshaken":false,"served":false,"err":""}));
                        old = Some(cl);
                        continue;
                    }
                    // the peer is connected: a send must reach it (registration may lag the handshake by an instant)
                    let tag = format!("rj{}", r).into_bytes();
                    let mut served = false;
                    let mut last_err = String::new();
                    // (patient: on a loaded machine the registration may lag the handshake; the defect is permanent)
                    for _ in 0..600 {
                        let f = sock.as_mut().unwrap().send(to_msg(&[tag.clone()])).unwrap();
                        match tokio::time::timeout(Duration::from_millis(500), f).await {
                            Ok(Ok(())) => {
                                if client_gets(&mut cl, &tag, Duration::from_millis(300)).await {
                                    served = true;
                                    break;
                                }
                                last_err = "sent-elsewhere".into();
                            }
                            Ok(Err(e)) => last_err = errkind(&e).0,
                            Err(_) => last_err = "send-timeout".into(),
                        }
                        tokio::time::sleep(Duration::from_millis(5)).await;
                    }
                    out.push(json!({"ev":"rejoin","round":r,"handshaken":true,"served":served,"err":last_err,"offset_us":offset}));
                    old = Some(cl);
                    if !served {
                        break;
                    }
                }
            }
            "serve" => {
                // harness-side listener the socket will connect out to
                let l = TcpListener::bind("127.0.0.1:0").await.expect("bind");
                let addr = l.local_addr().unwrap();
                names.insert(nm.clone(), format!("tcp://{}", addr));
                servers.insert(nm.clone(), (l, vec![]));
            }
            "connect_out" => {
                if sock.is_none() {
                    continue;
                }
                let text = names.get(&nm).cloned().unwrap_or_default();
                let Some((l, _)) = servers.get_mut(&nm) else { continue };
                // serve the handshake of the accepted connection concurrently with connect()
                let st = stype.clone();
                let accept = async {
                    match tokio::time::timeout(SETTLE, l.accept()).await {
                        Ok(Ok((s, _))) => {
                            let mut c = Client { raw: Raw::Tcp(s), inbuf: vec![], handshaken: false };
                            let r = handshake(&mut c, &st, None, "").await;
                            Some((c, r))
                        }
                        _ => None,
                    }
                };
                let conn = async { with_sock!(s, tokio::time::timeout(SETTLE, s.connect(&text)).await) };
                let (a, c) = tokio::join!(accept, conn);
                let cres = match c {
                    Ok(Ok(())) => "ok".to_string(),
                    Ok(Err(e)) => format!("err:{}", errkind(&e).0),
                    Err(_) => "timeout".into(),
                };
                if let Some((mut cl, hres)) = a {
                    if stype == "PUB" || stype == "XPUB" {
                        let _ = cl.raw.write_all(&rc::enc_msg(&[vec![1u8]])).await;
                    }
                    clients.insert(k, cl);
                    out.push(json!({"ev":"connect_out","k":k,"res":cres,"peer":hres}));
                } else {
                    out.push(json!({"ev":"connect_out","k":k,"res":cres,"peer":"none"}));
                }
            }
            "exchange" => {
                // one application message between the socket and established client k
                if sock.is_none() {
                    continue;
                }
                nmsg += 1;
                let tag = format!("x{}-{}", k, nmsg).into_bytes();
                let recv_dir = matches!(stype.as_str(), "PULL" | "SUB" | "ROUTER" | "REP" | "DEALER" | "XPUB");
                let mut ok = false;
                if recv_dir {
                    if let Some(c) = clients.get_mut(&k) {
                        let _ = c.raw.write_all(&rc::enc_msg(&app_msg(&stype, &tag))).await;
                    }
                    let deadline = tokio::time::Instant::now() + SETTLE;
                    while tokio::time::Instant::now() < deadline {
                        let r = match sock.as_mut().unwrap().recv() {
                            Some(f) => tokio::time::timeout_at(deadline, f).await,
                            None => break,
                        };
                        match r {
                            Ok(Ok(m)) => {
                                if from_msg(&m).iter().any(|f| f.windows(tag.len()).any(|w| w == &tag[..])) {
                                    ok = true;
                                    break;
                                }
                            }
                            Ok(Err(_)) => continue,
                            Err(_) => break,
                        }
                    }
                } else {
                    // send direction: publish / push until client k has it (rotation may hit other peers first)
                    let deadline = tokio::time::Instant::now() + SETTLE;
                    let mut sent = 0;
                    while tokio::time::Instant::now() < deadline && !ok && sent < 200 {
                        sent += 1;
                        let m = to_msg(&[tag.clone()]);
                        let r = match sock.as_mut().unwrap().send(m) {
                            Some(f) => tokio::time::timeout(Duration::from_secs(2), f).await,
                            None => break,
                        };
                        if stype == "REQ" {
                            // whoever got the request answers so that the socket may send again; the rotation may first hit
                            // connections that have gone (earlier probes): then recv fails and the request is retried
                            if matches!(r, Ok(Ok(()))) {
                                let mut answered = false;
                                for (_, c) in clients.iter_mut() {
                                    if client_gets(c, &tag, Duration::from_millis(30)).await {
                                        c.inbuf.clear();
                                        let _ = c.raw.write_all(&rc::enc_msg(&[vec![], b"r".to_vec()])).await;
                                        answered = true;
                                        break;
                                    }
                                }
                                let f = sock.as_mut().unwrap().recv().unwrap();
                                let got = tokio::time::timeout(Duration::from_millis(if answered { 5000 } else { 300 }), f).await;
                                if answered && matches!(got, Ok(Ok(_))) {
                                    ok = true; // delivered to an established peer, answered, reply received
                                }
                            }
                            continue;
                        }
                        if let Some(c) = clients.get_mut(&k) {
                            ok = client_gets(c, &tag, Duration::from_millis(100)).await;
                        }
                    }
                }
                out.push(json!({"ev":"exchange","k":k,"res": if ok { "ok" } else { "failed" }}));
            }
            "close" => {
                if let Some(s) = sock.take() {
                    let r = tokio::time::timeout(Duration::from_secs(30), async move {
                        match s {
                            AnySock::Req(x) => x.close().await,
                            AnySock::Rep(x) => x.close().await,
                            AnySock::Dealer(x) => x.close().await,
                            AnySock::Router(x) => x.close().await,
                            AnySock::Push(x) => x.close().await,
                            AnySock::Pull(x) => x.close().await,
                            AnySock::Pub(x) => x.close().await,
                            AnySock::Sub(x) => x.close().await,
                            AnySock::XPub(x) => x.close().await,
                        }
                    })
                    .await;
                    match r {
                        Ok(errs) => out.push(json!({"ev":"close","res":"returned","errors":errs.len()})),
                        Err(_) => out.push(json!({"ev":"close","res":"timeout"})),
                    }
                }
            }
            "close_abandoned" => {
                // the application calls close() and gives up on it after the first poll (a timeout, a select! branch): the
                // socket is gone with the future, which is a drop - listeners, files, peers and tasks must go shortly afterwards
                if let Some(s) = sock.take() {
                    let fut = async move {
                        match s {
                            AnySock::Req(x) => x.close().await.len(),
                            AnySock::Rep(x) => x.close().await.len(),
                            AnySock::Dealer(x) => x.close().await.len(),
                            AnySock::Router(x) => x.close().await.len(),
                            AnySock::Push(x) => x.close().await.len(),
                            AnySock::Pull(x) => x.close().await.len(),
                            AnySock::Pub(x) => x.close().await.len(),
                            AnySock::Sub(x) => x.close().await.len(),
                            AnySock::XPub(x) => x.close().await.len(),
                        }
                    };
                    let mut fut = Box::pin(fut);
                    let polled = futures::poll!(fut.as_mut());
                    drop(fut);
                    out.push(json!({"ev":"drop","abandoned_close":true,"finished_at_first_poll":polled.is_ready()}));
                }
            }
            "drop" => {
                sock = None;
                out.push(json!({"ev":"drop"}));
            }
            "check_eof" => {
                let r = match clients.get_mut(&k) {
                    Some(c) => client_eof(c, SETTLE).await,
                    None => true,
                };
                out.push(json!({"ev":"check_eof","k":k,"eof":r}));
            }
            "drop_client" => {
                clients.remove(&k);
            }
            "tasks" => {
                // background tasks of the (closed / dropped) socket must be gone: poll up to the settle bound
                let deadline = tokio::time::Instant::now() + SETTLE;
                let mut t = alive_tasks();
                while t > base_tasks && tokio::time::Instant::now() < deadline {
                    tokio::time::sleep(STEP).await;
                    t = alive_tasks();
                }
                out.push(json!({"ev":"tasks","alive":t,"base":base_tasks,"extra": t.saturating_sub(base_tasks)}));
            }
            "fds" => {
                let deadline = tokio::time::Instant::now() + SETTLE;
                let mut n = fd_count();
                let allowed = base_fds + clients.len() + servers.len();
                while n > allowed && tokio::time::Instant::now() < deadline {
                    tokio::time::sleep(STEP).await;
                    n = fd_count();
                }
                out.push(json!({"ev":"fds","open":n,"base":base_fds,"held_by_harness":clients.len() + servers.len(),"extra": n.saturating_sub(allowed)}));
            }
            "install_monitor" => {
                // the application asks for the monitor stream now (again): the events of everything that happens from
                // now on, on every endpoint bound before or after, must arrive on THIS stream
                monitor = new_monitor!();
                out.push(json!({"ev":"install_monitor"}));
            }
            "monitor" => {
                let mut kinds: Vec<String> = vec![];
                if let Some(m) = monitor.as_mut() {
                    // give pending handshakes a moment to report
                    // wait (up to the settle bound) until the expected number of AcceptFailed events has arrived
                    let expect_failed = op.get("expect_failed").and_then(|v| v.as_u64()).unwrap_or(0) as usize;
                    let hard = tokio::time::Instant::now() + SETTLE;
                    let soft = tokio::time::Instant::now() + Duration::from_millis(op.get("wait_ms").and_then(|v| v.as_u64()).unwrap_or(300));
                    loop {
                        let have = kinds.iter().filter(|k| *k == "AcceptFailed").count();
                        let deadline = if have < expect_failed { hard } else { soft };
                        match tokio::time::timeout_at(deadline, m.next()).await {
                            Ok(Some(e)) => kinds.push(match e {
                                SocketEvent::Connected(..) => "Connected",
                                SocketEvent::ConnectDelayed => "ConnectDelayed",
                                SocketEvent::ConnectRetried => "ConnectRetried",
                                SocketEvent::Listening(..) => "Listening",
                                SocketEvent::Accepted(..) => "Accepted",
                                SocketEvent::AcceptFailed(..) => "AcceptFailed",
                                SocketEvent::Closed => "Closed",
                                SocketEvent::CloseFailed => "CloseFailed",
                                SocketEvent::Disconnected(..) => "Disconnected",
                            }.to_string()),
                            _ => break,
                        }
                    }
                }
                let failed = kinds.iter().filter(|k| *k == "AcceptFailed").count();
                let accepted = kinds.iter().filter(|k| *k == "Accepted").count();
                out.push(json!({"ev":"monitor","accept_failed":failed,"accepted":accepted,"n":kinds.len()}));
            }
            "sleep" => {
                tokio::time::sleep(Duration::from_millis(op.get("ms").and_then(|v| v.as_u64()).unwrap_or(50))).await;
            }
            _ => out.push(json!({"ev":"harness_error","what":format!("unknown net op {}", name)})),
        }
    }
    drop(monitor);
    drop(sock);
    clients.clear();
    servers.clear();
    // leave nothing behind for the next scenario
    let deadline = tokio::time::Instant::now() + Duration::from_secs(3);
    while alive_tasks() > base_tasks && tokio::time::Instant::now() < deadline {
        tokio::time::sleep(STEP).await;
    }
    out.push(json!({"ev":"end","tasks_left":alive_tasks().saturating_sub(base_tasks)}));
    out
}
