"""C03 - bytes from a peer can never crash the process or force unbounded allocation."""
import json, os, random, struct
import vlib, dlvlib, scripts as S

READY_REQ = bytes([5]) + b"READY" + bytes([11]) + b"Socket-Type" + struct.pack(">I", 3) + b"REQ"

def cmd(body, long=False):
    return (bytes([6]) + struct.pack(">Q", len(body)) if long else bytes([4, len(body) & 0xff])) + body

def structured_tails():
    """hostile byte strings that follow a valid greeting (and possibly a valid READY)"""
    t = []
    t += [bytes([4, 0]), bytes([4, 1, 5]), bytes([4, 3, 5, 0x52, 0x45]), bytes([4, 1, 0]), bytes([4, 2, 1, 0x58]), cmd(b"\x05HELLO"), cmd(b"\x05READY\x01")]
    t += [cmd(b"\x05READY\x05ab"), cmd(b"\x05READY\x01a\x00\x00\x00\x09v"), cmd(b"\x05READY\x01a\xff\xff\xff\xffv"), cmd(b"\x05READY\x01a\x00\x00"), cmd(b"\x05READY\xffa")]
    for big in (b"\x10\x00\x00\x00", b"\x7f\xff\xff\xff", b"\x80\x00\x00\x00", b"\x01\x00\x00\x00", b"\x00\x40\x00\x00"):
        t.append(cmd(b"\x05READY\x01a" + big + b"v"))                       # declared property value of 256 MiB / 2 GiB / 16 MiB / 4 MiB, one byte present
        t.append(cmd(b"\x05READY\x0bSocket-Type\x00\x00\x00\x03REQ\x08Identity" + big))
    t += [cmd(b"\x05READY\x01\xff\x00\x00\x00\x01v"), cmd(b"\xffREADY"), cmd(b"\x00"), cmd(b"\x05READY" + b"\x01a\x00\x00\x00\x01v" * 30, long=True)]
    for k in range(1, len(READY_REQ)):            # every truncation of a valid READY, frame size consistent with the truncation
        t.append(cmd(READY_REQ[:k]))
    for k in range(1, len(READY_REQ), 3):         # frame declares the full size but the stream ends early
        t.append(bytes([4, len(READY_REQ)]) + READY_REQ[:k])
    t += [bytes([7, 0, 0, 0, 0, 0, 0, 0, 0]), bytes([5, 0]), bytes([0xff, 0xff]), bytes([0x80, 1, 1]), bytes([1, 0]) * 50 + bytes([4, 0])]
    t += [bytes([1, 1, 65]) * 10 + cmd(READY_REQ) + bytes([0, 1, 66])]
    return t

def big_vectors(thorough):
    v = []
    for size in ("0000000000000000", "00000000000000ff", "0000000000000100", "0000000080000000", "0000000100000000", "0000010000000000",
                 "7fffffffffffffff", "8000000000000000", "ffffffffffffffff", "fffffffffffffff0", "0000000000100000"):
        for flag in (2, 3, 6):
            v.append({"big": "long_size", "size": size, "flag": flag, "body": 100})
    for k in ([1000, 4096, 50000, 200000] if thorough else [1000, 4096, 50000]):
        v.append({"big": "more_frames", "k": k, "finish": False})
        v.append({"big": "more_frames", "k": k, "finish": True})
        v.append({"big": "more_frames", "k": k, "flag": 5})        # command + more
    v.append({"big": "many_messages", "k": 100000 if thorough else 20000})
    return v

def raw_streams(rng):
    """whole streams incl. the handshake stage (valid / broken greeting, nothing, garbage)"""
    g = bytes([0xff] + [0] * 8 + [0x7f, 3, 0]) + b"NULL" + bytes(16) + bytes([0]) + bytes(31)
    out = [b"", b"\xff", g[:10], g[:63], bytes([0xfe]) + g[1:], g[:9] + b"\x00" + g[10:], g[:10] + bytes([2, 1]) + g[12:], g[:12] + b"XXXX" + g[16:],
           g[:12] + bytes(20) + g[32:], bytes(64), bytes([0xff]) * 64, g + g, g[:32] + bytes([1]) + g[33:], g[:10] + bytes([255, 255]) + g[12:]]
    out += [gv + cmd(READY_REQ) for gv in greeting_variants()]
    for _ in range(30):
        out.append(bytes(rng.randrange(256) for _ in range(rng.choice([1, 10, 64, 65, 100]))))
    for t in structured_tails()[:12]:
        out.append(g + cmd(READY_REQ) + t)
    return out

def greeting_variants():
    """well-formed 64-octet greetings whose 20-octet mechanism field is unusual: full-length names without any padding, names that
    extend or truncate a known one, high bytes, padding that is not NUL; and other fields at their extremes"""
    g = bytes([0xff] + [0] * 8 + [0x7f, 3, 0]) + b"NULL" + bytes(16) + bytes([0]) + bytes(31)
    mechs = [b"X-CUSTOM-MECH.V1+ABC", b"A" * 20, b"ABCDEFGHIJKLMNOPQRS", bytes([0xff]) * 20, b"NULL" + bytes([0xff]) * 16, b"NULLX", b"PLAINTEXT", b"N", bytes([0x80]) + b"ULL",
             b"NULL" + bytes(15) + b"X", b"CURVE" + b"." * 15, b"0123456789._+-ABCDEF"]
    out = [g[:12] + (m + bytes(20))[:20] + g[32:] for m in mechs]
    out += [g[:32] + bytes([0xff]) + g[33:], g[:33] + bytes([0xff]) * 31, g[:1] + bytes([0xff]) * 8 + g[9:], g[:10] + bytes([3, 255]) + g[12:], g[:10] + bytes([255, 0]) + g[12:]]
    return out

def command_floods():
    """thousands of consecutive command frames (a peer may send commands at any time): none is an application message"""
    ready = cmd(READY_REQ)
    return [ready * 3000, cmd(b"\x04PING\x00\x00") * 4000, (cmd(b"\x09SUBSCRIBE") + ready) * 1500, cmd(b"\x05ERROR\x00") * 3000]

def socket_scripts(rng, thorough):
    tails = structured_tails()
    pick = tails if thorough else tails[:16] + rng.sample(tails[16:], 8)
    bigs = [bytes([2]) + bytes.fromhex("fffffffffffffff0") + b"x" * 10, bytes([2]) + bytes.fromhex("0000010000000000") + b"x" * 10, bytes([1, 1, 65]) * 6000]
    out, scen = [], 0
    hello = bytes([0xff] + [0] * 8 + [0x7f, 3, 0]) + b"NULL" + bytes(16) + bytes([0]) + bytes(31)
    gvs = greeting_variants()
    floods = command_floods()
    for t in S.PEER_OF:
        ptype = S.PEER_OF[t][0]
        ready_ok = cmd(bytes([5]) + b"READY" + bytes([11]) + b"Socket-Type" + struct.pack(">I", len(ptype)) + ptype.encode())
        for tail, stages in [(x, ("instead_of_ready", "after_ready")) for x in pick + bigs] + [(x, ("after_ready",)) for x in floods] + [(x, ("greeting",)) for x in (gvs if thorough else gvs[:4] + rng.sample(gvs[4:], 4))]:
            for stage in stages:
                scen += 1
                segs = [(hello + tail).hex()] if stage == "instead_of_ready" else [(hello + ready_ok).hex(), tail.hex()] if stage == "after_ready" else [(tail + ready_ok).hex()]
                ops = [{"op": "attach", "c": 1, "ptype": ptype}]
                msg = dlvlib.msg_for(t, 1, 1)
                if t in ("PUB", "XPUB"):
                    ops.append({"op": "psend", "c": 1, "m": [b"\x01".hex()]})
                    if t == "XPUB":
                        ops.append({"op": "recv"})
                ops.append({"op": "attach_raw", "c": 2, "segs": segs, "close": rng.random() < 0.5})
                if t in S.RECV_TYPES:
                    ops += [{"op": "psend", "c": 1, "m": msg}, {"op": "recv"}, {"op": "recv"}, {"op": "recv"}, {"op": "quiescent"}, {"op": "recv_drop"}]
                elif t == "REQ":
                    # requests go to the peers in turn; whoever got one answers after whatever it has already sent
                    for i in range(3):
                        ops += [{"op": "send", "m": [("q%d" % i).encode().hex()]}, {"op": "preply", "m": ["", ("r%d" % i).encode().hex()]}, {"op": "recv"}, {"op": "quiescent"}, {"op": "recv_drop"}]
                else:
                    m = [b"hello".hex()]
                    ops += [{"op": "send", "m": m}, {"op": "send", "m": m}, {"op": "settle"}, {"op": "expect_wire", "c": 1, "m": m}]
                out.append({"scen": scen, "sock": t, "ops": ops, "tag": stage})
    return out

def proxy_scripts():
    """a proxy(ROUTER, DEALER) relays what workers and clients send: message shapes a well-behaved peer would never send must not
    crash the task that runs it (that the proxy may stop with an error is a different matter, see DESIGN.md)"""
    out, scen = [], 800000
    hx = S.hx
    shapes = [[b"x"], [b""], [b"cli1"], [b"nobody", b"", b"x"], [b"cli1", b"x"], [b"", b""], [b"x" * 300], [b"cli1", b"", b""], [b"c" * 255], [b"c" * 256, b"", b"x"]]
    for side, c in (("back", 3), ("front", 1)):
        for m in shapes:
            scen += 1
            ops = [{"op": "attach", "c": 1, "side": "front", "ptype": "REQ", "ident": hx("cli1")},
                   {"op": "attach", "c": 2, "side": "front", "ptype": "DEALER", "ident": hx("cli2")},
                   {"op": "attach", "c": 3, "side": "back", "ptype": "REP"},
                   {"op": "attach", "c": 4, "side": "back", "ptype": "DEALER"},
                   {"op": "psend", "c": c, "m": [hx(f) for f in m]}, {"op": "drive"}, {"op": "drive"},
                   {"op": "psend", "c": 2, "m": [hx(""), hx("still-served")]}, {"op": "drive"}, {"op": "quiescent", "final": True}]
            out.append({"scen": scen, "sock": "PROXY", "capture": "none", "ops": ops, "tag": "proxy-hostile/%s" % side, "nojitter": True})
    return out

def run_zv_c03(chk, vectors, label):
    """runs the bare-decoder driver in a child process; a dying child is a violation whose replay is the vector it had started"""
    inp = os.path.join(chk.wd, label + ".in"); out = os.path.join(chk.wd, label + ".out"); prog = os.path.join(chk.wd, label + ".progress")
    events, start = [], 0
    while start < len(vectors):
        vlib.write_ndjson(inp, vectors[start:])
        if os.path.exists(prog):
            os.remove(prog)
        rc, o, dt = vlib.sh([vlib.ZV, "c03", "--in", inp, "--out", out, "--progress", prog], timeout=3000)
        done = vlib.read_ndjson(out) if os.path.exists(out) else []
        events += done
        if rc == 0:
            break
        k = int(open(prog).read().strip()) if os.path.exists(prog) else 0
        k = max(k, len(done))
        bad = vectors[start + k]
        chk.violation("C03/abort", {"what": "child process died (rc=%d) while decoding this input" % rc, "vector": json.dumps(bad)[:300], "stderr": o[-300:]}, {"kind": "vector", "vector": bad})
        start += k + 1
    return events

def run(chk, replay=None):
    chk.rule = ("cases = byte strings fed to the real reader stack after a valid greeting: EVERY string over the 11-symbol alphabet {00..07,7f,ff,'R'} up to length N "
                "enumerated by TLC (MC_Hostile) with the reference outcome recomputed by TLC from the logged bytes (TraceHostile), plus structured hostile inputs "
                "(truncated/oversized READY, lengths beyond the frame, 64-bit sizes incl. sign bit, thousands of MORE frames in one read), whole-stream inputs at every "
                "handshake stage, and the same inputs sent to each of the 9 socket types next to a healthy connection; distinct = distinct inputs; non-trivial = non-empty")
    chk.assumptions = ["allocation bound: peak live-heap growth <= 1 MiB + 64 x bytes fed (a one-byte frame legitimately costs a few dozen bytes of bookkeeping), measured by a counting global allocator in a child process on a 2 MiB-stack thread",
                       "TLC and CommunityModules are correct"]
    thorough = chk.tier == "thorough"
    rng = random.Random(chk.seed)
    if replay:
        rp = json.load(open(replay))["replay"]
        if rp.get("kind") == "engine":
            v = dlvlib.run_scripts(chk, [rp["script"]], "replay")
            dlvlib.report(chk, v, [rp["script"]], ("C03/",), "replay")
            return
        vectors = [rp["vector"]]
    else:
        n = 5 if thorough else 4
        cfg = os.path.join(vlib.SPEC, "MC_Hostile_run.cfg")
        open(cfg, "w").write("SPECIFICATION Spec\nCONSTANTS\n Alphabet = {0, 1, 2, 3, 4, 5, 6, 7, 127, 255, 82}\n N = %d\nINVARIANTS Agree Emit\nCHECK_DEADLOCK FALSE\n" % n)
        try:
            r = vlib.tlc("MC_Hostile", "MC_Hostile_run.cfg", chk.wd, timeout=2400, coverage=False, heap="8g")
        finally:
            os.remove(cfg)
        chk.model_must_hold(r, "MC_Hostile: reference decoder total on every string of length <= %d over the reduced alphabet" % n)
        vectors = [{"b": v["b"]} for v in vlib.tlc_printed(r["out"], "VEC")]
        chk.exhaustive = True
        vectors += [{"b": list(t)} for t in structured_tails()]
        vectors += [{"b": list(t), "cuts": [64 + 1, 64 + 2]} for t in structured_tails()]
        vectors += [{"raw": list(t)} for t in raw_streams(rng)]
        vectors += big_vectors(thorough)
    events = run_zv_c03(chk, vectors, "c03")
    out = os.path.join(chk.wd, "c03.trace")
    slim = []
    for e in events:
        e = dict(e); e.pop("what", None); e.pop("id", None)
        slim.append(e)
    vlib.write_ndjson(out, slim)
    viols, consumed, total, info = vlib.tlc_trace("TraceHostile", "TraceHostile.cfg", out, chk.wd, timeout=2400, heap="8g")
    chk.states += info["distinct"]; chk.transitions += info["generated"]; chk.traces += len(events)
    classes = {}
    for e in events:
        c = "panic" if e.get("panic") else ("messages" if e.get("msgs") or e.get("nmsgs") else ("error" if e.get("errs") else "need-more/ignored"))
        classes[c] = classes.get(c, 0) + 1
        chk.case(json.dumps(e.get("b", e.get("what")))[:400], nontrivial=bool(e.get("fed", 0) > 64))
    chk.notes["reaction_classes"] = classes
    chk.sample({"kind": "hostile input (bytes after the greeting)", "b": events[len(events) // 3].get("b"), "msgs": events[len(events) // 3].get("msgs"), "peak_heap_growth": events[len(events) // 3].get("peak")})
    for scen, code, line in viols:
        e = events[line - 1] if 0 < line <= len(events) else {}
        vec = {"big": e["what"]["big"], **e["what"]} if e.get("what") else ({"raw": e.get("b")} if e.get("raw") else {"b": e.get("b")})
        chk.violation(code, {"input": json.dumps(e.get("b", e.get("what")))[:200], "peak": e.get("peak"), "fed": e.get("fed"), "panic": e.get("panic")}, {"kind": "vector", "vector": vec})
    if replay:
        return
    # the same inputs against every socket type next to a healthy connection
    scripts = socket_scripts(rng, thorough)
    for s in scripts:
        chk.case(("sock", s["sock"], s["tag"], json.dumps(s["ops"][-7:])[:300]))
    chk.sample({"kind": "socket scenario", "sock": scripts[0]["sock"], "stage": scripts[0]["tag"], "ops": [o["op"] for o in scripts[0]["ops"]]})
    B = 400
    for i in range(0, len(scripts), B):
        batch = scripts[i:i + B]
        try:
            v = dlvlib.run_scripts(chk, batch, "c03-sock-%d" % (i // B))
        except vlib.ToolError as ex:
            if "zv run failed" in str(ex):
                # find the culprit by bisection (the engine process died: stack overflow / abort)
                lo = batch
                while len(lo) > 1:
                    half = lo[:len(lo) // 2]
                    try:
                        dlvlib.run_scripts(chk, half, "c03-bisect")
                        lo = lo[len(lo) // 2:]
                    except vlib.ToolError:
                        lo = half
                chk.violation("C03/abort", {"what": "process died while a socket handled peer bytes", "sock": lo[0]["sock"], "stage": lo[0]["tag"]}, {"kind": "engine", "script": lo[0]})
                continue
            raise
        relabelled = []
        for scen, code, line in v:
            if code in ("C05/message-never-delivered", "C06/parked-with-message-available", "C05/reordered-or-skipped"):
                code = "C03/other-connection-disturbed"      # the healthy connection stopped delivering
            relabelled.append((scen, code, line))
        dlvlib.report(chk, relabelled, batch, ("C03/",), "socket")
    # peers of a proxy
    ps = proxy_scripts()
    for s_ in ps: chk.case(("proxy", s_["tag"], s_["scen"]))
    v = dlvlib.run_scripts(chk, ps, "c03-proxy", monitor="TraceProxy")
    dlvlib.report(chk, v, ps, ("C03/",), "proxy", monitor="TraceProxy")
