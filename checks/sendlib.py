"""Sending-side conformance shared by C09 (ROUTER) and C10 (round-robin senders): TLC-enumerated histories (GenSeq)
and seeded random schedules with partial writes and back-pressure; traces judged by TraceSend."""
import json, os, random
import vlib, dlvlib, rrlib, scripts as S

hx = rrlib.hx

RR_OPS = ["send", "sendbig", "join", "break"]
RR_OPS_ID = ["send", "join", "rejoin", "cancel", "break"]     # histories with identity reuse and abandoned sends
ROUTER_OPS = ["joinA", "joinI", "joinE", "peer_says", "recv", "to_first", "to_last", "to_unknown", "depart_first", "rejoin_first", "rejoin_live"]


def rr_script(seq, stype, scen, idents=False):
    ops, n, nsend = [], 0, 0
    ptype = S.PEER_OF[stype][0]
    live = []
    name = {}
    for o in seq:
        if o == "join":
            if n < 5:
                n += 1; name[n] = "peer-%d" % n
                ops.append(dict({"op": "attach", "c": n, "ptype": ptype}, **({"ident": hx(name[n])} if idents else {}))); live.append(n)
                if n % 2 == 0:
                    ops.append({"op": "maxw", "c": n, "k": 257})     # this peer's transport accepts 257 bytes per write
        elif o == "rejoin":
            # a new connection announces the identity of the oldest live peer, whose old connection stays open (half-open): it supersedes it
            if live and n < 6:
                old = live.pop(0); n += 1; name[n] = name[old]
                ops.append({"op": "attach", "c": n, "ptype": ptype, "ident": hx(name[n])}); live.append(n)
        elif o == "cancel":
            # the application gives up on a send that waits on back-pressure (whichever peer's turn it is), before a byte was written
            if live and stype != "REQ":
                nsend += 1
                ops += [{"op": "credit", "c": c, "k": 0} for c in live]
                ops += [{"op": "send", "m": [hx("abandoned%d" % nsend)]}, {"op": "call_poll"}, {"op": "call_drop"}]
                ops += [{"op": "credit", "c": c} for c in live]
        elif o == "break":
            if live:
                c = live.pop(0)
                ops += [{"op": "pclose", "c": c}, {"op": "wbreak", "c": c}]
        else:
            nsend += 1
            body = [hx("m%d" % nsend)] if o == "send" else [hx("m%d" % nsend), hx(""), hx(("B%d" % nsend) + "b" * 70000)]
            ops.append({"op": "send", "m": body})
            if stype == "REQ":
                ops += [{"op": "preply", "m": [hx(""), hx("r%d" % nsend)]}, {"op": "recv"}, {"op": "recv_drop"}]
    return {"scen": scen, "sock": stype, "ops": ops}


def shape_scripts(scen0):
    """the message shape "no frames" (the public API can build it: split_off, pop_front) between ordinary sends: it cannot be put
    on the wire, so the send must not succeed, must not panic, must write nothing - and the rotation goes on as if it had not been made"""
    out, scen = [], scen0
    for t in ("PUSH", "DEALER", "REQ"):
        ptype = S.PEER_OF[t][0]
        for n in (0, 1, 2, 3):
            scen += 1
            ops = [{"op": "attach", "c": c, "ptype": ptype} for c in range(1, n + 1)]
            k = 0
            for body in ([hx("a")], [], [hx("b")], [hx("c"), hx(""), hx("d" * 300)], [], [], [hx("e")], [hx("f")]):
                k += 1
                ops.append({"op": "send", "m": body})
                if t == "REQ" and body and n:
                    ops += [{"op": "preply", "m": [hx(""), hx("r%d" % k)]}, {"op": "recv"}, {"op": "recv_drop"}]
            out.append({"scen": scen, "sock": t, "ops": ops, "tag": "no-frames/%d" % n})
    return out


def router_script(seq, scen):
    ops, n, ns, np = [], 0, 0, 0
    live, idents, first, superseded = [], {}, 1, False
    for o in seq:
        if o in ("joinA", "joinI", "joinE"):
            if n < 4:
                n += 1
                op = {"op": "attach", "c": n, "ptype": ["DEALER", "REQ", "ROUTER"][n % 3]}
                if o == "joinI":
                    op["ident"] = hx("peer-%d" % n) if n % 2 else hx(("P%d" % n) + "p" * 253)
                if o == "joinE":
                    op["ident"] = ""           # Identity property present but empty (what libzmq DEALER/REQ send)
                idents[n] = op.get("ident")
                ops.append(op); live.append(n)
        elif o == "rejoin_first":
            # the first peer has gone; a new connection announces the same identity
            if n and 1 not in live and n < 5 and idents.get(1):
                n += 1
                ops.append({"op": "attach", "c": n, "ptype": "DEALER", "ident": idents[1]}); live.insert(0, n); first = n
        elif o == "rejoin_live":
            # the first peer is still connected (idle, perhaps half-open) while a new connection announces its identity: the newcomer supersedes it
            if n and live and live[0] == first and n < 5 and idents.get(1) and not superseded:
                n += 1; superseded = True
                ops.append({"op": "attach", "c": n, "ptype": "DEALER", "ident": idents[1]}); live[0] = n; first = n
                np += 1
                ops.append({"op": "psend", "c": n, "m": [hx("c%dsays%d" % (n, np))]})
        elif o == "peer_says":
            if live:
                np += 1; c = live[np % len(live)]
                ops.append({"op": "psend", "c": c, "m": [hx("c%dsays%d" % (c, np)), hx(""), hx("x")] if np % 2 else [hx("c%dsays%d" % (c, np))]})
        elif o == "recv":
            ops += [{"op": "recv"}, {"op": "recv_drop"}]
        elif o in ("to_first", "to_last"):
            ns += 1
            if n:
                c = first if o == "to_first" else n
                ops.append({"op": "send_to", "c": c, "m": [hx("to%d.%d" % (c, ns))] if ns % 2 else [hx(""), hx("to%d.%d" % (c, ns)), hx("y" * 300)]})
        elif o == "to_unknown":
            ns += 1
            ops.append({"op": "send", "m": [hx("nobody-%d" % ns), hx("lost%d" % ns)]})
        elif o == "depart_first":
            if live and live[0] == 1:
                live.pop(0)
                ops += [{"op": "pclose", "c": 1}, {"op": "wbreak", "c": 1}, {"op": "recv"}, {"op": "recv_drop"}]
    ops += [{"op": "recv"}, {"op": "recv"}, {"op": "recv"}, {"op": "quiescent"}, {"op": "recv_drop"}]
    return {"scen": scen, "sock": "ROUTER", "ops": ops}


def random_rr(rng, stype, scen):
    """joins at random times, partial writes, back-pressure (credit) with the send pending, then released"""
    ops, n, ns = [], 0, 0
    ptype = S.PEER_OF[stype][0]
    for _ in range(rng.randint(5, 25)):
        x = rng.random()
        if x < 0.2 and n < 5:
            n += 1
            ops.append({"op": "attach", "c": n, "ptype": ptype})
            if rng.random() < 0.5:
                ops.append({"op": "maxw", "c": n, "k": rng.choice([1, 3, 100, 8192])})
        elif x < 0.35 and n:
            c = rng.randint(1, n)
            k = rng.choice([0, 1, 5, 100, 1000])
            ns += 1
            m = [S.hx(f) for f in S.message(rng, "s%d" % ns, "PULL", nmax=3)]
            # the transport of c accepts only k more bytes: if the rotation hits c the send stays pending until credit returns
            ops += [{"op": "credit", "c": c, "k": k}, {"op": "send", "m": m}, {"op": "quiescent"}, {"op": "credit", "c": c}, {"op": "call_wait"}]
            if stype == "REQ":
                ops += [{"op": "preply", "m": [hx(""), hx("r%d" % ns)]}, {"op": "recv"}, {"op": "recv_drop"}]
        else:
            ns += 1
            ops.append({"op": "send", "m": [S.hx(f) for f in S.message(rng, "s%d" % ns, "PULL", nmax=4)]})
            if stype == "REQ":
                ops += [{"op": "preply", "m": [hx(""), hx("r%d" % ns)]}, {"op": "recv"}, {"op": "recv_drop"}]
    return {"scen": scen, "sock": stype, "ops": ops}


def random_router(rng, scen):
    ops, n = [], 0
    live, ns, idents, departed = [], 0, {}, []
    for _ in range(rng.randint(6, 30)):
        x = rng.random()
        if x < 0.2 and n < 4:
            n += 1
            op = {"op": "attach", "c": n, "ptype": rng.choice(["DEALER", "REQ", "ROUTER"])}
            r = rng.random()
            if r < 0.5:
                op["ident"] = hx("id-%d-%s" % (n, "z" * rng.choice([0, 1, 200, 248])))
            elif r < 0.7:
                op["ident"] = ""
            elif r < 0.85 and departed:
                op["ident"] = departed.pop()       # reconnect under the identity of a peer that has gone
            idents[n] = op.get("ident")
            ops.append(op); live.append(n)
        elif x < 0.45 and live:
            c = rng.choice(live); ns += 1
            m = S.message(rng, "c%dm%d" % (c, ns), "PULL", nmax=3)
            ops.append({"op": "psend", "c": c, "m": [S.hx(f) for f in m], "cuts": S.cuts(rng, m)})
        elif x < 0.65:
            ops += [{"op": "recv"}, {"op": "recv_drop"}]
        elif x < 0.85 and n:
            ns += 1
            c = rng.randint(1, n)
            ops.append({"op": "send_to", "c": c, "m": [S.hx(f) for f in S.message(rng, "to%d.%d" % (c, ns), "PULL", nmax=3)]})
        elif x < 0.92:
            ns += 1
            ops.append({"op": "send", "m": [hx("ghost%d" % ns), hx("p%d" % ns)]})
        elif live:
            c = live.pop(rng.randrange(len(live)))
            if idents.get(c):
                departed.append(idents[c])
            ops += [{"op": "pclose", "c": c}, {"op": "wbreak", "c": c}, {"op": "recv"}, {"op": "recv_drop"}]
    ops += [{"op": "recv"}, {"op": "recv"}, {"op": "quiescent"}, {"op": "recv_drop"}]
    return {"scen": scen, "sock": "ROUTER", "ops": ops}


def run_and_report(chk, scripts, label, prefixes):
    v = dlvlib.run_scripts(chk, scripts, label, monitor="TraceSend")
    dlvlib.report(chk, v, scripts, prefixes, label)
    return v
