"""REQ/REP conformance shared by C07, C08, C14: TLC model checks (ReqRep, RepSock), TLC-enumerated call sequences (GenSeq)
and envelope shapes (MC_Envelope), seeded random multi-client schedules; traces judged by TraceReqRep."""
import json, os, random
import vlib, dlvlib, scripts as S


hx = S.hx


def model_checks(chk):
    for cfg, must in (("MC_ReqRep_ok", True), ("MC_ReqRep_recv_takes_m", False), ("MC_ReqRep_marker_after", False), ("MC_ReqRep_send_ignores", False), ("MC_ReqRep_recv_any_pee", False)):
        r = vlib.tlc("ReqRep", cfg + ".cfg", chk.wd, timeout=600, coverage=must)
        if must:
            chk.model_must_hold(r, "ReqRep: REQ marker mechanism refines the lock-step state machine over all call sequences (2 peers, 6 calls, recv and send abandoned at their suspension points, unsolicited replies)")
        else:
            chk.model_must_fail(r, "ReqRep spec mutant " + cfg)
    for cfg, must in (("MC_RepSock_ok", True), ("MC_RepSock_send_keeps_r", False), ("MC_RepSock_reply_to_low", False)):
        r = vlib.tlc("RepSock", cfg + ".cfg", chk.wd, timeout=600, coverage=must)
        if must:
            chk.model_must_hold(r, "RepSock: replies go to the requester, each client sees its own replies in order (3 clients x 2 requests)")
        else:
            chk.model_must_fail(r, "RepSock spec mutant " + cfg)


def gen_seqs(chk, ops, depth, norepeat, label):
    cfg = os.path.join(vlib.SPEC, "GenSeq_run_%s.cfg" % label)
    fmt = lambda xs: "{" + ", ".join('"%s"' % x for x in xs) + "}"
    open(cfg, "w").write("SPECIFICATION Spec\nCONSTANTS\n Ops = %s\n Depth = %d\n NoRepeat = %s\nINVARIANT Emit\nCHECK_DEADLOCK FALSE\n" % (fmt(ops), depth, fmt(norepeat)))
    try:
        r = vlib.tlc("GenSeq", os.path.basename(cfg), chk.wd, timeout=1800, coverage=False, heap="8g", name="genseq-" + label)
    finally:
        os.remove(cfg)
    chk.add_tlc(r, "GenSeq(%s): every sequence of length %d over %s" % (label, depth, ops))
    return vlib.tlc_printed(r["out"], "SEQ")


def req_stale_scripts(scen0):
    """REQ whose rotation still holds the ids of k peers that have gone (each was sent a request, closed without replying and was
    forgotten by the failing recv): every later request must still go out as [delimiter] + payload, to a live peer"""
    out, scen = [], scen0
    shapes = [[hx("a")], [hx(""), hx("b")], [hx("c"), hx(""), hx("d" * 300)], [hx("")]]
    for k in (1, 2, 3):
        for order in ("gone-first", "gone-last"):
            scen += 1
            n = k + 1
            ops = [{"op": "attach", "c": c, "ptype": "REP"} for c in range(1, n + 1)]
            gone = 0
            for i in range(4 * n):
                if gone == k:
                    break
                ops += [{"op": "send", "m": [hx("probe%d" % i)]}, {"op": "recv_poll"}]
                # whoever got the request: the first k connections close instead of answering, the last one answers
                ops += [{"op": "preply_or_close", "close": list(range(1, k + 1)) if order == "gone-first" else list(range(2, k + 2)), "m": [hx(""), hx("ok%d" % i)]},
                        {"op": "call_wait"}, {"op": "quiescent"}, {"op": "recv_drop"}]
            for j, m in enumerate(shapes * 2):
                ops += [{"op": "send", "m": m}, {"op": "preply", "m": [hx(""), hx("r%d" % j)]}, {"op": "recv"}, {"op": "quiescent"}, {"op": "recv_drop"}]
            out.append({"scen": scen, "sock": "REQ", "ops": ops, "tag": "stale-rotation/%d/%s" % (k, order)})
    return out


def req_abandoned_send_scripts(scen0):
    """a REQ send is abandoned while the transport takes the request (back-pressure after k bytes): whatever of the request has
    reached the wire makes it THE outstanding request - a second request must not follow it and the next recv returns its reply;
    with nothing on the wire yet (k = 0) the socket may count it or discard it, but must be consistent about it"""
    out, scen = [], scen0
    for k in (0, 5, 100, 2000):
        for then in ("send-then-recv", "recv"):
            scen += 1
            big = [hx("A%d-" % scen + "a" * 3000)]
            ops = [{"op": "attach", "c": 1, "ptype": "REP"}, {"op": "credit", "c": 1, "k": k},
                   {"op": "send", "m": big}, {"op": "call_poll"}, {"op": "call_drop"}]
            if then == "send-then-recv":
                ops += [{"op": "send", "m": [hx("B%d" % scen)]}, {"op": "call_poll"}, {"op": "credit", "c": 1}, {"op": "call_wait"}, {"op": "call_drop"}]
            # once the socket counts the request (its recv is accepted), the peer must get the WHOLE request without anything else happening
            ops += [{"op": "credit", "c": 1}, {"op": "recv_poll"}, {"op": "settle"}, {"op": "expect_wire", "c": 1, "m": [hx("")] + big, "if_pending": "recv"},
                    {"op": "preply", "m": [hx(""), hx("reply%d" % scen)]}, {"op": "call_wait"}, {"op": "quiescent"}, {"op": "recv_drop"}]
            ops += [{"op": "send", "m": [hx("C%d" % scen)]}, {"op": "preply", "m": [hx(""), hx("rc%d" % scen)]}, {"op": "recv"}, {"op": "quiescent"}, {"op": "recv_drop"}]
            out.append({"scen": scen, "sock": "REQ", "ops": ops, "tag": "abandoned-send/%d/%s" % (k, then), "nojitter": True})
    return out


REQ_OPS = ["send", "recv", "recv_poll", "recv_drop", "preply", "punsol", "attach2"]
REQ_OPS_GONE = ["send", "recv", "preply", "attach2", "pclose1", "recv_drop"]      # histories in which a peer vanishes
REP_OPS = ["req1", "req2", "recv", "recv_poll", "recv_drop", "send", "bad1"]


def req_script(seq, scen):
    ops = [{"op": "attach", "c": 1, "ptype": "REP"}]
    nsend, nrep, two = 0, 0, False
    for o in seq:
        if o == "send":
            nsend += 1
            ops.append({"op": "send", "m": [hx("q%d" % nsend), hx(""), hx("tail%d" % nsend)] if nsend % 2 == 0 else [hx("q%d" % nsend)]})
        elif o == "preply":
            nrep += 1
            ops.append({"op": "preply", "m": [hx(""), hx("r%d" % nrep)] + ([hx(""), hx("x" * 300)] if nrep % 2 == 0 else [])})
        elif o == "punsol":
            nrep += 1
            ops.append({"op": "psend", "c": 2 if two else 1, "m": [hx(""), hx("u%d" % nrep)]})
        elif o == "attach2":
            if not two:
                ops.append({"op": "attach", "c": 2, "ptype": "ROUTER"}); two = True
        elif o == "pclose1":
            # the first peer goes away (orderly close), possibly owing a reply; its id may still sit in the rotation
            ops.append({"op": "pclose", "c": 1})
        else:
            ops.append({"op": o})
    ops += [{"op": "quiescent"}, {"op": "recv_drop"}, {"op": "send", "m": [hx("final")]}, {"op": "preply", "m": [hx(""), hx("rfinal")]}, {"op": "recv"}, {"op": "quiescent"}, {"op": "recv_drop"}]
    return {"scen": scen, "sock": "REQ", "ops": ops}


def rep_script(seq, scen):
    ops = [{"op": "attach", "c": 1, "ptype": "REQ"}, {"op": "attach", "c": 2, "ptype": "DEALER", "ident": hx("dealer-2")}]
    n1 = n2 = ns = 0
    for o in seq:
        if o == "req1":
            n1 += 1; ops.append({"op": "psend", "c": 1, "m": [hx(""), hx("c1q%d" % n1)]})
        elif o == "req2":
            n2 += 1; ops.append({"op": "psend", "c": 2, "m": [hx("route%d" % n2), hx("hop"), hx(""), hx("c2q%d" % n2), hx(""), hx("y" * 256)]})
        elif o == "bad1":
            # a request that violates REP's envelope rule: a single frame, or (every other scenario) several frames without a delimiter
            n1 += 1; ops.append({"op": "psend", "c": 1, "m": [hx("lonely%d" % n1)] if scen % 2 else [hx("nodelim%d" % n1), hx("payload"), hx("more")]})
        elif o == "send":
            ns += 1; ops.append({"op": "send", "m": [hx("rep%d" % ns)] if ns % 2 else [hx("rep%d" % ns), hx(""), hx("z" * 70000)]})
        else:
            ops.append({"op": o})
    ops += [{"op": "quiescent"}, {"op": "recv_drop"}, {"op": "psend", "c": 1, "m": [hx(""), hx("c1final")]}, {"op": "recv"}, {"op": "recv"}, {"op": "recv"}, {"op": "recv"}, {"op": "quiescent"}, {"op": "recv_drop"}, {"op": "send", "m": [hx("repfinal")]}]
    return {"scen": scen, "sock": "REP", "ops": ops}


KIND = {"empty": b"", "short": b"pay", "b256": b"B" * 256, "big": b"G" * 70000, "id1": b"I", "id255": b"J" * 255}


def envelope_scripts(chk, maxpayload, maxprefix):
    cfg = os.path.join(vlib.SPEC, "MC_Envelope_run.cfg")
    open(cfg, "w").write("SPECIFICATION Spec\nCONSTANTS\n MaxPayload = %d\n MaxPrefix = %d\nINVARIANTS Emit Law\nCHECK_DEADLOCK FALSE\n" % (maxpayload, maxprefix))
    try:
        r = vlib.tlc("MC_Envelope", "MC_Envelope_run.cfg", chk.wd, timeout=900, coverage=False)
    finally:
        os.remove(cfg)
    chk.model_must_hold(r, "MC_Envelope: REP reading of every (prefix, payload) shape returns exactly the payload (payload <= %d frames, prefix <= %d)" % (maxpayload, maxprefix))
    vecs = vlib.tlc_printed(r["out"], "VEC")
    out, scen = [], 0
    for k, v in enumerate(vecs):
        tagf = lambda i, kind: (KIND[kind] if kind in ("empty",) else (b"%d.%d." % (k, i)) + KIND[kind])[:max(len(KIND[kind]), 0) or 0] if kind == "empty" else ((b"%d.%d." % (k, i)) + KIND[kind])[:max(len(KIND[kind]), 8)]
        payload = [tagf(i, kd) for i, kd in enumerate(v["payload"])]
        prefix = [((b"%d" % i) + KIND[p])[:len(KIND[p])] for i, p in enumerate(v["prefix"])]
        # REP: request arrives through a DEALER-like peer with the routing prefix; reply must retrace it
        scen += 1
        wire = prefix + [b""] + payload
        ops = [{"op": "attach", "c": 1, "ptype": "DEALER"}, {"op": "attach", "c": 2, "ptype": "REQ"},
               {"op": "psend", "c": 1, "m": [S.hx(f) for f in wire], "cuts": [1, 3] if k % 3 == 0 else []},
               {"op": "recv"}, {"op": "quiescent"}, {"op": "recv_drop"},
               {"op": "send", "m": [S.hx(f) for f in (payload or [b"r"])]},
               {"op": "psend", "c": 2, "m": [b"".hex(), b"after".hex()]}, {"op": "recv"}, {"op": "send", "m": [b"ok".hex()]}]
        out.append({"scen": scen, "sock": "REP", "ops": ops, "tag": "envelope"})
        # REQ: only non-empty payloads can be sent; the reply carries the same payload shape back
        if payload:
            scen += 1
            ops = [{"op": "attach", "c": 1, "ptype": "ROUTER" if prefix else "REP"},
                   {"op": "send", "m": [S.hx(f) for f in payload]},
                   {"op": "preply", "m": [b"".hex()] + [S.hx(f) for f in payload], "cuts": [1] if k % 2 else []},
                   {"op": "recv"}, {"op": "quiescent"}, {"op": "recv_drop"}]
            out.append({"scen": scen, "sock": "REQ", "ops": ops, "tag": "envelope"})
    return out


def random_rep_scripts(rng, n, base):
    """1..4 lock-step clients (REQ- and DEALER-like, with routing prefixes) against one REP, random chunking; the
    application alternates recv/send, with abandoned recvs in between"""
    out = []
    for i in range(n):
        k = rng.randint(1, 4)
        ops = []
        outstanding = {}
        for c in range(1, k + 1):
            op = {"op": "attach", "c": c, "ptype": rng.choice(["REQ", "DEALER"])}
            if rng.random() < 0.3:
                op["ident"] = hx("cli%d" % c)
            ops.append(op)
        nq = {c: 0 for c in range(1, k + 1)}
        pending_reply = False
        for _ in range(rng.randint(6, 30)):
            x = rng.random()
            idle = [c for c in nq if not outstanding.get(c)]
            if x < 0.4 and idle:
                c = rng.choice(idle); nq[c] += 1
                pre = [("hop%d.%d" % (c, j)).encode() for j in range(rng.randint(0, 2))]
                pay = S.message(rng, "c%dq%d" % (c, nq[c]), "PULL", nmax=3)
                m = pre + [b""] + pay
                ops.append({"op": "psend", "c": c, "m": [S.hx(f) for f in m], "cuts": S.cuts(rng, m)})
                outstanding[c] = True
            elif x < 0.7:
                if pending_reply and rng.random() < 0.8:
                    ops.append({"op": "send", "m": [S.hx(f) for f in S.message(rng, "rep%d" % len(ops), "PULL", nmax=3)]}); pending_reply = False
                    for c in outstanding: outstanding[c] = False     # conservative: any client may now ask again
                else:
                    ops.append({"op": "recv"}); pending_reply = True
            elif x < 0.8:
                ops += [{"op": "recv_poll"}, {"op": "recv_drop"}]
            elif x < 0.9:
                ops.append({"op": "send", "m": [hx("stray%d" % len(ops))]}); pending_reply = False
            else:
                ops.append({"op": "quiescent"})
        ops += [{"op": "recv_drop"}, {"op": "quiescent"}]
        out.append({"scen": base + i, "sock": "REP", "ops": ops, "tag": "random"})
    return out


def run_and_report(chk, scripts, label, prefixes):
    v = dlvlib.run_scripts(chk, scripts, label, monitor="TraceReqRep")
    dlvlib.report(chk, v, scripts, prefixes, label)
    return v
