"""Real-transport conformance shared by C17, C18, C20: operation sequences executed by `zv net` on real loopback TCP / IPC
sockets (several driver processes in parallel, each with its own runtime, descriptor table and IPC directory); traces judged by TraceListener."""
import json, os, shutil, subprocess, time
import vlib

TYPES = ["PULL", "PUSH", "PUB", "SUB", "REQ", "REP", "DEALER", "ROUTER", "XPUB"]
EPS = {"tcp4": "tcp://127.0.0.1:0", "tcp6": "tcp://[::1]:0", "local": "tcp://localhost:0", "ipc": "ipc://$DIR/%s.sock"}


def ep(transport, uniq):
    e = EPS[transport]
    return e % uniq if "%s" in e else e


def run_net(chk, scripts, label, procs=6, monitor="TraceListener"):
    """returns list of (scen, code, line) over the concatenated trace"""
    wd = chk.wd
    parts = [scripts[i::procs] for i in range(procs)]
    parts = [p for p in parts if p]
    ps = []
    t0 = time.time()
    for i, p in enumerate(parts):
        inp = os.path.join(wd, "%s.%d.in" % (label, i)); out = os.path.join(wd, "%s.%d.trace" % (label, i))
        ipcdir = os.path.join(vlib.WORK, "ipc-%d-%s-%d" % (os.getpid(), label, i))
        shutil.rmtree(ipcdir, ignore_errors=True); os.makedirs(ipcdir)
        vlib.write_ndjson(inp, p)
        ps.append((subprocess.Popen([vlib.ZV, "net", "--in", inp, "--out", out, "--dir", ipcdir], stdout=subprocess.PIPE, stderr=subprocess.STDOUT, text=True), out, ipcdir, p))
    rows = []
    for pr, out, ipcdir, p in ps:
        try:
            o, _ = pr.communicate(timeout=3000)
        except subprocess.TimeoutExpired:
            pr.kill(); raise vlib.ToolError("zv net timed out")
        shutil.rmtree(ipcdir, ignore_errors=True)
        got = vlib.read_ndjson(out) if os.path.exists(out) else []
        rows += got
        if pr.returncode != 0:
            done = sum(1 for r in got if r["ev"] == "end")
            bad = p[done] if done < len(p) else p[-1]
            chk.violation("%s/process-abort" % chk.pid, {"what": "the driver process died during this scenario", "sock": bad["sock"], "tag": bad.get("tag"), "tail": o[-300:]}, {"kind": "net", "script": bad})
    for i, r in enumerate(rows):
        r["i"] = i + 1
    trace = os.path.join(wd, label + ".trace")
    vlib.write_ndjson(trace, rows)
    viols, consumed, total, info = vlib.tlc_trace(monitor, monitor + ".cfg", trace, wd, timeout=1800)
    chk.traces += len(scripts); chk.states += info["distinct"]; chk.transitions += info["generated"]
    chk.notes.setdefault("trace_validation", []).append({"family": label, "scenarios": len(scripts), "events": total, "monitor": monitor, "driver_s": round(time.time() - t0, 1), "processes": len(parts)})
    return viols


def report(chk, viols, scripts, prefixes, family):
    byscen = {s["scen"]: s for s in scripts}
    other = set()
    for scen, code, line in viols:
        if any(code.startswith(p) for p in prefixes):
            sc = byscen.get(scen)
            chk.violation(code, {"layer": "real-transport", "family": family, "scenario": scen, "sock": sc and sc["sock"], "cell": sc and sc.get("tag"), "trace_line": line}, {"kind": "net", "script": sc})
        else:
            other.add(code)
    if other:
        chk.notes["codes_owned_by_other_properties"] = sorted(set(chk.notes.get("codes_owned_by_other_properties", [])) | other)


SILENT = [0]


def probes(names, ipcs, settle=False, bound=None, silent=False):
    """a fresh connection attempt to every endpoint ever returned; on endpoints that should be listening the probe completes a
    handshake (a listener must keep accepting any number of connections); `silent`: first leave a connection that says nothing"""
    ops = [{"op": "binds"}] if not settle else []
    for n in names:
        up = bound is not None and n in bound
        if up and silent:
            SILENT[0] += 1          # a connection that stays open and never says anything
            ops.append({"op": "client", "k": 1000 + SILENT[0], "name": n, "kind": "stall", "at": 0})
        ops.append({"op": "probe_settle" if settle else "probe", "name": n, "handshake": up})
        if n in ipcs:
            ops.append({"op": "ipc_exists", "name": n, "settle": settle})
    return ops


def race_scripts(rng, thorough, what=("twins", "rejoin")):
    """Registry.tla on the real multi-threaded runtime over loopback TCP (uncontrolled interleavings, sampled): connections that share
    an identity finish their handshakes at the same instant; a peer of a round-robin sender comes back under its identity at the
    moment the socket notices the end of its old connection"""
    out, scen = [], 950000
    if "twins" in what:
        for t in ("ROUTER", "PULL", "DEALER", "REP", "XPUB"):
            for rep in range(3 if thorough else 1):
                scen += 1
                out.append({"scen": scen, "sock": t, "tag": "twins", "ops": [{"op": "bind", "name": "a", "ep": "tcp://127.0.0.1:0"},
                                                                              {"op": "mt_twins", "name": "a", "rounds": 12 if thorough else 8, "groups": 8}]})
    if "rejoin" in what:
        for t, reps in (("DEALER", 2), ("PUSH", 1)):
            for rep in range(reps * (3 if thorough else 1)):
                scen += 1
                out.append({"scen": scen, "sock": t, "tag": "rejoin", "ops": [{"op": "bind", "name": "a", "ep": "tcp://127.0.0.1:0"},
                                                                               {"op": "mt_rejoin", "name": "a", "rounds": 2000 if thorough else 600, "seed": rng.randrange(1 << 30)}]})
    return out
