"""C12 - a slow subscriber never blocks the publisher or corrupts its own stream."""
import json, random
import vlib, pslib

def run(chk, replay=None):
    chk.rule = ("cases = seeded schedules on real PUB and XPUB sockets with 2-4 subscribers: one always healthy, the others under scripted back-pressure (accept k bytes then stall, "
                "stall / resume at arbitrary points, never drain, close + broken pipe) interleaved with publishes of sizes {1, 100, 64 KiB, HWM-72, HWM-12, HWM, HWM+1, 200 000}; at "
                "the end all credit is returned and the buffers flushed; TLC (TracePubSub) judges: publish never pending, the healthy subscriber misses nothing, every subscriber's "
                "stream is an order-preserving subsequence of whole matching messages, bytes that were buffered during a stall <= HWM + largest message; the outbound buffer "
                "mechanism is model-checked with scaled constants (OutBuf); distinct = distinct scripts; non-trivial = contains a stall")
    chk.assumptions = ["TLC and CommunityModules are correct", "HWM = 131072 (asynchronous-codec default); buffered bytes are inferred from what leaves after credit returns",
                       "which messages a stalled subscriber loses above HWM is not demanded"]
    thorough = chk.tier == "thorough"
    rng = random.Random(chk.seed)
    if replay:
        sc = json.load(open(replay))["replay"]["script"]
        pslib.run_and_report(chk, [sc], "replay", ("C12/",))
        return
    for cfg, must in (("MC_OutBuf_ok", True), ("MC_OutBuf_encode_before_ready", False), ("MC_OutBuf_clear_on_full", False),
                      ("MC_OutBuf_no_flusher", False), ("MC_OutBuf_kick_only_when_refused", False), ("MC_OutBuf_kick_unless_armed", False), ("MC_OutBuf_reach", False)):
        r = vlib.tlc("OutBuf", cfg + ".cfg", chk.wd, timeout=1200, coverage=must)
        (chk.model_must_hold if must else chk.model_must_fail)(r, "OutBuf " + cfg + (": tap well-formed, nothing accepted is lost or withheld, buffer < HWM + max message; HWM=8, sizes {1,4,7,8,9}, 5 publishes, all credit patterns, flusher task interleaved everywhere" if must else
                                                                                     " (the pinned tree's mechanism: bytes only move on a publish)" if "no_flusher" in cfg else " (reachability companion)" if "reach" in cfg else " (spec mutant)"))
    scen, fam = 0, []
    for t in ("PUB", "XPUB"):
        for i in range(600 if thorough else 70):
            scen += 1; fam.append(pslib.c12_script(rng, t, scen))
    for t in ("PUB", "XPUB"):
        for k in (5, 100, 1500):
            for after in ("quiet", "other-topic"):
                for between in (False, True):
                    scen += 1; fam.append(pslib.c12_withheld_script(t, scen, k, after, between))
    # a publisher in a tight loop under a runtime's cooperative budget (its writes are refused once the budget is spent, the
    # flusher tasks cannot run while it keeps the thread): the connections take everything they are offered, so everything arrives
    for t in ("PUB", "XPUB"):
        for k, size, n in ((3, 1000, 300), (8, 4000, 120), (2, 100, 400)):
            scen += 1; fam.append(pslib.c12_budget_script(t, scen, k, size, n))
    for s in fam: chk.case((s["sock"], json.dumps(s["ops"])[:3000]), nontrivial=any(o["op"] == "credit" and o.get("k") is not None for o in s["ops"]))
    chk.sample({"kind": "back-pressure schedule", "sock": fam[0]["sock"], "ops": [(o["op"], o.get("c"), o.get("k")) for o in fam[0]["ops"]][:24]})
    pslib.run_and_report(chk, fam, "c12", ("C12/",))
