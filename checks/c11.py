"""C11 - PUB/XPUB deliver a message to a subscriber iff a subscription is a prefix."""
import json, random
import vlib, pslib, rrlib

def run(chk, replay=None):
    chk.rule = ("cases = every per-subscriber history of length D over {subscribe, unsubscribe} x topics {empty, a, ab, b} and three kinds of malformed subscription message, "
                "enumerated by TLC (GenSeq), for two subscribers (the second gets the rotated history), each followed - and in one variant interleaved - with publishes of every first "
                "frame in {empty, a, ab, abc, b}, on real PUB and XPUB sockets (XPUB: subscriptions returned by recv immediately, or only after a first publish round that must deliver "
                "nothing), plus seeded longer random histories; prefix matching against the bag model is evaluated by TLC (TracePubSub); Vec-vs-bag equivalence is model-checked (PubSub)")
    chk.assumptions = ["TLC and CommunityModules are correct", "judged at quiescent points with healthy pipes; PUB processes subscriptions in a background task that has run to quiescence"]
    thorough = chk.tier == "thorough"
    rng = random.Random(chk.seed)
    if replay:
        sc = json.load(open(replay))["replay"]["script"]
        pslib.run_and_report(chk, [sc], "replay", ("C11/",))
        return
    for cfg, must in (("MC_PubSub_ok", True), ("MC_PubSub_strict_prefix", False), ("MC_PubSub_no_break", False), ("MC_PubSub_unsub_removes_all", False), ("MC_PubSub_dedup_on_subscribe", False)):
        r = vlib.tlc("MC_PubSub", cfg + ".cfg", chk.wd, timeout=900, coverage=must)
        (chk.model_must_hold if must else chk.model_must_fail)(r, "PubSub " + cfg + (": Vec push / remove-first / first-match-break equals the bag-prefix reference for all histories <= 5, 4 topics x 6 frames" if must else " (spec mutant)"))
    hists = rrlib.gen_seqs(chk, pslib.SUB_OPS, 4 if thorough else 3, [], "subhist")
    scen = 0
    for t in ("PUB", "XPUB"):
        fam = []
        for k, h in enumerate(hists):
            scen += 1; fam.append(pslib.c11_script(h, t, scen, k % 3))
        for i in range(1500 if thorough else 150):
            scen += 1; fam.append(pslib.c11_script([rng.choice(pslib.SUB_OPS) for _ in range(rng.randint(5, 12))], t, scen, rng.randrange(3)))
        for s in fam: chk.case((t, s["scen"]))
        chk.sample({"kind": "subscription history + publishes", "sock": t, "ops": [(o["op"], o.get("note")) for o in fam[len(fam) // 2]["ops"]][:10]})
        pslib.run_and_report(chk, fam, "c11-" + t, ("C11/",))
