"""C16 - a failed or closed peer is isolated, forgotten, and its connection released."""
import json, random
import vlib, dlvlib, scripts as S

hx = S.hx
CUTS = [("between", None), ("header", 1), ("long-length", 30), ("body", 600), ("between-frames", 350)]
FAULTS = ["eof", "reset+wbreak", "eof+wbreak"]     # orderly close; reset (reads and writes fail); close, then writes fail too

def victim_msg(t):
    m = [b"v-frame0", b"V" * 300, b"v-last"]          # short frame, long-size frame, last frame: encoded 10 + 309 + 8 = 327 bytes
    if t == "REP":
        m = [b""] + m
    if t in ("XPUB", "PUB"):
        m = [b"\x01" + b"V" * 320]
    return m

def script(rng, t, scen, cutname, upto, fault, others, send_first=False):
    ptype = S.PEER_OF[t][0]
    ops = [{"op": "attach", "c": 1, "ptype": ptype}]
    for c in range(2, 2 + others):
        ops.append({"op": "attach", "c": c, "ptype": ptype})
    recvs = t in S.RECV_TYPES
    sends = t in ("PUSH", "DEALER", "REQ", "PUB", "XPUB", "ROUTER", "REP")
    if t in ("PUB", "XPUB"):
        for c in range(1, 2 + others):
            ops.append({"op": "psend", "c": c, "m": [hx(b"\x01")]})
            if t == "XPUB":
                ops += [{"op": "recv"}, {"op": "recv_drop"}]
        ops.append({"op": "settle"})
    k = 0
    def other_traffic():
        nonlocal k
        for c in range(2, 2 + others):
            k += 1
            if recvs and t != "REQ":
                ops.append({"op": "psend", "c": c, "m": dlvlib.msg_for(t, c, k)})
    other_traffic()
    if t == "REP" and send_first:
        # the victim's request is received first, so that the reply is owed to it when it fails
        ops += [{"op": "psend", "c": 1, "m": [hx(""), hx("victim-request")]}]
        ops += [{"op": "recv"}] * (others + 1)
    # the victim gets as far as the cut position, then the fault
    if upto is not None:
        ops.append({"op": "pbegin", "c": 1, "m": [hx(f) for f in victim_msg(t)], "upto": upto * 1000 // 330})
    if "eof" in fault:
        ops.append({"op": "pclose", "c": 1})
    if "reset" in fault:
        ops.append({"op": "pfail", "c": 1, "kind": "reset"})
    if "wbreak" in fault:
        ops.append({"op": "wbreak", "c": 1})
    def first_recvs():
        if recvs and t != "REQ":
            ops.extend([{"op": "recv"}] * (others + 2) + [{"op": "quiescent"}, {"op": "recv_drop"}])
    if not send_first:
        first_recvs()
    if t == "SUB":
        ops.extend([{"op": "sub", "t": "x%d" % scen}, {"op": "unsub", "t": "x%d" % scen}])
    if sends and t not in ("REP", "ROUTER", "REQ"):
        for i in range(others + 3):
            ops.append({"op": "send", "m": [hx("out%d.%d" % (scen, i))], "note": {"first": list(b"out")}})
    if t == "ROUTER":
        for c in [1, 2, 1]:
            ops.append({"op": "send_to", "c": c, "m": [hx("to%d.%d" % (c, scen))]})
    if t == "REQ":
        for i in range(others + 2):
            ops += [{"op": "send", "m": [hx("q%d.%d" % (scen, i))]}, {"op": "preply", "m": [hx(""), hx("r%d" % i)]}, {"op": "recv"}, {"op": "quiescent"}, {"op": "recv_drop"}]
    if t == "REP":
        ops += [{"op": "send", "m": [hx("rep%d" % scen)]}]
    if send_first:
        first_recvs()
    ops.append({"op": "quiescent"})
    other_traffic()
    if recvs and t != "REQ":
        ops += [{"op": "recv"}] * (others + 1) + [{"op": "quiescent"}, {"op": "recv_drop"}]
    if sends and t not in ("REP", "ROUTER", "REQ"):
        ops.append({"op": "send", "m": [hx("late%d" % scen)], "note": {"first": list(b"late")}})
    ops.append({"op": "quiescent"})
    return {"scen": scen, "sock": t, "ops": ops, "tag": "%s/%s/%d/%s" % (cutname, fault, others, "send-first" if send_first else "recv-first")}

def joining_script(t, scen, rep, same_identity=False):
    """a peer fails while a call that holds its table entry is pending AND another peer's handshake is registering itself
    (the registration may have to wait for the entry): the call must come back and the socket must go on working"""
    ptype = S.PEER_OF[t][0]
    big = [hx(b"J" * 3000)]
    ops = [{"op": "attach", "c": 1, "ptype": ptype, "ident": hx("the-peer")}]
    if same_identity:
        # the peer restarts: its new connection (2) registers under its identity while the call still holds the old one (1), which then
        # fails. The new connection has done nothing wrong: it must stay, and be the one that is served
        js = joining_script(t, scen, rep)
        if js is None:
            return None
        for o in js["ops"]:
            if o.get("op") == "attach" and o.get("c") == 2:
                o["ident"] = hx("the-peer")
        js["tag"] = "joining-same-identity/%d" % rep
        return js
    if t == "REQ":
        ops += [{"op": "send", "m": [hx("q1")]}, {"op": "recv_poll"}]                       # recv pending: waits for the reply of peer 1
        ops += [{"op": "attach", "c": 2, "ptype": ptype}, {"op": "attach", "c": 3, "ptype": ptype}]
        ops += [{"op": "pclose", "c": 1}, {"op": "call_wait"}, {"op": "attach_wait", "c": 2}, {"op": "attach_wait", "c": 3}, {"op": "quiescent"}, {"op": "recv_drop"}]
        ops += [{"op": "send", "m": [hx("q2")]}, {"op": "preply", "m": [hx(""), hx("r2")]}, {"op": "recv"}, {"op": "quiescent"}, {"op": "recv_drop"}]
    else:
        if t in ("PUB", "XPUB", "PULL"):
            return None                                                                    # no call that waits while holding a peer entry
        if t == "REP":
            ops += [{"op": "psend", "c": 1, "m": [hx(""), hx("request")]}, {"op": "recv"}]
        if t == "SUB":
            pass
        ops += [{"op": "credit", "c": 1, "k": 0}]
        call = {"op": "send_to", "c": 1, "m": big} if t == "ROUTER" else {"op": "sub", "t": "topic%d" % scen} if t == "SUB" else {"op": "send", "m": big}
        ops += [dict(call), {"op": "call_poll"}]                                           # pending on back-pressure, holding peer 1's entry
        ops += [{"op": "attach", "c": 2, "ptype": ptype}, {"op": "attach", "c": 3, "ptype": ptype}]
        ops += [{"op": "wbreak", "c": 1}, {"op": "pfail", "c": 1, "kind": "reset"}, {"op": "credit", "c": 1}, {"op": "call_wait"},
                {"op": "attach_wait", "c": 2}, {"op": "attach_wait", "c": 3}, {"op": "quiescent"}, {"op": "call_drop"}]
        if t in ("DEALER", "PUSH"):
            ops += [{"op": "send", "m": [hx("after%d" % scen)], "note": {"first": list(b"after")}}]
        if t == "ROUTER":
            ops += [{"op": "send_to", "c": 2, "m": [hx("after%d" % scen)]}]
        ops += [{"op": "quiescent"}]
    return {"scen": scen, "sock": t, "ops": ops, "tag": "joining/%d" % rep, "nojitter": True}

def restart_script(t, scen, rep):
    """a subscriber restarts: it closes its connection and is back under its identity at once (the old connection's end and the new
    registration reach the socket together); the new connection must stay and be served"""
    sub = [hx(b"\x01")]
    ops = [{"op": "attach", "c": 1, "ptype": "SUB", "ident": hx("subscriber")}, {"op": "psend", "c": 1, "m": sub}]
    if t == "XPUB":
        ops += [{"op": "recv"}, {"op": "recv_drop"}]
    ops += [{"op": "settle"}, {"op": "pclose", "c": 1}, {"op": "attach", "c": 2, "ptype": "SUB", "ident": hx("subscriber")}, {"op": "psend", "c": 2, "m": sub}]
    if t == "XPUB":
        ops += [{"op": "recv"}, {"op": "recv"}, {"op": "quiescent"}, {"op": "recv_drop"}]
    ops += [{"op": "settle"}]
    for i in range(3):
        ops.append({"op": "send", "m": [hx("out%d.%d" % (scen, i))], "note": {"first": list(b"out")}})
    ops += [{"op": "settle"}, {"op": "expect_wire", "c": 2, "m": [hx("out%d.2" % scen)]}, {"op": "quiescent"}]
    return {"scen": scen, "sock": t, "ops": ops, "tag": "restart-same-identity/%d" % rep, "nojitter": True}

def twin_script(t, scen, rep):
    """two connections of one peer (one identity) register at the same time (Registry.tla): the first is stopped in the middle of its
    registration - it is in the peer table, not yet in the rotation / the fair queue -, the second starts; when the first is let go
    both finish. Whatever the order, the socket must end up with ONE of them in all its structures (the one that finished last):
    that one is served in both directions, the other is released"""
    ptype = S.PEER_OF[t][0]
    tag = "tw%d" % scen
    ops = [{"op": "gate_hold", "name": "reg.after_table"},
           {"op": "attach", "c": 1, "ptype": ptype, "ident": hx("twin")},
           {"op": "attach", "c": 2, "ptype": ptype, "ident": hx("twin")},
           {"op": "gate_release"}, {"op": "attach_wait", "c": 1}, {"op": "attach_wait", "c": 2}, {"op": "settle"}, {"op": "quiescent"}]
    if t == "PULL":
        ops += [{"op": "psend", "c": 2, "m": [hx(tag)]}, {"op": "recv"}]
    elif t == "PUSH":
        ops += [{"op": "send", "m": [hx(tag)], "note": {"first": list(tag.encode())}}, {"op": "expect_wire", "c": 2, "m": [hx(tag)]}]
    elif t == "DEALER":
        ops += [{"op": "psend", "c": 2, "m": [hx(tag)]}, {"op": "recv"},
                {"op": "send", "m": [hx(tag + "r")], "note": {"first": list(tag.encode())}}, {"op": "expect_wire", "c": 2, "m": [hx(tag + "r")]}]
    elif t == "ROUTER":
        ops += [{"op": "psend", "c": 2, "m": [hx(tag)]}, {"op": "recv"},
                {"op": "send_to", "c": 2, "m": [hx(tag + "r")]}, {"op": "expect_wire", "c": 2, "m": [hx(tag + "r")]}]
    elif t == "REP":
        ops += [{"op": "psend", "c": 2, "m": [hx(""), hx(tag)]}, {"op": "recv"},
                {"op": "send", "m": [hx(tag + "r")]}, {"op": "expect_wire", "c": 2, "m": [hx(""), hx(tag + "r")]}]
    elif t == "XPUB":
        ops += [{"op": "psend", "c": 2, "m": [hx(b"\x01")]}, {"op": "recv"}, {"op": "settle"},
                {"op": "send", "m": [hx(tag)], "note": {"first": list(tag.encode())}}, {"op": "settle"}, {"op": "expect_wire", "c": 2, "m": [hx(tag)]}]
    else:
        return None
    ops += [{"op": "quiescent"}]
    return {"scen": scen, "sock": t, "ops": ops, "tag": "twins/%d" % rep, "nojitter": True}

def run(chk, replay=None):
    chk.rule = ("cases = grid {9 socket types} x {cut position in the victim's byte stream: between messages, inside a frame header, inside an 8-byte length, inside a body, between "
                "frames of a multipart message} x {orderly EOF, connection reset (reads and writes fail), EOF followed by write failure} x {1, 2 other live peers} x {the fault is first met by a recv, by a send}, each followed by recv / send calls and "
                "traffic from the other peers, on real sockets over in-memory pipes (enumerated exhaustively), plus seeded random variations; judged by TLC: TraceLifecycle (at most one "
                "error per fault, no send routed to a peer whose end was observed, both halves released by the next quiescent point) and TraceDelivery (other peers unaffected); "
                "the reaction mechanism is model-checked with its named deviations (PeerLifecycle), the peer table's locking with PeerTable, the multi-step registration / forgetting of connections of one identity with Registry (sampled on the multi-threaded runtime over real TCP: 8 groups of two connections per round finish their handshakes under one identity at the same instant, every connection the socket leaves open must be one it reads from, TraceRace); distinct = distinct grid cells; non-trivial = all")
    chk.assumptions = ["TLC and CommunityModules are correct", "'observed' = the library's read on that connection returned EOF / an error or its write returned an error (logged by the pipe)",
                       "descriptor counting over real TCP/IPC is done by the C17 check's drivers, not here"]
    thorough = chk.tier == "thorough"
    rng = random.Random(chk.seed)
    for cfg, must in (("MC_PeerLifecycle_ok", True), ("MC_PeerLifecycle_eof_keeps_entry", False), ("MC_PeerLifecycle_error_stream_requeued", False), ("MC_PeerLifecycle_send_error_keeps_peer", False)):
        r = vlib.tlc("PeerLifecycle", cfg + ".cfg", chk.wd, timeout=600, coverage=must)
        (chk.model_must_hold if must else chk.model_must_fail)(r, "PeerLifecycle " + cfg + (": released after observation, at most one error per peer, nothing routed to an observed-dead peer; 2 peers, every fault / recv / send order" if must else " (named deviation of the code, past or open: counterexample exists)"))
    for cfg, must, what in (("MC_PeerTable_ok1", True, "the repaired design (shared entry copied out, bucket locked for an instant), 1 worker thread: never stuck, no task suspended while owning the bucket, every task terminates (call + 2 handshakes)"),
                            ("MC_PeerTable_ok2", True, "the repaired design, 2 worker threads"),
                            ("MC_PeerTable_held_awaited_1thread", True, "entry held across the await, awaited removal (intermediate fix), 1 worker thread: not stuck"),
                            ("MC_PeerTable_sync_remove_2threads", True, "entry held, blocking removal, 2 worker threads: a worker is blocked but everything terminates"),
                            ("MC_PeerTable_sync_remove_1thread", False, "entry held across the await and blocking removal, 1 worker thread (the pinned tree): the runtime is stuck for good"),
                            ("MC_PeerTable_held_suspended_owner", False, "entry held across the await: a suspended task owns the bucket (what makes any blocking table operation - stream-end hook, Drop - unsafe)"),
                            ("MC_PeerTable_reach", False, "reachability companion: a handshake really queues behind a held entry"),
                            ("MC_PeerTable_pinned_2threads", False, "the design before fix 47c1df1 (asynchronous registration, blocking forgetting) on a scheduler that queues a woken task in the slot of the worker that woke it (tokio): a second blocking operation of that worker's task waits for ever for the owner in its own slot (F40)"),
                            ("MC_PeerTable_allsync_pinned_1thread", True, "the design since fix 47c1df1 (every table operation blocking and brief, none awaited), pinned wake-ups, 1 worker thread: never stuck, the owner of a bucket is never suspended, every task terminates"),
                            ("MC_PeerTable_allsync_pinned_2threads", True, "the design since fix 47c1df1, pinned wake-ups, 2 worker threads")):
        r = vlib.tlc("PeerTable", cfg + ".cfg", chk.wd, timeout=300, coverage=must)
        (chk.model_must_hold if must else chk.model_must_fail)(r, "PeerTable " + what)
    for cfg, must, what in (("MC_Registry_ok", True, "the repaired design (the steps of a registration / of forgetting a connection run under the lock of the peer's table bucket; a stream let go of while it is polled is not put back), 2 connections of one identity: at every quiescent point the peer table, the rotation and the fair queue hold the same connection or none, it is whole and not ended, and the connection that registered last is not lost"),
                            ("MC_Registry_ok3", True, "the repaired design, 3 connections"),
                            ("MC_Registry_ok_norot", True, "the repaired design, socket without a rotation (PULL, ROUTER, REP, SUB, XPUB), 3 connections"),
                            ("MC_Registry_ok_nofq", True, "the repaired design, socket without a fair queue (PUSH, REQ), 3 connections"),
                            ("MC_Registry_steps", False, "the steps interleave, last writer wins, the rotation is left by identity (the tree before fix F33): crossed halves / registered but not in the rotation"),
                            ("MC_Registry_steps_nofq", False, "the same for a socket without a fair queue: a connected peer outside the rotation"),
                            ("MC_Registry_newest", False, "the steps interleave but every structure keeps the higher connection number (an intermediate repair that was tried and withdrawn)"),
                            ("MC_Registry_zombie", False, "atomic steps, but a stream forgotten or superseded while it is polled is put back"),
                            ("MC_Registry_reach1", False, "reachability companion: two connections registered"),
                            ("MC_Registry_reach2", False, "reachability companion: a connection is forgotten while its stream is out")):
        r = vlib.tlc("Registry", cfg + ".cfg", chk.wd, timeout=300, coverage=must)
        if must:
            chk.model_must_hold(r, "Registry " + what, disabled=("Take", "PutBack", "StreamEnd") if cfg.endswith("nofq") else ())
        else:
            chk.model_must_fail(r, "Registry " + what)
    if replay:
        sc = json.load(open(replay))["replay"]["script"]
        fam = [sc]
    else:
        fam, scen = [], 0
        for t in S.PEER_OF:
            for cutname, upto in CUTS:
                for fault in FAULTS:
                    for others in (1, 2):
                        for send_first in ((False, True) if t in ("ROUTER", "REP", "DEALER", "XPUB", "SUB") else (False,)):
                            scen += 1; fam.append(script(rng, t, scen, cutname, upto, fault, others, send_first))
        for i in range(1500 if thorough else 150):
            scen += 1
            t = rng.choice(list(S.PEER_OF)); cutname, upto = rng.choice(CUTS)
            if upto is not None:
                upto = rng.randint(1, 326)
            fam.append(script(rng, t, scen, cutname, upto, rng.choice(FAULTS), rng.randint(1, 3), rng.random() < 0.5))
        chk.exhaustive = True
    if not replay:
        # identities are random and so is the peer table's hash seed: whether two peers share a bucket differs from run to run,
        # hence the repetitions
        for t in S.PEER_OF:
            for rep in range(24 if thorough else 8):
                scen += 1
                js = joining_script(t, scen, rep)
                if js:
                    fam.append(js)
                if rep < 3:
                    scen += 1
                    js = joining_script(t, scen, rep, same_identity=True)
                    if js:
                        fam.append(js)
    # (the in-memory twins cells - one registration stopped between its steps by a gate while a second one of the same identity runs -
    #  are no longer run: since fix 47c1df1 the table's bucket lock is blocking, a second registration would block the driver's only
    #  thread for as long as the gate holds the first; the interleaving is sampled on the multi-threaded runtime below, mt_twins)
    if not replay:
        for t in ("PUB", "XPUB"):
            for rep in range(24 if thorough else 8):      # which branch the old reader task's select! takes is random
                scen += 1; fam.append(restart_script(t, scen, rep))
    if not replay:
        import netlib
        races = netlib.race_scripts(rng, thorough, what=("twins",))
        for s in races: chk.case(("race", s["sock"], s["tag"], s["scen"]))
        rv = netlib.run_net(chk, races, "c16-races", procs=3, monitor="TraceRace")
        netlib.report(chk, rv, races, ("C16/",), "races")
    elif fam and fam[0].get("ops") and any(o.get("op", "").startswith("mt_") for o in fam[0]["ops"]):
        import netlib
        rv = netlib.run_net(chk, fam, "c16-races", procs=1, monitor="TraceRace")
        netlib.report(chk, rv, fam, ("C16/",), "races")
        return
    for s in fam: chk.case((s["sock"], s["tag"], s["scen"]))
    chk.sample({"kind": "fault scenario", "sock": fam[len(fam) // 2]["sock"], "cell": fam[len(fam) // 2]["tag"], "ops": [(o["op"], o.get("c")) for o in fam[len(fam) // 2]["ops"]]})
    v = dlvlib.run_scripts(chk, fam, "c16", monitor="TraceLifecycle")
    dlvlib.report(chk, v, fam, ("C16/",), "grid", monitor="TraceLifecycle")
    v2 = dlvlib.run_scripts(chk, [s for s in fam if s["sock"] in S.RECV_TYPES], "c16-dlv", monitor="TraceDelivery")
    rel = [(s_, "C16/others-disturbed", l_) for (s_, c_, l_) in v2 if c_ in ("C05/message-never-delivered", "C06/parked-with-message-available", "C05/reordered-or-skipped", "C05/duplicate-or-invented-or-modified")]
    rel += [(s_, c_, l_) for (s_, c_, l_) in v2 if c_.startswith("C16/")]
    dlvlib.report(chk, rel, fam, ("C16/",), "grid-delivery", monitor="TraceDelivery")
