"""C06 - a waiting receiver is always woken, and no peer is starved."""
import fqlib, vlib

def run(chk, replay=None):
    chk.rule = ("cases = behaviours replayed on the real fair queue: TLC -simulate walks of spec/GenFQ.tla (lock-granular "
                "schedules incl. insert/wake/remove inside the unlocked window, cancel with a new waker), seeded starvation "
                "scenarios (history, idle park, burst vs single message) and seeded random walks; distinct = distinct scripts; "
                "non-trivial = contains at least one receiver poll")
    chk.assumptions = ["TLC and CommunityModules are correct", "scripted sources wake exactly the waker they were last polled with",
                       "layer-A bypass bound is 4*(live peers+1); the mechanism's own bound n-1 is checked on the model (FairBoundTight)"]
    if replay:
        import json
        sc = json.load(open(replay))["replay"]["script"]
        viols, st = fqlib.replay_one(chk, sc)
        for scen, code, line in viols:
            if code.startswith("C06/") or code.startswith("panic"):
                chk.violation(code, {"layer": "fair-queue", "trace_line": line}, {"kind": "fq", "script": sc})
        return
    thorough = chk.tier == "thorough"
    fqlib.model_checks(chk, ("safety", "liveness", "mutants", "reach"))
    fqlib.run_fq(chk, ("C06/",), nsim=3000 if thorough else 400, nstarve=400 if thorough else 60, nrand=2000 if thorough else 300)
    import dlvlib, random
    bs = dlvlib.burst_scripts(random.Random(chk.seed * 17 + 3), 40 if thorough else 6, 700000)
    for s_ in bs: chk.case(("burst", s_["sock"], s_["scen"]))
    chk.sample({"kind": "socket-level burst", "sock": bs[0]["sock"], "ops": [o["op"] for o in bs[0]["ops"][:8]], "len": len(bs[0]["ops"])})
    v = dlvlib.run_scripts(chk, bs, "c06-burst")
    dlvlib.report(chk, v, bs, ("C06/",), "socket-level burst")
    dlvlib.flood(chk, ("C06/",), nper=12 if thorough else 2, clients=6 if thorough else 4, msgs=300 if thorough else 60)
