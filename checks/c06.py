"""C06 - a waiting receiver is always woken, and no peer is starved."""
import fqlib, vlib

def run(chk, replay=None):
    chk.rule = ("cases = behaviours replayed on the real fair queue: TLC -simulate walks of spec/GenFQ.tla (lock-granular "
                "schedules incl. insert/wake/remove inside the unlocked window, cancel with a new waker), seeded starvation "
                "scenarios (history, idle park, burst vs single message) and seeded random walks; socket-level bursts, and back-to-back recv calls under a simulated cooperative budget (k transport reads per task poll, refused reads woken only after the task yields; mechanism model-checked in Budget.tla); distinct = distinct scripts; "
                "non-trivial = contains at least one receiver poll")
    chk.assumptions = ["TLC and CommunityModules are correct", "scripted sources wake exactly the waker they were last polled with",
                       "layer-A bypass bound is 4*(live peers+1); the mechanism's own bound n-1 is checked on the model (FairBoundTight)"]
    if replay:
        import json
        rep = json.load(open(replay))["replay"]
        sc = rep["script"]
        if rep.get("kind") == "engine":
            import dlvlib
            v = dlvlib.run_scripts(chk, [sc], "replay")
            dlvlib.report(chk, v, [sc], ("C06/",), "replay")
            return
        viols, st = fqlib.replay_one(chk, sc)
        for scen, code, line in viols:
            if code.startswith("C06/") or code.startswith("panic"):
                chk.violation(code, {"layer": "fair-queue", "trace_line": line}, {"kind": "fq", "script": sc})
        return
    thorough = chk.tier == "thorough"
    fqlib.model_checks(chk, ("safety", "liveness", "mutants", "reach"))
    fqlib.run_fq(chk, ("C06/",), nsim=3000 if thorough else 400, nstarve=400 if thorough else 60, nrand=2000 if thorough else 300)
    import dlvlib, random
    bs = dlvlib.burst_scripts(random.Random(chk.seed * 17 + 3), 40 if thorough else 6, 700000)
    for s_ in bs: chk.case(("burst", s_["sock"], s_["scen"]))
    chk.sample({"kind": "socket-level burst", "sock": bs[0]["sock"], "ops": [o["op"] for o in bs[0]["ops"][:8]], "len": len(bs[0]["ops"])})
    v = dlvlib.run_scripts(chk, bs, "c06-burst")
    dlvlib.report(chk, v, bs, ("C06/",), "socket-level burst")
    for cfg, must, what in (("MC_Budget_ok1", True, "the repaired mechanism (yield after more than N deliveries in a row with a stream waiting, waiting streams asked again at the back in rotating order), 3 streams, budget 1 read per task poll, buffers up to 12: no stream with a message waits for more than 12 deliveries of the others"),
                            ("MC_Budget_ok2", True, "the same, budget 2: bound 8"),
                            ("MC_Budget_ok4", True, "the same, 4 streams, budget 1: bound 20"),
                            ("MC_Budget_no_round_yield", False, "the code before fix ff5a291 (a call yields only when every stream answered Pending): a stream whose message needs a read waits for as long as the others have anything buffered"),
                            ("MC_Budget_reask_fixed", False, "an intermediate repair (waiting streams asked again at the front in a fixed order): an idle stream ahead of the ready one uses up the budget every time"),
                            ("MC_Budget_reach1", False, "reachability companion: a read is refused"),
                            ("MC_Budget_reach2", False, "reachability companion: the call yields after a round")):
        if cfg == "MC_Budget_ok4" and not thorough:
            continue
        r = vlib.tlc("Budget", cfg + ".cfg", chk.wd, timeout=900, coverage=must, workers=8)
        (chk.model_must_hold if must else chk.model_must_fail)(r, "Budget " + what)
    bg = dlvlib.budget_scripts(710000, budgets=(1, 2, 3, 5) if thorough else (1, 2, 3), backlog=(20, 40, 120) if thorough else (20, 40))
    for s_ in bg: chk.case(("budget", s_["sock"], s_["tag"]))
    v = dlvlib.run_scripts(chk, bg, "c06-budget")
    dlvlib.report(chk, v, bg, ("C06/",), "cooperative budget")
    dlvlib.flood(chk, ("C06/",), nper=12 if thorough else 2, clients=6 if thorough else 4, msgs=300 if thorough else 60)
