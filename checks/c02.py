"""C02 - stream reassembly is independent of how the bytes were segmented."""
import json, os, random
import vlib, dlvlib, scripts as S

def handover_scripts(rng, thorough):
    out, scen = [], 0
    types = ["PULL", "SUB", "DEALER", "ROUTER", "REP", "XPUB"] if thorough else ["PULL", "ROUTER", "REP"]
    for t in types:
        first = dlvlib.msg_for(t, 1, 2)       # multi-frame first message incl. an empty frame and a 300-byte frame
        # hello = greeting(64) + READY(~28) + first message: every 1-cut and a sample of 2-cuts / 3-cuts
        n = 64 + 30 + 320
        singles = [[k] for k in range(1, 100)] + [[k] for k in range(100, n, 7)]
        doubles = [[a, b] for a in (1, 10, 63, 64, 65, 70, 90, 91, 92, 93, 94, 95) for b in range(a + 1, 110, 3)]
        triples = [sorted(rng.sample(range(1, 110), 3)) for _ in range(60 if thorough else 15)]
        for cuts in [[]] + singles + doubles + triples:
            scen += 1
            ops = [{"op": "attach", "c": 1, "ptype": S.PEER_OF[t][0], "first": first, "split": cuts}]
            if rng.random() < 0.5:
                ops.append({"op": "psend", "c": 1, "m": dlvlib.msg_for(t, 1, 3)})
                ops += [{"op": "recv"}, {"op": "recv"}]
            else:
                ops += [{"op": "recv"}]
            ops += [{"op": "recv"}, {"op": "quiescent"}, {"op": "recv_drop"}]
            out.append({"scen": scen, "sock": t, "ops": ops})
    return out

def run(chk, replay=None):
    chk.rule = ("cases = (stream, partition) pairs fed to the library's real FramedRead+codec: for each stream of the TLC-checked family "
                "(greeting, READY with 0-2 properties, 1-3 frame messages, short/long sizes, command between messages) ALL partitions of the bytes after the "
                "greeting (tails up to the exhaustive bound), every cut inside the greeting, and for longer / random large-frame streams every single cut, every "
                "pair of cuts, byte-at-a-time and seeded random partitions; plus hand-over scenarios (greeting+READY+first message in one write, cut everywhere) "
                "on real sockets validated by TLC (TraceDelivery); distinct = distinct (stream, partition); non-trivial = at least one cut")
    chk.assumptions = ["expected items per stream are computed by TLC from spec/ZmtpDecoder.tla and spec/Zmtp.tla; for random large-frame streams by the harness's reference codec, "
                       "which is cross-checked against the TLC vectors on every run"]
    thorough = chk.tier == "thorough"
    rng = random.Random(chk.seed)
    r = vlib.tlc("MC_Decoder", "MC_Decoder.cfg", chk.wd, timeout=900)
    chk.model_must_hold(r, "ZmtpDecoder: every segmentation of 20 streams; items and decoder state are functions of the consumed bytes and equal the RFC 23 reference")
    vectors = vlib.tlc_printed(r["out"], "VEC")
    for cfg, what in (("MC_Decoder_m1.cfg", "waiting_for reset on short input"), ("MC_Decoder_m2.cfg", "buffered frames dropped on last frame")):
        chk.model_must_fail(vlib.tlc("MC_Decoder", cfg, chk.wd, timeout=300, coverage=False), "spec mutant: " + what)
    if replay:
        rp = json.load(open(replay))["replay"]
        if rp.get("kind") == "engine":
            v = dlvlib.run_scripts(chk, [rp["script"]], "replay")
            dlvlib.report(chk, v, [rp["script"]], ("C05/", "C06/", "C02/"), "replay", relabel="C02/handover:")
            return
        vectors = [v for v in vectors if v["id"] == rp.get("stream")] or vectors
    inp = os.path.join(chk.wd, "c02.in"); out = os.path.join(chk.wd, "c02.out")
    vlib.write_ndjson(inp, vectors)
    rc, o, dt = vlib.sh([vlib.ZV, "c02", "--in", inp, "--out", out, "--seed", str(chk.seed), "--random", "60" if thorough else "8",
                         "--max-exh", "16" if thorough else "12"], timeout=3000)
    if rc != 0:
        chk.violation("C02/abort", {"what": "decoder driver died", "out": o[-400:]}, {"vectors": inp})
        return
    evs = vlib.read_ndjson(out)
    total = 0
    for e in evs:
        total += e["partitions"]
        if e.get("oracle_disagree"):
            raise vlib.ToolError("harness reference codec disagrees with spec/Zmtp.tla on stream %s" % e["id"])
        if e["bad"]:
            chk.violation("C02/items-differ-from-reference", {"stream": e["id"], "bad_partitions": e["bad"], "of": e["partitions"], "first": e.get("first_bad")},
                          {"kind": "stream", "stream": e["id"], "cuts": (e.get("first_bad") or {}).get("cuts")})
        if e["drift"]:
            chk.drift.append("decoder: stream %s: %d partitions/prefixes differ from spec/ZmtpDecoder.tla, e.g. %s" % (e["id"], e["drift"], json.dumps(e.get("first_drift"))[:200]))
    chk.evaluations += total
    chk.distinct_n += total - len(evs)
    chk.notes["streams"] = len(evs); chk.notes["partitions"] = total
    chk.notes["exhaustive_streams"] = sum(1 for e in evs if e.get("exhaustive"))
    chk.sample({"kind": "stream", "id": evs[3]["id"], "len": evs[3]["len"], "partitions": evs[3]["partitions"], "expected_items": evs[3]["expected"]})
    chk.traces += total
    # hand-over on real sockets
    hs = handover_scripts(rng, thorough)
    for s in hs:
        chk.case(("handover", s["sock"], json.dumps(s["ops"][0].get("split"))))
    chk.sample({"kind": "hand-over scenario", "sock": hs[5]["sock"], "split": hs[5]["ops"][0]["split"]})
    v = dlvlib.run_scripts(chk, hs, "c02-handover")
    dlvlib.report(chk, v, hs, ("C05/", "C06/", "C02/"), "handover", relabel="C02/handover:")
