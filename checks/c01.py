"""C01 - message framing conforms to ZMTP 3.0 and round-trips exactly."""
import json, os
import vlib

def gen_vectors(chk, maxframes):
    cfg = os.path.join(vlib.SPEC, "MC_Wire_run.cfg")
    open(cfg, "w").write("SPECIFICATION Spec\nCONSTANTS\n Grid = {0, 1, 2, 254, 255, 256, 257, 65535, 65536, 1048576, 4194304}\n MaxFrames = %d\n SmallMax = 257\nINVARIANTS RoundTrip HdrOK Emit\nCHECK_DEADLOCK FALSE\n" % maxframes)
    try:
        r = vlib.tlc("MC_Wire", "MC_Wire_run.cfg", chk.wd, timeout=1200, coverage=False)
    finally:
        os.remove(cfg)
    chk.model_must_hold(r, "MC_Wire: reference decode of the canonical wire image is the identity on every shape of the boundary grid (<= %d frames)" % maxframes)
    return vlib.tlc_printed(r["out"], "VEC")

def run(chk, replay=None):
    chk.rule = ("cases = message shapes (frame-length lists) enumerated by TLC over the grid {0,1,2,254,255,256,257,65535,65536,1 MiB,4 MiB} "
                "plus seeded random messages (1-8 frames, lengths up to several MiB) encoded by the real codec, plus greeting/READY written by each of "
                "the 9 socket types x identity lengths (every length 1..255 for three types, boundary lengths for the rest; thorough: every length for every type); the parse of the produced bytes is validated by TLC against spec/Zmtp.tla (TraceWire); "
                "distinct = distinct shapes; non-trivial = at least one frame")
    chk.assumptions = ["body content equality and the library's decode of its own bytes are byte compares in the harness", "TLC and CommunityModules are correct"]
    thorough = chk.tier == "thorough"
    if replay:
        rp = json.load(open(replay))["replay"]
        vectors = [rp["vector"]] if rp.get("vector") else []
    else:
        vectors = gen_vectors(chk, 3 if thorough else 2)
        if not thorough:
            # covering sample of 3-frame shapes
            grid = [0, 1, 255, 256, 65536]
            import itertools, random
            rng = random.Random(chk.seed)
            tri = list(itertools.product(grid, repeat=3))
            rng.shuffle(tri)
            # these are executed without a TLC-computed skeleton (hdrs absent -> canonical not compared)
            vectors += [{"lens": list(t)} for t in tri[:40]]
    inp = os.path.join(chk.wd, "c01.in"); out = os.path.join(chk.wd, "c01.trace")
    vlib.write_ndjson(inp, vectors)
    rc, o, dt = vlib.sh([vlib.ZV, "c01", "--in", inp, "--out", out, "--seed", str(chk.seed), "--random", "2000" if thorough else "250"] + (["--all-idents"] if thorough else []), timeout=1800)
    if rc != 0:
        chk.violation("C01/abort", {"what": "codec driver died", "out": o[-400:]}, {"vectors": inp})
        return
    st = json.loads(o.strip().splitlines()[-1])
    if st.get("non_canonical"):
        chk.drift.append("%d encodings differ from the canonical skeleton of spec/Zmtp.tla (legal if they still parse)" % st["non_canonical"])
    viols, consumed, total, info = vlib.tlc_trace("TraceWire", "TraceWire.cfg", out, chk.wd)
    chk.traces += 1
    chk.states += info["distinct"]; chk.transitions += info["generated"]
    evs = vlib.read_ndjson(out)
    for e in evs:
        key = ("enc", tuple(e.get("lens", []))) if e["ev"] == "enc" else ("hello", e.get("sock"), len(e.get("ident", [])))
        chk.case(str(key), nontrivial=True)
    chk.sample({"kind": "encoded message parse", "event": {k: v for k, v in evs[min(30, len(evs) - 1)].items()}})
    chk.sample({"kind": "hello", "event": {k: (v if k != "r" and k != "g" else v[:40]) for k, v in evs[-1].items()}})
    chk.notes["events"] = total
    chk.exhaustive = False
    for scen, code, line in viols:
        e = evs[line - 1] if 0 < line <= len(evs) else {}
        chk.violation(code, {"event": {k: (v if not isinstance(v, list) or len(v) < 40 else v[:40]) for k, v in e.items()}, "trace_line": line},
                      {"vector": {"lens": e.get("lens")} if e.get("ev") == "enc" else None, "event": e.get("ev")})
