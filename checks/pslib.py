"""Publish/subscribe conformance shared by C11, C12, C13: TLC models (PubSub, OutBuf, SubSync), TLC-enumerated histories (GenSeq),
seeded random schedules; traces judged by TracePubSub."""
import json, os, random
import vlib, dlvlib, rrlib, scripts as S

hx = S.hx
TOPICS = {"e": b"", "a": b"a", "ab": b"ab", "b": b"b"}
FIRSTS = [b"", b"a", b"ab", b"abc", b"b"]
SUB_OPS = ["S:e", "S:a", "S:ab", "S:b", "U:e", "U:a", "U:ab", "U:b", "G:empty", "G:byte", "G:two"]


def submsg(op):
    """(frames, note) of one subscription-history symbol"""
    k, t = op.split(":")
    if k == "S":
        return [b"\x01" + TOPICS[t]], {"k": "sub", "t": list(TOPICS[t])}
    if k == "U":
        return [b"\x00" + TOPICS[t]], {"k": "unsub", "t": list(TOPICS[t])}
    if t == "empty":
        return [b""], {"k": "junk", "t": []}
    if t == "byte":
        return [b"\x02a"], {"k": "junk", "t": []}
    return [b"\x01a", b"extra"], {"k": "junk", "t": []}


def publish_round(ops, tag, firsts=FIRSTS):
    for i, f in enumerate(firsts):
        ops.append({"op": "send", "m": [hx(f), hx("%s.%d" % (tag, i))], "note": {"first": list(f)}})


def c11_script(hist, stype, scen, variant):
    ops = [{"op": "attach", "c": 1, "ptype": "SUB"}, {"op": "attach", "c": 2, "ptype": "XSUB"}]
    rot = hist[1:] + hist[:1]
    for step, (o1, o2) in enumerate(zip(hist, rot)):
        for c, o in ((1, o1), (2, o2)):
            m, note = submsg(o)
            ops.append({"op": "psend", "c": c, "m": [hx(f) for f in m], "note": note})
            if stype == "XPUB" and variant == 0:
                ops += [{"op": "recv"}, {"op": "recv_drop"}]
        if variant == 2:
            publish_round(ops, "s%d.%d" % (scen, step), FIRSTS[step % 2::2])      # publishes interleaved with the history
    if stype == "XPUB" and variant != 0:
        publish_round(ops, "early%d" % scen)         # subscriptions written but not yet returned by recv: they must not count
        ops += [{"op": "recv"}, {"op": "recv_drop"}] * (2 * len(hist))
    ops.append({"op": "settle"})
    publish_round(ops, "p%d" % scen)
    return {"scen": scen, "sock": stype, "ops": ops}


def c12_withheld_script(stype, scen, k, after, between=False):
    """a subscriber stalls in the middle of a message and resumes: everything that was accepted for it (far below the high-water
    mark: nothing may be dropped) must reach it without the publisher having to publish something that matches it again.
    between: the socket's tasks run between the publishes (OutBuf: the flusher is armed, the next publish takes its wake-up)"""
    ops = []
    for c in (1, 2):
        ops.append({"op": "attach", "c": c, "ptype": "SUB"})
        ops.append({"op": "psend", "c": c, "m": [hx(b"\x01t")], "note": {"k": "sub", "t": list(b"t")}})
        if stype == "XPUB":
            ops += [{"op": "recv"}, {"op": "recv_drop"}]
    ops += [{"op": "settle"}, {"op": "credit", "c": 2, "k": k}]
    msgs = []
    for i in range(3):
        first = b"t%d-%d-" % (scen, i) + b"w" * 1000
        m = [hx(first), hx("tag%d.%d" % (scen, i))]
        msgs.append(m)
        ops.append({"op": "send", "m": m, "note": {"first": list(first[:16])}})
        if between:
            ops.append({"op": "settle"})
    ops += [{"op": "settle"}, {"op": "credit", "c": 2}, {"op": "settle"}]
    if after == "other-topic":
        for j in range(5):
            first = b"u%d-%d" % (scen, j)
            ops.append({"op": "send", "m": [hx(first)], "note": {"first": list(first)}})
        ops.append({"op": "settle"})
    for m in msgs:
        ops.append({"op": "expect_wire", "c": 2, "m": m})
    return {"scen": scen, "sock": stype, "ops": ops, "tag": "withheld/%d/%s/%d" % (k, after, between), "nojitter": True}


def c12_budget_script(stype, scen, k, size, n):
    """a publisher that publishes in a tight loop under a runtime's cooperative budget (tokio's): its task gets k transport operations
    per poll of the task, further writes are refused - they answer Pending without looking at the connection - until the task has
    given control back.  Every subscriber's connection accepts everything it is offered: nobody may miss a message."""
    ops = []
    for c in (1, 2):
        ops.append({"op": "attach", "c": c, "ptype": "SUB"})
        ops.append({"op": "psend", "c": c, "m": [hx(b"\x01t")], "note": {"k": "sub", "t": list(b"t")}})
        if stype == "XPUB":
            ops += [{"op": "recv"}, {"op": "recv_drop"}]
    ops += [{"op": "settle"}, {"op": "budget", "k": k, "writes": True}]
    ms = []
    for i in range(n):
        first = b"t%d-%d-" % (scen, i) + b"b" * size
        ms.append([hx(first), hx("tag%d.%d" % (scen, i))])
    ops += [{"op": "send_burst", "ms": ms}, {"op": "budget"}, {"op": "settle"}]
    # nobody's connection ever failed to take data for longer than the publisher kept the thread: everything arrives
    for c in (1, 2):
        for m in (ms[0], ms[len(ms) // 2], ms[-2], ms[-1]):
            ops.append({"op": "expect_wire", "c": c, "m": m})
    ops.append({"op": "quiescent"})
    return {"scen": scen, "sock": stype, "ops": ops, "tag": "budget/%d/%d/%d" % (k, size, n), "nojitter": True}


def c12_script(rng, stype, scen):
    n = rng.randint(2, 6)
    ops = []
    for c in range(1, n + 1):
        ops.append({"op": "attach", "c": c, "ptype": "SUB"})
        t = b"" if c % 2 else b"t"
        ops.append({"op": "psend", "c": c, "m": [hx(b"\x01" + t)], "note": {"k": "sub", "t": list(t)}})
        if stype == "XPUB":
            ops += [{"op": "recv"}, {"op": "recv_drop"}]
    ops.append({"op": "settle"})
    slow = list(range(2, n + 1))
    k = 0
    for _ in range(rng.randint(6, 25)):
        x = rng.random()
        if x < 0.35:
            c = rng.choice(slow)
            r = rng.random()
            if r < 0.5:
                ops.append({"op": "credit", "c": c, "k": rng.choice([0, 0, 1, 10, 1000, 65536, 131072, 200000])})
            elif r < 0.85:
                ops.append({"op": "credit", "c": c})             # unlimited again
            else:
                # the connection dies: either the socket's reader notices first (close, then writes fail) or the publisher's own
                # write is the first to fail (broken pipe while the read side is still silent)
                ops += [{"op": "pclose", "c": c}, {"op": "wbreak", "c": c}] if rng.random() < 0.5 else [{"op": "wbreak", "c": c}]
                slow = [s for s in slow if s != c] or [c]
        else:
            k += 1
            size = rng.choice([1, 100, 65536, 131000, 131060, 131072, 131073, 200000, 10, 10])
            body = b"t" + (b"%d-%d-" % (scen, k)) + b"z" * size
            first = body[:max(size, 12)] if size > 12 else body[:12]
            ops.append({"op": "send", "m": [hx(first), hx("tag%d.%d" % (scen, k))], "note": {"first": list(first[:16])}})
    for c in range(2, n + 1):
        ops.append({"op": "credit", "c": c})
    for j in range(3):                                    # bytes only move on a publish: flush what is buffered
        first = b"tflush%d.%d" % (scen, j)
        ops.append({"op": "send", "m": [hx(first)], "note": {"first": list(first)}})
    ops.append({"op": "settle"})
    return {"scen": scen, "sock": stype, "ops": ops}


SUBSYNC_OPS = ["sub:a", "sub:ab", "unsub:a", "unsub:ab", "join", "joinG", "fail1", "check"]


SUBSYNC_REJOIN_OPS = ["sub:a", "sub:ab", "unsub:a", "rejoin1", "check"]     # histories in which a publisher with a fixed identity comes back


def c13_script(seq, scen):
    ops = [{"op": "attach", "c": 1, "ptype": "PUB", "ident": dlvlib.S.hx("publisher-1")}]
    n, gated, rejoined = 1, False, False
    for o in seq:
        if o.startswith("sub:") or o.startswith("unsub:"):
            ops.append({"op": o.split(":")[0], "t": o.split(":")[1]})
        elif o == "join":
            if n < 4:
                n += 1; ops.append({"op": "attach", "c": n, "ptype": "XPUB" if n % 2 else "PUB"})
        elif o == "rejoin1":
            # a publisher with a fixed identity comes back while its old connection is still registered (half-open): it supersedes it
            if 1 <= n < 4 and not rejoined:
                n += 1; rejoined = True
                ops.append({"op": "attach", "c": n, "ptype": "PUB", "ident": dlvlib.S.hx("publisher-1")})
        elif o == "joinG":
            if n < 4 and not gated:
                n += 1; gated = True
                ops += [{"op": "gate_hold", "name": "sub.join.after_snapshot"}, {"op": "attach", "c": n, "ptype": "PUB"}]
                continue
        elif o == "fail1":
            ops += [{"op": "pclose", "c": 1}, {"op": "wbreak", "c": 1}]
        elif o == "check":
            ops.append({"op": "quiescent"})
        if gated:
            ops += [{"op": "gate_release"}, {"op": "call_wait"}]; gated = False
    if gated:
        ops += [{"op": "gate_release"}, {"op": "call_wait"}]
    ops.append({"op": "quiescent"})
    return {"scen": scen, "sock": "SUB", "ops": ops}


def random_c13(rng, scen):
    ops, n = [], 0
    topics = ["a", "b", "ab", "", "news"]
    gated = False
    for _ in range(rng.randint(5, 25)):
        x = rng.random()
        if x < 0.25 and n < 5:
            n += 1
            if rng.random() < 0.3 and not gated:
                ops += [{"op": "gate_hold", "name": "sub.join.after_snapshot"}, {"op": "attach", "c": n, "ptype": "PUB"}]; gated = True
                continue
            ops.append({"op": "attach", "c": n, "ptype": rng.choice(["PUB", "XPUB"])})
        elif x < 0.7:
            ops.append({"op": rng.choice(["sub", "sub", "unsub"]), "t": rng.choice(topics)})
        elif x < 0.78 and n:
            c = rng.randint(1, n)
            ops += [{"op": "pclose", "c": c}, {"op": "wbreak", "c": c}]
        else:
            ops.append({"op": "quiescent"})
        if gated:
            ops += [{"op": "gate_release"}, {"op": "call_wait"}]; gated = False
    if gated:
        ops += [{"op": "gate_release"}, {"op": "call_wait"}]
    ops.append({"op": "quiescent"})
    return {"scen": scen, "sock": "SUB", "ops": ops}


def run_and_report(chk, scripts, label, prefixes):
    v = dlvlib.run_scripts(chk, scripts, label, monitor="TracePubSub")
    dlvlib.report(chk, v, scripts, prefixes, label, monitor="TracePubSub")
    return v
