"""C15 - proxy() forwards every message verbatim in both directions."""
import json, random
import vlib, dlvlib, rrlib, scripts as S

hx = S.hx
OPS = ["req1", "req2", "rep1", "rep2", "poll", "drive"]

def payload(k, tag):
    shapes = [[tag], [tag, b"", b"x"], [b"", tag], [tag, b"B" * 300], [tag, b"", (tag + b"." * 70000)[:70000], b""]]
    return shapes[k % len(shapes)]

def proxy_script(seq, scen, capture, rng=None):
    ops = [{"op": "attach", "c": 1, "side": "front", "ptype": "REQ", "ident": hx("cli1")},
           {"op": "attach", "c": 2, "side": "front", "ptype": "DEALER", "ident": hx("cli2")},
           {"op": "attach", "c": 3, "side": "back", "ptype": "REP"},
           {"op": "attach", "c": 4, "side": "back", "ptype": "DEALER"}]
    if capture != "none":
        ops.append({"op": "attach", "c": 5, "side": "cap", "ptype": {"PUSH": "PULL", "PUB": "SUB", "DEALER": "ROUTER"}[capture]})
        if capture == "PUB":
            ops += [{"op": "psend", "c": 5, "m": [hx(b"\x01")]}, {"op": "settle"}]
    nq, nr = {1: 0, 2: 0}, 0
    cur = {1: 1, 2: 2}        # the connection each client is on
    for o in seq:
        if o in ("req1", "req2"):
            c = int(o[-1]); nq[c] += 1
            tag = b"c%dq%d.%d" % (c, nq[c], scen)
            m = [b""] + payload(nq[c] + c, tag)
            ops.append({"op": "psend", "c": cur[c], "m": [hx(f) for f in m], "cuts": S.cuts(rng, m) if rng else []})
        elif o == "restart2":
            # client 2 closes its connection in an orderly way, the proxy notices, and the client comes back under its identity
            if cur[2] < 8:
                new = 6 if cur[2] == 2 else cur[2] + 1
                # (in every other history the client is back before the proxy has noticed that the old connection closed)
                ops += [{"op": "pclose", "c": cur[2]}] + ([{"op": "drive"}] if scen % 2 else []) + [{"op": "attach", "c": new, "side": "front", "ptype": "DEALER", "ident": hx("cli2")}]
                cur[2] = new
        elif o in ("rep1", "rep2"):
            c = int(o[-1]); nr += 1
            tag = b"r%d.to%d.%d" % (nr, c, scen)
            m = [b"cli%d" % c, b""] + payload(nr, tag)
            ops.append({"op": "psend", "c": 3 + (nr % 2), "m": [hx(f) for f in m], "cuts": S.cuts(rng, m) if rng else []})
        else:
            ops.append({"op": o})
    ops.append({"op": "quiescent", "final": True})
    # every third scenario: the application had tried (and abandoned) a recv on both sockets from another task before starting the proxy
    return {"scen": scen, "sock": "PROXY", "capture": capture, "prepoll": scen % 3 == 0, "ops": ops}

def run(chk, replay=None):
    chk.rule = ("cases = every schedule of length D over {client 1 / client 2 writes a request, a worker writes a reply addressed to client 1 / client 2, one poll of the proxy future, "
                "drive the proxy until it parks} enumerated by TLC (GenSeq) on a real proxy(ROUTER, DEALER, capture) polled by hand (both sides made ready before the same poll), with "
                "capture PUSH / PUB / none and payload shapes incl. empty frames and a 70 KiB frame, plus seeded longer schedules with random segmentation; the wire taps on both sides "
                "and on the capture connection are judged by TLC (TraceProxy); the select loop is model-checked (Proxy); distinct = distinct scripts; non-trivial = contains a message")
    chk.assumptions = ["TLC and CommunityModules are correct", "clients announce identities so scripted workers can address replies; which worker serves a request is not demanded"]
    thorough = chk.tier == "thorough"
    rng = random.Random(chk.seed)
    if replay:
        sc = json.load(open(replay))["replay"]["script"]
        v = dlvlib.run_scripts(chk, [sc], "replay", monitor="TraceProxy")
        dlvlib.report(chk, v, [sc], ("C15/",), "replay", monitor="TraceProxy")
        return
    for cfg, must in (("MC_Proxy_ok", True), ("MC_Proxy_relay_skips_capture", False), ("MC_Proxy_drop_loser_message", False)):
        r = vlib.tlc("Proxy", cfg + ".cfg", chk.wd, timeout=600, coverage=must)
        (chk.model_must_hold if must else chk.model_must_fail)(r, "Proxy " + cfg + (": verbatim, nothing lost, one capture copy per forwarded message; 3 messages per direction, every arrival / select order" if must else " (spec mutant)"))
    fam, scen = [], 0
    caps = ["PUSH", "none", "PUB", "PUSH"]
    for seq in rrlib.gen_seqs(chk, OPS, 6 if thorough else 5, ["drive"], "proxy"):
        scen += 1; fam.append(proxy_script(seq, scen, caps[scen % 4]))
    for seq in rrlib.gen_seqs(chk, ["req2", "rep2", "restart2", "drive", "req1"], 6 if thorough else 5, ["drive", "restart2"], "proxyrestart"):
        if "restart2" in seq and "rep2" in seq[seq.index("restart2"):]:
            scen += 1; fam.append(proxy_script(seq, scen, caps[scen % 4]))
    for i in range(1500 if thorough else 200):
        scen += 1
        fam.append(proxy_script([rng.choice(OPS) for _ in range(rng.randint(6, 20))], scen, rng.choice(caps), rng))
    for s in fam: chk.case(json.dumps(s["ops"][5:])[:1500], nontrivial=any(o["op"] == "psend" for o in s["ops"]))
    chk.sample({"kind": "proxy schedule", "capture": fam[100]["capture"], "ops": [(o["op"], o.get("c")) for o in fam[100]["ops"]]})
    v = dlvlib.run_scripts(chk, fam, "c15", monitor="TraceProxy")
    dlvlib.report(chk, v, fam, ("C15/",), "proxy", monitor="TraceProxy")
