"""C14 - dropping a pending recv loses nothing and leaves the socket usable."""
import json, random
import vlib, dlvlib, rrlib, fqlib, scripts as S

def drop_scripts(rng, thorough):
    """for every socket type with recv: a 3-frame message arrives byte-position by byte-position; at each arrival position the pending recv is
    polled k times and dropped, repeatedly; then everything is drained"""
    out, scen = [], 0
    for t in S.RECV_TYPES:
        m = [b"f0c1m1", b"", b"c1m1-tail"]
        if t == "REP":
            m = [b"", b"c1m1", b"tail"]
        if t == "XPUB":
            m = [b"\x01c1m1"]
        enc_len = sum(len(f) + 2 for f in m)
        positions = range(0, enc_len + 1) if thorough else list(range(0, enc_len + 1, 2)) + [enc_len]
        for pos in positions:
            for polls in (0, 1, 2, 3):
                scen += 1
                ops = [{"op": "attach", "c": 1, "ptype": S.PEER_OF[t][0]}, {"op": "attach", "c": 2, "ptype": S.PEER_OF[t][0]}]
                if pos > 0:
                    ops.append({"op": "pbegin", "c": 1, "m": [S.hx(f) for f in m], "upto": max(1, min(999, pos * 1000 // enc_len))})
                for rep in range(rng.randint(1, 3)):
                    if polls == 0:
                        ops += [{"op": "recv_poll"}, {"op": "recv_drop"}] if rng.random() < 0.5 else []
                    else:
                        ops.append({"op": "recv_poll"})
                        ops += [{"op": "call_poll"}] * (polls - 1)
                        ops.append({"op": "recv_drop"})
                if pos > 0:
                    r = rng.random()
                    if r < 0.35:
                        ops += [{"op": "recv_poll"}, {"op": "pfinish", "c": 1}, {"op": "recv_drop"}]     # completes while a recv is pending, then dropped un-polled
                    elif r < 0.7:
                        # completes while a NEW recv (new waker) is parked after earlier abandoned ones: it must be woken
                        ops += [{"op": "recv_poll"}, {"op": "pfinish", "c": 1}, {"op": "quiescent"}, {"op": "recv_drop"}]
                    else:
                        ops.append({"op": "pfinish", "c": 1})
                else:
                    ops.append({"op": "psend", "c": 1, "m": [S.hx(f) for f in m]})
                ops.append({"op": "psend", "c": 2, "m": dlvlib.msg_for(t, 2, 2)})
                ops += [{"op": "recv_poll"}, {"op": "recv_drop"}] * rng.randint(0, 2)
                ops += [{"op": "recv"}, {"op": "recv"}, {"op": "recv"}, {"op": "quiescent"}, {"op": "recv_drop"}]
                out.append({"scen": scen, "sock": t, "ops": ops, "tag": "drop@%d/%d" % (pos, polls)})
    return out

def run(chk, replay=None):
    chk.rule = ("cases = (a) for each of PULL/SUB/DEALER/ROUTER/REP/XPUB: a 3-frame message arriving up to every byte position, the pending recv polled 0-3 times and dropped, "
                "repeatedly, then drained (TraceDelivery); (b) every REQ call sequence of length D over {send, recv, poll, drop, reply, unsolicited, second peer} and every REP sequence over {request 1, request 2, malformed, recv, poll, drop, send} that contains a poll or drop, enumerated by TLC "
                "(TraceReqRep); (c) TLC-enumerated socket-level schedules with drops (GenDelivery) and fair-queue behaviours with Cancel (GenFQ); the cancellation point of the "
                "future is the crash point; distinct = distinct scripts; non-trivial = contains a drop")
    chk.assumptions = ["TLC and CommunityModules are correct", "a dropped future is observed through later API results only"]
    thorough = chk.tier == "thorough"
    rng = random.Random(chk.seed)
    relabel = lambda v: [(s, ("C14/" + c.replace("/", ":")) if not c.startswith("C14/") else c, l) for (s, c, l) in v if c.split("/")[0] in ("C05", "C06", "C08", "C14", "C07")]
    if replay:
        rp = json.load(open(replay))["replay"]
        sc = rp["script"]
        v = dlvlib.run_scripts(chk, [sc], "replay", monitor=rp.get("monitor") or ("TraceReqRep" if sc["sock"] == "REQ" else "TraceDelivery"))
        dlvlib.report(chk, relabel(v), [sc], ("C14/",), "replay")
        return
    # models: Cancel changes nothing in the fair queue (no state differs), REQ marker survives a dropped recv
    fqlib.model_checks(chk, ("safety",))
    for cfg, must in (("MC_ReqRep_ok", True), ("MC_ReqRep_recv_takes_m", False)):
        r = vlib.tlc("ReqRep", cfg + ".cfg", chk.wd, timeout=600, coverage=must)
        (chk.model_must_hold if must else chk.model_must_fail)(r, "ReqRep " + cfg + (" (RecvDropped leaves the request outstanding)" if must else " (spec mutant: marker taken before the await)"))
    ds = drop_scripts(rng, thorough)
    for s in ds: chk.case(("drop", s["sock"], s["tag"], json.dumps(s["ops"])[:600]))
    chk.sample({"kind": "drop scenario", "sock": ds[10]["sock"], "tag": ds[10]["tag"], "ops": [o["op"] for o in ds[10]["ops"]]})
    v = dlvlib.run_scripts(chk, ds, "c14-drop")
    dlvlib.report(chk, relabel(v), ds, ("C14/",), "drop-at-every-position")
    scen = len(ds)
    fam = []
    for seq in rrlib.gen_seqs(chk, rrlib.REQ_OPS, 6 if thorough else 5, ["recv_drop", "attach2", "punsol"], "req"):
        if "recv_drop" in seq or "recv_poll" in seq:
            scen += 1; fam.append(rrlib.req_script(seq, scen))
    for s in fam: chk.case(("req", s["scen"]))
    chk.sample({"kind": "REQ sequence with drops", "ops": [o["op"] for o in fam[len(fam) // 2]["ops"]]})
    v = dlvlib.run_scripts(chk, fam, "c14-req", monitor="TraceReqRep")
    dlvlib.report(chk, relabel(v), fam, ("C14/",), "req-sequences", monitor="TraceReqRep")
    fam = []
    for seq in rrlib.gen_seqs(chk, rrlib.REP_OPS, 6 if thorough else 5, ["recv_drop"], "rep"):
        if "recv_drop" in seq or "recv_poll" in seq:
            scen += 1; fam.append(rrlib.rep_script(seq, scen))
    for s in fam: chk.case(("rep", s["scen"]))
    chk.sample({"kind": "REP sequence with drops", "ops": [o["op"] for o in fam[len(fam) // 2]["ops"]]})
    v = dlvlib.run_scripts(chk, fam, "c14-rep", monitor="TraceReqRep")
    dlvlib.report(chk, relabel(v), fam, ("C14/",), "rep-sequences", monitor="TraceReqRep")
    # fair queue level: behaviours with Cancel
    st = fqlib.run_fq(chk, ("C05/", "C06/"), nsim=1500 if thorough else 200, nstarve=10, nrand=600 if thorough else 150)
    chk.viol = [(("C14/" + c.replace("/", ":")) if not c.startswith("C14/") else c, d, r) for (c, d, r) in chk.viol]
