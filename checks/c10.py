"""C10 - round-robin senders deliver each message to exactly one peer, in rotation."""
import json, random
import vlib, sendlib, rrlib

def run(chk, replay=None):
    chk.rule = ("cases = every history of length D over {send, send a 70 KiB multi-frame message, a peer joins (every second one with 257-byte partial writes), the oldest peer's "
                "connection breaks} enumerated by TLC (GenSeq) and executed on real PUSH, DEALER and REQ sockets (REQ interleaved with scripted replies), plus seeded random schedules "
                "with joins at random times, partial writes and back-pressure released while the send is pending; the wire taps are inspected at the instant send returns; judged by TLC "
                "(TraceSend); the queue mechanism is model-checked for all join/vanish orders (RoundRobin); distinct = distinct scripts; non-trivial = contains a send")
    chk.assumptions = ["TLC and CommunityModules are correct", "rotation is judged only over stretches in which no peer joined or broke (as the statement says: stable set)"]
    thorough = chk.tier == "thorough"
    rng = random.Random(chk.seed)
    if replay:
        sc = json.load(open(replay))["replay"]["script"]
        if any(o.get("op", "").startswith("mt_") for o in sc.get("ops", [])):
            import netlib
            netlib.report(chk, netlib.run_net(chk, [sc], "c10-races", procs=1, monitor="TraceRace"), [sc], ("C10/",), "races")
            return
        sendlib.run_and_report(chk, [sc], "replay", ("C10/",))
        return
    for cfg, must in (("MC_RoundRobin_ok", True), ("MC_RoundRobin_push_front", False), ("MC_RoundRobin_push_twice", False), ("MC_RoundRobin_no_push_back", False),
                      ("MC_RoundRobin_dup_on_rejoin", False), ("MC_RoundRobin_pop_before_send", False)):
        r = vlib.tlc("RoundRobin", cfg + ".cfg", chk.wd, timeout=900, coverage=must)
        (chk.model_must_hold if must else chk.model_must_fail)(r, "RoundRobin " + cfg + (": window-of-n-distinct and joiner bound over all join / rejoin / supersede / vanish orders and abandoned sends, 3 identities, 6 sends" if must else " (the pinned tree's mechanism or a spec mutant: counterexample exists)"))
    seqs = rrlib.gen_seqs(chk, sendlib.RR_OPS, 7 if thorough else 6, [], "rr")
    scen = 0
    for t in ("PUSH", "DEALER", "REQ"):
        fam = []
        for seq in seqs:
            scen += 1; fam.append(sendlib.rr_script(seq, t, scen))
        for s in fam: chk.case(("rr", t, s["scen"]))
        chk.sample({"kind": "history (TLC-enumerated)", "sock": t, "ops": [o["op"] for o in fam[len(fam) // 2]["ops"]][:14]})
        sendlib.run_and_report(chk, fam, "c10-" + t, ("C10/",))
    seqs_id = [q for q in rrlib.gen_seqs(chk, sendlib.RR_OPS_ID, 8 if thorough else 7, ["cancel", "rejoin", "break"], "rrid") if ("rejoin" in q or "cancel" in q) and q.count("send") >= 3 and q[0] == "join"]
    for t in ("PUSH", "DEALER", "REQ"):
        fam = []
        for seq in seqs_id:
            scen += 1; fam.append(sendlib.rr_script(seq, t, scen, idents=True))
        for s in fam: chk.case(("rrid", t, s["scen"]))
        sendlib.run_and_report(chk, fam, "c10id-" + t, ("C10/",))
    shp = sendlib.shape_scripts(800000)
    for s in shp: chk.case(("shape", s["sock"], s["tag"]))
    sendlib.run_and_report(chk, shp, "c10-shapes", ("C10/",))
    import netlib
    races = netlib.race_scripts(rng, thorough, what=("rejoin",))
    for s in races: chk.case(("race", s["sock"], s["tag"], s["scen"]))
    rv = netlib.run_net(chk, races, "c10-races", procs=3, monitor="TraceRace")
    netlib.report(chk, rv, races, ("C10/",), "races")
    rnd = []
    for t in ("PUSH", "DEALER", "REQ"):
        for i in range(800 if thorough else 120):
            scen += 1; rnd.append(sendlib.random_rr(rng, t, scen))
    for s in rnd: chk.case(("rnd", json.dumps(s["ops"])[:1500]))
    sendlib.run_and_report(chk, rnd, "c10-rnd", ("C10/",))
