"""C04 - handshake admits exactly the well-formed, RFC-compatible peers."""
import json, os
import vlib

def run(chk, replay=None):
    chk.rule = ("cases = configuration cells (local type x peer Socket-Type incl. unknown/missing x version x mechanism x signature x identity x first item) "
                "enumerated by TLC from spec/HandshakeAbs.tla (quick: every cell that differs from nominal in at most two of the five non-type dimensions, all 9x14 "
                "type pairs; thorough: the full cross product), each presented to the real handshake by a scripted raw peer; plus all 12x12 compatibility queries; "
                "the verdict is recomputed by TLC from the logged cell (TraceHandshake); distinct = distinct cells; non-trivial = every cell")
    chk.assumptions = ["a connection whose handshake is still waiting after all bytes were delivered is hung up by the peer before the result is judged",
                       "TLC and CommunityModules are correct"]
    thorough = chk.tier == "thorough"
    if replay:
        cells = [json.load(open(replay))["replay"]["cell"]]
    else:
        cfg = os.path.join(vlib.SPEC, "MC_Handshake_run.cfg")
        open(cfg, "w").write('SPECIFICATION Spec\nCONSTANT Mode = "%s"\nINVARIANTS Sym Emit\nCHECK_DEADLOCK FALSE\n' % ("full" if thorough else "pairwise"))
        try:
            r = vlib.tlc("MC_Handshake", "MC_Handshake_run.cfg", chk.wd, timeout=2400, coverage=False, heap="8g")
        finally:
            os.remove(cfg)
        chk.model_must_hold(r, "MC_Handshake: compatibility table symmetric and total; grid enumerated")
        cells = vlib.tlc_printed(r["out"], "VEC")
        chk.exhaustive = True
    inp = os.path.join(chk.wd, "c04.in"); out = os.path.join(chk.wd, "c04.trace")
    vlib.write_ndjson(inp, cells)
    rc, o, dt = vlib.sh([vlib.ZV, "c04", "--in", inp, "--out", out], timeout=3000)
    if rc != 0:
        chk.violation("C04/abort", {"what": "handshake driver died", "out": o[-500:]}, {"cells": inp})
        return
    viols, consumed, total, info = vlib.tlc_trace("TraceHandshake", "TraceHandshake.cfg", out, chk.wd, timeout=2400, heap="8g")
    chk.states += info["distinct"]; chk.transitions += info["generated"]; chk.traces += len(cells)
    evs = vlib.read_ndjson(out)
    adm = sum(1 for e in evs if e["ev"] == "hs" and e["res"] == "ok")
    chk.notes["cells"] = len(cells); chk.notes["admitted"] = adm; chk.notes["rejected"] = len(cells) - adm
    chk.notes["stalled_until_hangup"] = sum(1 for e in evs if e.get("stalled"))
    for e in evs:
        chk.case(json.dumps(e.get("cell", [e.get("a"), e.get("b"), e["ev"]]), sort_keys=True))
    chk.sample({"kind": "cell", "event": evs[len(evs) // 2]})
    chk.sample({"kind": "cell (admitted)", "event": next((e for e in evs if e.get("res") == "ok"), None)})
    for scen, code, line in viols:
        e = evs[line - 1] if 0 < line <= len(evs) else {}
        chk.violation(code, {"event": e}, {"cell": {"cell": e.get("cell")} if e.get("cell") else None, "event": e})
