"""C20 - a stalled or malicious handshake never blocks other connections."""
import json, random
import vlib, netlib

FULL = 64 + 28          # greeting + shortest READY the scripted clients send

def scenario(stype, transport, offsets, kinds, scen):
    # the monitor is asked for before the bind, only after it, or before and again after it (the later stream replaces the earlier)
    mon = scen % 3
    ops = [{"op": "bind", "name": "a", "ep": netlib.ep(transport, "h%d" % scen)}] + ([{"op": "install_monitor"}] if mon else []) + [
           {"op": "client", "k": 1, "name": "a", "kind": "good"},              # before
           {"op": "sleep", "ms": 30}, {"op": "exchange", "k": 1}]
    nbad = 0
    for i, (off, kind) in enumerate(zip(offsets, kinds)):
        ops.append({"op": "client", "k": 10 + i, "name": "a", "kind": kind, "at": off})
        if kind == "close":
            nbad += 1
    ops += [{"op": "client", "k": 2, "name": "a", "kind": "good"},             # during
            {"op": "sleep", "ms": 30}, {"op": "exchange", "k": 1}, {"op": "exchange", "k": 2},
            {"op": "probe", "name": "a", "handshake": True},                   # after
            {"op": "monitor", "expect_failed": nbad},
            {"op": "exchange", "k": 1}]
    sc = {"scen": scen, "sock": stype, "ops": ops, "tag": "%s/%s@%s/mon%d" % (transport, "+".join(kinds), "+".join(map(str, offsets)), mon)}
    if mon == 1:
        sc["monitor_at"] = "later"
    return sc

def run(chk, replay=None):
    chk.rule = ("cases = on every bindable socket type over real TCP and IPC: 1-3 simultaneous raw clients that stop sending / close / switch to garbage at byte offset k of "
                "greeting+READY (quick: sampled offsets around every field boundary; thorough: every offset 0..=91) while a well-behaved client connected before keeps exchanging "
                "messages, another connects and exchanges during, and a third completes a handshake after; the monitor stream must carry one AcceptFailed per closed handshake; "
                "judged by TLC (TraceListener); that Accept never waits for a handshake is model-checked (Listener.AcceptNeverBlocked); distinct = distinct scenarios; non-trivial = all")
    chk.assumptions = ["TLC and CommunityModules are correct", "well-behaved clients must complete within 10 s", "a client that switches to garbage may be indistinguishable from a stalled one (a huge declared frame length): no AcceptFailed is demanded for it"]
    thorough = chk.tier == "thorough"
    rng = random.Random(chk.seed)
    if replay:
        sc = json.load(open(replay))["replay"]["script"]
        v = netlib.run_net(chk, [sc], "replay", procs=1)
        netlib.report(chk, v, [sc], ("C20/",), "replay")
        return
    for cfg, must in (("MC_Listener_ok", True), ("MC_Listener_accept_awaits_handshake", False)):
        r = vlib.tlc("Listener", cfg + ".cfg", chk.wd, timeout=600, coverage=must)
        (chk.model_must_hold if must else chk.model_must_fail)(r, "Listener " + cfg + (": AcceptNeverBlocked with up to 3 pending handshakes" if must else " (spec mutant: handshake awaited inside the accept loop)"))
    offsets = list(range(0, FULL)) if thorough else [0, 1, 9, 10, 11, 12, 31, 32, 63, 64, 65, 66, 70, 80, 91]
    fam, scen = [], 0
    i = 0
    for off in offsets:
        for kind in ("stall", "close", "garbage"):
            t = netlib.TYPES[i % len(netlib.TYPES)]; tr = ["tcp4", "ipc", "tcp6"][i % 3]; i += 1
            scen += 1; fam.append(scenario(t, tr, [off], [kind], scen))
    for _ in range(200 if thorough else 12):          # 2-3 simultaneous bad clients
        n = rng.randint(2, 3)
        scen += 1
        fam.append(scenario(rng.choice(netlib.TYPES), rng.choice(["tcp4", "tcp6", "ipc"]), [rng.randrange(FULL) for _ in range(n)], [rng.choice(["stall", "close", "garbage"]) for _ in range(n)], scen))
    # clients that abort (RST) faster than the accept loop picks them up: the listener must survive
    for t, tr in (("ROUTER", "tcp4"), ("PUB", "tcp6"), ("PULL", "tcp4"), ("REP", "tcp4")) + ((("DEALER", "tcp6"), ("XPUB", "tcp4"), ("SUB", "tcp4"), ("PUSH", "tcp6")) if thorough else ()):
        scen += 1
        ops = [{"op": "bind", "name": "a", "ep": netlib.ep(tr, "b%d" % scen)}, {"op": "client", "k": 1, "name": "a", "kind": "good"}]
        for j in range(4):
            ops += [{"op": "reset_burst", "name": "a", "n": 40}, {"op": "probe", "name": "a", "handshake": True}]
        ops += [{"op": "client", "k": 2, "name": "a", "kind": "good"}, {"op": "sleep", "ms": 30}, {"op": "exchange", "k": 1}, {"op": "exchange", "k": 2}]
        fam.append({"scen": scen, "sock": t, "ops": ops, "tag": "burst"})
    for s in fam: chk.case((s["sock"], s["tag"], s["scen"]))
    chk.sample({"kind": "scenario", "sock": fam[5]["sock"], "cell": fam[5]["tag"], "ops": [(o["op"], o.get("kind"), o.get("at")) for o in fam[5]["ops"]]})
    v = netlib.run_net(chk, fam, "c20", procs=8)
    netlib.report(chk, v, fam, ("C20/",), "offsets")
