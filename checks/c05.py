"""C05 - receive delivers each peer's messages exactly once, whole and in order."""
import json
import fqlib, dlvlib, vlib

def run(chk, replay=None):
    chk.rule = ("cases = (a) TLC -simulate behaviours of spec/GenFQ.tla, seeded starvation and random scripts replayed on the real fair queue; "
                "(b) every receive schedule of length D over {attach, attach+first message, send, half-send, finish, close, recv, poll, drop, quiescent} "
                "enumerated by TLC (spec/GenDelivery.tla) and seeded random schedules with multi-frame/boundary-size messages and random segmentation, "
                "executed on real PULL/SUB/DEALER/ROUTER/REP/XPUB sockets over in-memory pipes; (c) uncontrolled schedules: raw clients flooding each socket type over real TCP / IPC from their own tasks on a multi-threaded runtime; every recorded trace validated by TLC against the "
                "layer-A monitors; distinct = distinct scripts; non-trivial = contains a receiver poll")
    chk.assumptions = ["TLC and CommunityModules are correct", "harness pipes deliver bytes in order and wake the registered waker", "message payloads carry unique tags so attribution to a connection is unambiguous"]
    if replay:
        rp = json.load(open(replay))["replay"]
        if rp["kind"] == "fq":
            viols, st = fqlib.replay_one(chk, rp["script"])
            for scen, code, line in viols:
                if code.startswith("C05/"):
                    chk.violation(code, {"layer": "fair-queue", "trace_line": line}, rp)
        else:
            v = dlvlib.run_scripts(chk, [rp["script"]], "replay")
            dlvlib.report(chk, v, [rp["script"]], ("C05/",), "replay")
        return
    thorough = chk.tier == "thorough"
    fqlib.model_checks(chk, ("safety", "mutants") if not thorough else ("safety", "liveness", "mutants", "reach"))
    fqlib.run_fq(chk, ("C05/",), nsim=3000 if thorough else 300, nstarve=100 if thorough else 20, nrand=2000 if thorough else 300)
    dlvlib.socket_level(chk, ("C05/",), types=(["PULL", "ROUTER", "REP", "DEALER", "SUB", "XPUB"] if thorough else ["PULL", "ROUTER"]),
                        depth=6 if thorough else 5, nrand=1500 if thorough else 150)
    # exactly-once and per-peer order also while the runtime's cooperative budget refuses reads and the fair queue yields and asks again
    bg = dlvlib.budget_scripts(720000, budgets=(1, 2, 3) if thorough else (1, 3), backlog=(20, 40) if thorough else (20,))
    for s_ in bg: chk.case(("budget", s_["sock"], s_["tag"]))
    v = dlvlib.run_scripts(chk, bg, "c05-budget")
    dlvlib.report(chk, v, bg, ("C05/",), "cooperative budget")
    dlvlib.flood(chk, ("C05/",), nper=12 if thorough else 2, clients=6 if thorough else 4, msgs=300 if thorough else 60)
