"""C08 - REQ/REP lock-step: one outstanding request, reply goes to its requester."""
import json, random
import vlib, dlvlib, rrlib

def run(chk, replay=None):
    chk.rule = ("cases = every call/event sequence of length D over {send, recv, one poll of recv, drop, peer replies, unsolicited message, second peer joins} on a real "
                "REQ socket and over {request from client 1, request from client 2 (with routing prefix), malformed request, recv, poll, drop, send} on a real REP socket, "
                "enumerated by TLC (spec/GenSeq.tla), plus REQ sends abandoned under back-pressure after {0, 5, 100, 2000} bytes followed by {a second send, recv}, plus seeded random schedules of 1-4 lock-step clients against one REP with random segmentation; each trace judged by TLC "
                "against the lock-step / reply-routing monitor (TraceReqRep); the marker mechanisms are model-checked (ReqRep, RepSock); distinct = distinct scripts; non-trivial = all")
    chk.assumptions = ["TLC and CommunityModules are correct", "REQ behaviour after a malformed reply or a failed write is not judged (statement leaves it open)"]
    thorough = chk.tier == "thorough"
    rng = random.Random(chk.seed)
    if replay:
        sc = json.load(open(replay))["replay"]["script"]
        rrlib.run_and_report(chk, [sc], "replay", ("C08/",))
        return
    rrlib.model_checks(chk)
    depth = 6 if thorough else 5
    scen = 0
    fam = []
    for seq in rrlib.gen_seqs(chk, rrlib.REQ_OPS, depth, ["recv_drop", "attach2", "punsol"], "req"):
        scen += 1; fam.append(rrlib.req_script(seq, scen))
    chk.sample({"kind": "REQ call sequence (TLC-enumerated)", "ops": [o["op"] for o in fam[len(fam) // 2]["ops"]]})
    for s in fam: chk.case(("req", s["scen"]))
    rrlib.run_and_report(chk, fam, "c08-req", ("C08/",))
    fam = []
    for seq in rrlib.gen_seqs(chk, rrlib.REP_OPS, depth, ["recv_drop"], "rep"):
        scen += 1; fam.append(rrlib.rep_script(seq, scen))
    chk.sample({"kind": "REP event sequence (TLC-enumerated)", "ops": [o["op"] for o in fam[len(fam) // 3]["ops"]]})
    for s in fam: chk.case(("rep", s["scen"]))
    rrlib.run_and_report(chk, fam, "c08-rep", ("C08/",))
    ab = rrlib.req_abandoned_send_scripts(900000)
    for s in ab: chk.case(("abandoned-send", s["tag"]))
    rrlib.run_and_report(chk, ab, "c08-abandoned", ("C08/", "C07/req-wire"))
    rnd = rrlib.random_rep_scripts(rng, 1500 if thorough else 200, scen + 1)
    for s in rnd: chk.case(("rnd", json.dumps(s["ops"])[:1500]))
    rrlib.run_and_report(chk, rnd, "c08-rnd", ("C08/",))
