"""C13 - a SUB socket's subscriptions reach every peer, including late joiners."""
import json, random
import vlib, pslib, rrlib

def run(chk, replay=None):
    chk.rule = ("cases = every history of length D over {subscribe a/b, unsubscribe a/b, a peer joins, a peer joins and is held between the socket reading its subscription set and "
                "registering the peer while the next call runs, the first peer's connection fails, quiescent check} enumerated by TLC (GenSeq) and executed on a real SUB socket with "
                "scripted publisher peers (join window controlled through the named yield point), plus seeded random histories with repeated / never-subscribed topics; at every "
                "quiescent point TLC folds what each peer was told with the publisher's counting rule and compares with the socket's set (TracePubSub); the multi-step algorithm is "
                "model-checked (SubSync); distinct = distinct scripts; non-trivial = contains a subscribe or unsubscribe")
    chk.assumptions = ["TLC and CommunityModules are correct", "the join window is entered through the verif-hooks yield point sub.join.after_snapshot (no-op without a controller)"]
    thorough = chk.tier == "thorough"
    rng = random.Random(chk.seed)
    if replay:
        sc = json.load(open(replay))["replay"]["script"]
        pslib.run_and_report(chk, [sc], "replay", ("C13/",))
        return
    for cfg, must in (("MC_SubSync_ok", True), ("MC_SubSync_join_snapshot_then_register", False), ("MC_SubSync_resend_on_duplicate", False), ("MC_SubSync_abort_on_first_error", False)):
        r = vlib.tlc("SubSync", cfg + ".cfg", chk.wd, timeout=900, coverage=must)
        (chk.model_must_hold if must else chk.model_must_fail)(r, "SubSync " + cfg + (": all interleavings of 4 calls, 2 joining peers, 1 failure; every quiescent state has all peers agreeing with the set" if must else " (deviation: counterexample exists)"))
    scen, fam = 0, []
    for seq in rrlib.gen_seqs(chk, pslib.SUBSYNC_OPS, 6 if thorough else 5, ["check", "fail1"], "subsync"):
        scen += 1; fam.append(pslib.c13_script(seq, scen))
    for seq in rrlib.gen_seqs(chk, pslib.SUBSYNC_REJOIN_OPS, 6 if thorough else 5, ["check", "rejoin1"], "subrejoin"):
        if "rejoin1" in seq:
            scen += 1; fam.append(pslib.c13_script(seq, scen))
    for i in range(3000 if thorough else 400):
        scen += 1; fam.append(pslib.random_c13(rng, scen))
    for s in fam: chk.case(json.dumps(s["ops"])[:2000], nontrivial=any(o["op"] in ("sub", "unsub") for o in s["ops"]))
    chk.sample({"kind": "history", "ops": [(o["op"], o.get("t", o.get("c"))) for o in fam[len(fam) // 2]["ops"]]})
    pslib.run_and_report(chk, fam, "c13", ("C13/",))
