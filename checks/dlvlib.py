"""Socket-level receive-side conformance shared by C05, C06, C14: schedules (TLC-enumerated via GenDelivery and
seeded random) executed by the script engine on real sockets; traces validated by TLC against TraceDelivery."""
import json, os, random, re
import vlib, scripts as S


def gen_exhaustive(chk, depth, conns="{1, 2}", maxmsgs=2):
    cfg = os.path.join(vlib.SPEC, "GenDelivery_run.cfg")
    open(cfg, "w").write("SPECIFICATION Spec\nCONSTANTS\n Conns = %s\n MaxMsgs = %d\n Depth = %d\nINVARIANT Emit\nCHECK_DEADLOCK FALSE\n" % (conns, maxmsgs, depth))
    try:
        r = vlib.tlc("GenDelivery", "GenDelivery_run.cfg", chk.wd, timeout=1800, coverage=False, heap="8g")
    finally:
        os.remove(cfg)
    chk.add_tlc(r, "GenDelivery: all receive schedules of length %d (%s connections, %d messages each)" % (depth, conns, maxmsgs))
    return vlib.tlc_printed(r["out"], "SCRIPT")


def msg_for(stype, c, n):
    tag = "c%dm%d" % (c, n)
    body = [tag.encode()] if n % 2 else [b"f1" + tag.encode(), b"", (tag.encode() + b"." * 300)[:300]]
    if c == 2 and n == 1:
        body = [tag.encode(), b""]          # zero-length last frame
    if stype == "REP":
        body = [b""] + body
    if stype == "XPUB":
        body = [b"\x01" + tag.encode()]
    return [S.hx(f) for f in body]


def concretize(hist, stype, scen):
    ops, total = [], 0
    for h in hist:
        o = h["op"]
        if o == "attach":
            op = {"op": "attach", "c": h["c"], "ptype": S.PEER_OF[stype][0]}
            if h.get("first"):
                op["first"] = msg_for(stype, h["c"], 1); total += 1
            ops.append(op)
        elif o == "psend":
            ops.append({"op": "psend", "c": h["c"], "m": msg_for(stype, h["c"], h["n"])}); total += 1
        elif o == "pbegin":
            ops.append({"op": "pbegin", "c": h["c"], "m": msg_for(stype, h["c"], h["n"]), "upto": 500}); total += 1
        elif o == "pfinish":
            ops.append({"op": "pfinish", "c": h["c"]})
        elif o == "pclose":
            ops.append({"op": "pclose", "c": h["c"]})
        else:
            ops.append({"op": o})
    ops.append({"op": "recv_drop"})
    ops += [{"op": "recv"}] * (total + 1)
    ops += [{"op": "quiescent"}, {"op": "recv_drop"}]
    return {"scen": scen, "sock": stype, "ops": ops}


IGNORED = {"TraceDelivery": {"observed", "peer_part", "attach_call", "attach_pending", "wire", "released", "recv_call", "recv_pending", "recv_dropped", "send_call",
                             "send_ret", "send_pending", "send_dropped", "sub_call", "sub_ret", "sub_pending", "sub_dropped", "pipe", "end"}}


def run_scripts(chk, scripts, label, monitor="TraceDelivery", env=None):
    """Execute scripts on real sockets and validate the trace. Returns list of (scen, code, line)."""
    inp = os.path.join(chk.wd, "%s.in" % label)
    out = os.path.join(chk.wd, "%s.trace" % label)
    # every third scenario runs over pipes with hostile-but-legal readiness (a poll may answer Pending after waking its own
    # waker; a waker registered earlier may be woken again later): observable behaviour must not depend on it
    if os.environ.get("VERIF_NO_JITTER") != "1":
        for s in scripts:
            if "jitter" not in s and isinstance(s.get("scen"), int) and s["scen"] % 3 == 1 and not s.get("nojitter"):
                s["jitter"] = 1 + (s["scen"] * 2654435761 + chk.seed) % (1 << 31)
    # the engine process may die (abort / stack overflow in the code under test) or be blocked for good (exit 3 from its watchdog):
    # both are data, attributed to the scenario that was running; the remaining scenarios are run in a fresh process
    todo, part, dt, k = list(scripts), 0, 0.0, 0
    hangs = []
    with open(out, "w") as allout:
        while todo:
            part += 1
            pin, pout = inp + ".%d" % part, out + ".%d" % part
            vlib.write_ndjson(pin, todo)
            rc, o, d = vlib.sh([vlib.ZV, "run", "--in", pin, "--out", pout], timeout=1800)
            dt += d
            done = open(pout).read() if os.path.exists(pout) else ""
            allout.write(done)
            if rc == 0:
                break
            ndone = done.count('"ev":"end"')
            bad = todo[ndone] if ndone < len(todo) else todo[-1]
            hangs.append((bad, "hang" if rc == 3 else "abort", o[-300:]))
            todo = todo[ndone + 1:]
            if len(hangs) > 6:
                break
    # the driver could not do what a script asked for: that is a defect of the script generator or the driver, never a verdict
    herr = [l for l in open(out) if '"ev":"harness_error"' in l]
    if herr:
        raise vlib.ToolError("%s: %d harness_error event(s) in the trace, e.g. %s" % (label, len(herr), herr[0][:300]))
    for bad, kind, tail in hangs:
        chk.violation("%s/process-%s" % (chk.pid, kind), {"what": "the process running the scenarios %s while executing this scenario" % ("blocked for good (no progress for 10 s)" if kind == "hang" else "died"),
                                                          "sock": bad.get("sock"), "scenario": bad.get("scen"), "tail": tail}, {"kind": "engine", "script": bad, "monitor": monitor})
    if hangs:
        # renumber the concatenated trace
        rows = [json.loads(x) for x in open(out) if x.strip()]
        for i, r in enumerate(rows):
            r["i"] = i + 1
        vlib.write_ndjson(out, rows)
    # events the monitor declares irrelevant (its Ignored set) are filtered out before TLC reads the file; "line" in a
    # violation report refers to the filtered file, which is kept next to the full trace
    ign = IGNORED.get(monitor, set())
    if ign:
        flt = out + ".flt"
        with open(out) as f, open(flt, "w") as g:
            for line in f:
                m = re.search(r'"ev":"([a-z_]+)"', line)
                if not (m and m.group(1) in ign):
                    g.write(line)
        out = flt
    viols, consumed, total, info = vlib.tlc_trace(monitor, monitor + ".cfg", out, chk.wd, env=env, timeout=1800)
    chk.traces += len(scripts)
    chk.states += info["distinct"]
    chk.transitions += info["generated"]
    chk.notes.setdefault("trace_validation", []).append({"family": label, "scenarios": len(scripts), "events": total, "monitor": monitor,
                                                         "engine_s": round(dt, 1), "tlc_s": round(info["wall_s"], 1)})
    return viols


def report(chk, viols, scripts, prefixes, family, relabel=None, monitor=None):
    byscen = {s["scen"]: s for s in scripts}
    other = set()
    for scen, code, line in viols:
        if any(code.startswith(p) for p in prefixes):
            sc = byscen.get(scen)
            if relabel:
                code = relabel + code.replace("/", ":")
            chk.violation(code, {"layer": "socket", "family": family, "scenario": scen, "sock": sc and sc["sock"], "trace_line": line},
                          {"kind": "engine", "script": sc, "monitor": monitor})
        else:
            other.add(code)
    if other:
        chk.notes.setdefault("codes_owned_by_other_properties", [])
        chk.notes["codes_owned_by_other_properties"] = sorted(set(chk.notes["codes_owned_by_other_properties"]) | other)


def socket_level(chk, prefixes, types, depth, nrand, drops=True, faults=True):
    rng = random.Random(chk.seed * 7919 + 13)
    hists = gen_exhaustive(chk, depth)
    scen = 0
    for t in types:
        scripts = []
        for h in hists:
            scen += 1
            scripts.append(concretize(h, t, scen))
        if scripts:
            chk.sample({"kind": "socket-schedule (TLC-enumerated)", "sock": t, "ops": scripts[len(scripts) // 2]["ops"][:10]})
        for s in scripts:
            chk.case(("ex", t, s["scen"]))
        v = run_scripts(chk, scripts, "dlv-ex-" + t)
        report(chk, v, scripts, prefixes, "exhaustive-depth-%d" % depth)
    for t in S.RECV_TYPES:
        scripts = []
        for i in range(nrand):
            scen += 1
            scripts.append(S.delivery_script(rng, t, scen, drops=drops, faults=faults))
        chk.sample({"kind": "socket-schedule (seeded random)", "sock": t, "ops": [dict((k, (v if k != "m" and k != "first" else "...")) for k, v in o.items()) for o in scripts[0]["ops"][:12]]})
        for s in scripts:
            chk.case(("rnd", t, json.dumps(s["ops"])[:2000]))
        v = run_scripts(chk, scripts, "dlv-rnd-" + t)
        report(chk, v, scripts, prefixes, "random")


def budget_scripts(scen0, budgets=(1, 2, 3), backlog=(20, 40)):
    """C06, second half, under a runtime's cooperative budget (what tokio does): the receiving task gets k transport reads per poll
    of the task; further reads answer Pending without looking and are woken only after the task has given control back.  One peer
    has a backlog that a single read brought into the library's buffer (delivering it needs no read), the others have one message
    each that needs a read.  The application calls recv back to back; a recv that finds a buffered message returns at once, so the
    task never yields by itself.  The ready peers must still be served within the bound."""
    out, scen = [], scen0
    for t in ("PULL", "DEALER", "ROUTER", "XPUB"):
        for k in budgets:
            for big in backlog:
                scen += 1
                ptype = S.PEER_OF[t][0]
                ops = [{"op": "attach", "c": c, "ptype": ptype} for c in (1, 2, 3)] + [{"op": "settle"}, {"op": "budget", "k": k}]
                def m(c, i):
                    tag = ("b%dc%dm%d" % (scen, c, i)).encode()
                    return [S.hx(b"\x01" + tag)] if t == "XPUB" else [S.hx(tag)]
                ops.append({"op": "pburst", "c": 1, "ms": [m(1, i) for i in range(big)]})
                ops += [{"op": "psend", "c": 2, "m": m(2, 1)}, {"op": "psend", "c": 3, "m": m(3, 1)}]
                ops += [{"op": "recv"}] * (big + 2) + [{"op": "quiescent"}, {"op": "recv_drop"}, {"op": "budget"}]
                out.append({"scen": scen, "sock": t, "ops": ops, "tag": "budget/%d/%d" % (k, big), "nojitter": True})
    return out


def burst_scripts(rng, nper, scen0):
    """C06, second half, on real sockets: one peer has a long backlog, the others a few messages, everything readable before the
    receiver starts; half of the scenarios over pipes with hostile-but-legal readiness (late wake-ups of old wakers, self-waking
    Pending).  The monitor counts how many deliveries of others each ready peer has to wait for."""
    out, scen = [], scen0
    for t in ("PULL", "SUB", "DEALER", "ROUTER", "XPUB"):
        for i in range(nper):
            scen += 1
            n = rng.randint(2, 4)
            ops = [{"op": "attach", "c": c, "ptype": S.PEER_OF[t][0]} for c in range(1, n + 1)]
            k = {c: 0 for c in range(1, n + 1)}
            def say(c):
                k[c] += 1
                tag = ("c%dm%d" % (c, k[c])).encode()
                body = [b"\x01" + tag] if t == "XPUB" else [tag] if k[c] % 3 else [tag, b"", b"y" * 300]
                return {"op": "psend", "c": c, "m": [S.hx(f) for f in body]}
            busy = rng.randint(1, n)
            hist = rng.randint(0, 40)
            for _ in range(hist):                   # history: the busy peer alone, each message received at once
                ops += [say(busy), {"op": "recv"}]
            burst = rng.randint(30, 80)
            for _ in range(burst):
                ops.append(say(busy))
            few = 0
            for c in range(1, n + 1):
                if c != busy:
                    for _ in range(rng.randint(1, 4)):
                        ops.append(say(c)); few += 1
            if rng.random() < 0.5:
                ops.append({"op": "settle"})
            ops += [{"op": "recv"}] * (burst + few) + [{"op": "quiescent"}, {"op": "recv_drop"}]
            sc = {"scen": scen, "sock": t, "ops": ops, "tag": "burst"}
            if i % 2 == 0:
                sc["jitter"] = 1 + rng.randrange(1 << 30)
            else:
                sc["nojitter"] = True
            out.append(sc)
    return out


def flood(chk, prefixes, nper, clients, msgs):
    """uncontrolled schedules: raw TCP / IPC clients flood a real socket from their own tasks on the multi-threaded runtime;
    the recorded global order is validated against TraceDelivery like every other trace"""
    import subprocess, shutil
    rng = random.Random(chk.seed * 31 + 7)
    scripts, scen = [], 900000
    for t in S.RECV_TYPES:
        for i in range(nper):
            scen += 1
            ep = "tcp://127.0.0.1:0" if (i + len(t)) % 2 else "ipc://$DIR/f%d.sock" % scen
            scripts.append({"scen": scen, "sock": t, "ops": [{"op": "bind", "name": "a", "ep": ep},
                                                             {"op": "mt_flood", "name": "a", "clients": rng.randint(2, clients), "msgs": rng.randint(msgs // 2, msgs), "seed": rng.randrange(1 << 30)}]})
    # backlog: big messages written without pause, the application starts late and calls recv back to back from the main
    # future of block_on - the receive loop is ready hundreds of times in a row (it never parks, the runtime's cooperative
    # budget runs out in the middle of the fair queue's poll loop)
    for t in ("PULL", "ROUTER", "SUB") if nper > 2 else ("PULL", "DEALER"):
        scen += 1
        scripts.append({"scen": scen, "sock": t, "tag": "backlog", "ops": [{"op": "bind", "name": "a", "ep": "tcp://127.0.0.1:0"},
                                                       {"op": "mt_flood", "name": "a", "clients": 2, "msgs": 150 if nper > 2 else 100, "seed": rng.randrange(1 << 30), "backlog": True}]})
    inp = os.path.join(chk.wd, "flood.in"); out = os.path.join(chk.wd, "flood.trace")
    ipcdir = os.path.join(vlib.WORK, "ipc-flood-%d" % os.getpid())
    shutil.rmtree(ipcdir, ignore_errors=True); os.makedirs(ipcdir)
    vlib.write_ndjson(inp, scripts)
    rc, o, dt = vlib.sh([vlib.ZV, "net", "--in", inp, "--out", out, "--dir", ipcdir], timeout=3000)
    shutil.rmtree(ipcdir, ignore_errors=True)
    if rc != 0:
        done = sum(1 for r in (vlib.read_ndjson(out) if os.path.exists(out) else []) if r["ev"] == "end")
        bad = scripts[done] if done < len(scripts) else scripts[-1]
        if rc == 3:
            chk.violation("C06/recv-never-returns-under-backlog", {"what": "a recv call on a socket with complete messages available neither returned nor let the runtime run anything else for 40 s (the task spins inside the library)",
                                                                  "sock": bad["sock"], "scenario": bad["scen"], "tail": o[-200:]}, {"kind": "net", "script": bad})
        else:
            chk.violation("%s/process-abort" % chk.pid, {"what": "the flood driver died", "sock": bad["sock"], "tail": o[-300:]}, {"kind": "net", "script": bad})
        return
    rows = [r for r in vlib.read_ndjson(out) if r["ev"] in ("reset", "attach_ret", "peer_wrote", "recv_ret", "quiescent", "panic")]
    flt = out + ".flt"
    vlib.write_ndjson(flt, rows)
    viols, consumed, total, info = vlib.tlc_trace("TraceDelivery", "TraceDelivery.cfg", flt, chk.wd, timeout=3000)
    chk.traces += len(scripts); chk.states += info["distinct"]; chk.transitions += info["generated"]
    for s in scripts:
        chk.case(("flood", s["sock"], s["scen"]))
    chk.notes.setdefault("trace_validation", []).append({"family": "multi-threaded flood over real TCP/IPC", "scenarios": len(scripts), "events": total, "monitor": "TraceDelivery", "driver_s": round(dt, 1)})
    byscen = {s["scen"]: s for s in scripts}
    for scen, code, line in viols:
        if any(code.startswith(p) for p in prefixes):
            sc = byscen.get(scen)
            chk.violation(code, {"layer": "real-transport, multi-threaded", "family": "flood", "scenario": scen, "sock": sc and sc["sock"], "trace_line": line}, {"kind": "net", "script": sc})
