"""C17 - closing or dropping a socket stops its listeners and disconnects all peers."""
import json, random
import vlib, netlib, dlvlib, scripts as S

PREFIXES = ["bound-only", "accepted", "connected-out", "mid-traffic", "pending-handshake"]

def cell(stype, transport, prefix, how, scen):
    ops = [{"op": "bind", "name": "a", "ep": netlib.ep(transport, "c%d" % scen)}]
    eofs = []
    if prefix in ("accepted", "mid-traffic"):
        ops.append({"op": "client", "k": 1, "name": "a", "kind": "good"}); eofs.append(1)
        if prefix == "mid-traffic":
            ops += [{"op": "client", "k": 4, "name": "a", "kind": "good"}, {"op": "sleep", "ms": 50}, {"op": "exchange", "k": 1}, {"op": "exchange", "k": 4}]; eofs.append(4)
    if prefix == "connected-out":
        ops += [{"op": "serve", "name": "s"}, {"op": "connect_out", "name": "s", "k": 2}]; eofs.append(2)
    if prefix == "pending-handshake":
        ops += [{"op": "client", "k": 1, "name": "a", "kind": "good"}, {"op": "client", "k": 3, "name": "a", "kind": "stall", "at": 10}]; eofs += [1, 3]
    ops.append({"op": how})
    settle = how in ("drop", "close_abandoned")
    ops.append({"op": "probe_settle" if settle else "probe", "name": "a"})
    if transport == "ipc":
        ops.append({"op": "ipc_exists", "name": "a", "settle": settle})
    for k in eofs:
        ops.append({"op": "check_eof", "k": k})
    ops += [{"op": "tasks"}, {"op": "fds"}]
    sc = {"scen": scen, "sock": stype, "ops": ops, "tag": "%s/%s/%s" % (transport, prefix, how)}
    if how == "close_abandoned":
        sc["rt"] = "current"
    return sc

DROP_STATES = ["no-peers", "idle-peers", "unread-input", "half-message", "recv-abandoned", "send-abandoned", "recv-and-send-abandoned", "peer-eof-unobserved", "mid-traffic",
               "late-registration", "late-registration-with-peers", "late-registration-peer-gone"]

def drop_script(t, state, how, scen):
    """in-memory: the socket is dropped / closed in `state`; afterwards every connection ever handed to it must be released"""
    ptype = S.PEER_OF[t][0]
    recvs = t in S.RECV_TYPES
    def att(c): return {"op": "attach", "c": c, "ptype": ptype}
    def sub(c): return [{"op": "psend", "c": c, "m": [S.hx(b"\x01")]}] if t in ("PUB", "XPUB") else []
    def out(i):
        if t == "ROUTER": return [{"op": "send_to", "c": 1, "m": [S.hx("o%d" % i)]}]
        if t in ("DEALER", "PUSH", "PUB", "XPUB", "REQ"): return [{"op": "send", "m": [S.hx("o%d" % i)]}]
        return []
    ops, after = [], []
    if state == "idle-peers":
        ops += [att(1), att(2)] + sub(1) + [{"op": "settle"}]
    elif state == "unread-input":
        ops += [att(1), att(2)]
        for c in (1, 2):
            for n in (1, 2):
                ops.append({"op": "psend", "c": c, "m": dlvlib.msg_for(t, c, n) if recvs else [S.hx(b"\x01x")]})
        ops.append({"op": "settle"})
    elif state == "half-message":
        ops += [att(1), att(2), {"op": "pbegin", "c": 1, "m": dlvlib.msg_for(t, 1, 2) if recvs else [S.hx(b"\x01" + b"y" * 300)], "upto": 500}, {"op": "settle"}]
    elif state == "recv-abandoned":
        ops += [att(1), att(2)] + ([{"op": "recv_poll"}, {"op": "recv_drop"}] if recvs else [])
    elif state in ("send-abandoned", "recv-and-send-abandoned"):
        ops += [att(1), att(2)] + sub(1) + sub(2) + [{"op": "settle"}]
        if state == "recv-and-send-abandoned" and recvs:
            ops += [{"op": "recv_poll"}, {"op": "recv_drop"}]          # every stream has been polled: its waker is registered with the pipe
        ops += [{"op": "credit", "c": 1, "k": 0}, {"op": "credit", "c": 2, "k": 0}]
        for o in out(1):
            ops += [dict(o, op=o["op"], m=[S.hx(b"Z" * 20000)]), {"op": "call_poll"}, {"op": "call_drop"}]   # blocked on back-pressure, then abandoned
    elif state == "peer-eof-unobserved":
        ops += [att(1), att(2), {"op": "pclose", "c": 1}]
    elif state == "mid-traffic":
        ops += [att(1), att(2)] + sub(1) + sub(2) + [{"op": "settle"}]
        if recvs and t != "REQ":
            ops += [{"op": "psend", "c": 1, "m": dlvlib.msg_for(t, 1, 1)}, {"op": "recv"}, {"op": "recv_drop"}, {"op": "psend", "c": 2, "m": dlvlib.msg_for(t, 2, 2)}]
        if t == "REP":
            ops += [{"op": "send", "m": [S.hx("reply")]}]
        ops += out(1) + ([{"op": "call_drop"}] if out(1) else [])
    elif state.startswith("late-registration"):
        if state != "late-registration":
            ops += [att(1)] + sub(1) + [{"op": "settle"}]
        # the handshake of connection 2 has exchanged READY in both directions, but has not yet registered the peer
        ops += [{"op": "gate_hold", "name": "handshake.before_register"}, att(2)]
        if state == "late-registration-peer-gone":
            after.append({"op": "pclose", "c": 2})
        after += [{"op": "gate_release"}, {"op": "settle"}]
    ops.append({"op": "drop_socket", "how": how, "state": state})
    return {"scen": scen, "sock": t, "ops": ops + after, "tag": "%s/%s" % (state, how)}

def run(chk, replay=None):
    chk.rule = ("cases = cells of the grid {9 socket types} x {TCP v4, TCP v6, IPC} x {bound only, bound + accepted peer, connected out, mid-traffic with two peers, pending "
                "handshake} x {close(), drop} on the real runtime with real sockets (quick: every type x transport once with prefix and close/drop cycling, plus every prefix x close/drop "
                "for two types; thorough: all 270 cells); after close the driver probes at once, after drop it polls up to 10 s; every connected raw peer must read end-of-stream, "
                "the alive-task count and the descriptor count must return to their baselines; judged by TLC (TraceListener); the listener mechanism is model-checked (Listener); "
                "distinct = distinct cells; non-trivial = all")
    chk.assumptions = ["TLC and CommunityModules are correct", "'shortly afterwards' = within 10 s", "loopback TCP and Unix sockets of this host; tokio runtime metrics for the task count, /proc/self/fd for descriptors"]
    thorough = chk.tier == "thorough"
    if replay:
        sc = json.load(open(replay))["replay"]["script"]
        if json.load(open(replay))["replay"].get("kind") == "engine":
            v = dlvlib.run_scripts(chk, [sc], "replay", monitor="TraceDrop")
            dlvlib.report(chk, v, [sc], ("C17/",), "replay", monitor="TraceDrop")
            return
        v = netlib.run_net(chk, [sc], "replay", procs=1)
        netlib.report(chk, v, [sc], ("C17/",), "replay")
        return
    for cfg, must in (("MC_Listener_ok", True), ("MC_Listener_close_keeps_peers", False), ("MC_Listener_pending_handshake_outlives_socket", False)):
        r = vlib.tlc("Listener", cfg + ".cfg", chk.wd, timeout=600, coverage=must)
        (chk.model_must_hold if must else chk.model_must_fail)(r, "Listener " + cfg + (": after Close nothing listens, no peer, no task, no pending handshake" if must else " (deviation: counterexample exists)"))
    # in-memory half: drop / close in every state of the history, deterministic (late registration is a gate, not a race)
    dfam, scen = [], 500000
    for t in netlib.TYPES:
        for st in DROP_STATES:
            for how in ("drop", "close"):
                scen += 1; dfam.append(drop_script(t, st, how, scen))
    for s in dfam: chk.case((s["sock"], "in-memory", s["tag"]))
    chk.sample({"kind": "in-memory drop cell", "sock": dfam[-3]["sock"], "cell": dfam[-3]["tag"], "ops": [o["op"] for o in dfam[-3]["ops"]]})
    v = dlvlib.run_scripts(chk, dfam, "c17-drop", monitor="TraceDrop")
    dlvlib.report(chk, v, dfam, ("C17/",), "in-memory-drop", monitor="TraceDrop")
    fam, scen = [], 0
    transports = ["tcp4", "tcp6", "ipc"]
    if thorough:
        for t in netlib.TYPES:
            for tr in transports:
                for p in PREFIXES:
                    for how in ("close", "drop", "close_abandoned"):
                        scen += 1; fam.append(cell(t, tr, p, how, scen))
        chk.exhaustive = True
    else:
        i = 0
        for t in netlib.TYPES:
            for tr in transports:
                p = PREFIXES[i % 4]            # the pending-handshake prefix (known finding, waits the full bound) is covered by the dedicated cells below
                scen += 1; fam.append(cell(t, tr, p, "close" if i % 2 else "drop", scen)); i += 1
        for t, tr in (("ROUTER", "tcp4"), ("PUB", "ipc")):
            for p in PREFIXES:
                for how in ("close", "drop"):
                    scen += 1; fam.append(cell(t, tr, p, how, scen))
        # close() abandoned after its first poll, on a single-threaded runtime
        for t, tr, p in (("PULL", "ipc", "bound-only"), ("DEALER", "ipc", "accepted"), ("REP", "tcp4", "accepted"), ("PUB", "ipc", "mid-traffic"), ("ROUTER", "ipc", "connected-out")):
            scen += 1; fam.append(cell(t, tr, p, "close_abandoned", scen))
    # close() / unbind report each failure they meet: the endpoint's socket file was replaced by a directory, its removal must fail
    for t in (netlib.TYPES if thorough else ["PULL", "ROUTER", "PUB"]):
        for how in ("close", "unbind"):
            scen += 1
            ops = [{"op": "bind", "name": "a", "ep": netlib.ep("ipc", "s%d" % scen)}, {"op": "bind", "name": "b", "ep": netlib.ep("ipc", "t%d" % scen)},
                   {"op": "client", "k": 1, "name": "a", "kind": "good"}, {"op": "ipc_sabotage", "name": "a"}]
            ops += [{"op": "unbind", "name": "a"}, {"op": "probe", "name": "a"}, {"op": "close"}] if how == "unbind" else [{"op": "close"}]
            ops += [{"op": "probe", "name": "a"}, {"op": "probe", "name": "b"}, {"op": "ipc_exists", "name": "b"}, {"op": "check_eof", "k": 1}, {"op": "tasks"}, {"op": "fds"}]
            fam.append({"scen": scen, "sock": t, "ops": ops, "tag": "ipc/removal-fails/" + how})
    for s in fam: chk.case((s["sock"], s["tag"]))
    chk.sample({"kind": "cell", "sock": fam[3]["sock"], "cell": fam[3]["tag"], "ops": [o["op"] for o in fam[3]["ops"]]})
    v = netlib.run_net(chk, fam, "c17", procs=8)
    netlib.report(chk, v, fam, ("C17/", "C16/fd-leak"), "grid")
