"""C17 - closing or dropping a socket stops its listeners and disconnects all peers."""
import json, random
import vlib, netlib

PREFIXES = ["bound-only", "accepted", "connected-out", "mid-traffic", "pending-handshake"]

def cell(stype, transport, prefix, how, scen):
    ops = [{"op": "bind", "name": "a", "ep": netlib.ep(transport, "c%d" % scen)}]
    eofs = []
    if prefix in ("accepted", "mid-traffic"):
        ops.append({"op": "client", "k": 1, "name": "a", "kind": "good"}); eofs.append(1)
        if prefix == "mid-traffic":
            ops += [{"op": "client", "k": 4, "name": "a", "kind": "good"}, {"op": "sleep", "ms": 50}, {"op": "exchange", "k": 1}, {"op": "exchange", "k": 4}]; eofs.append(4)
    if prefix == "connected-out":
        ops += [{"op": "serve", "name": "s"}, {"op": "connect_out", "name": "s", "k": 2}]; eofs.append(2)
    if prefix == "pending-handshake":
        ops += [{"op": "client", "k": 1, "name": "a", "kind": "good"}, {"op": "client", "k": 3, "name": "a", "kind": "stall", "at": 10}]; eofs += [1, 3]
    ops.append({"op": how})
    settle = how == "drop"
    ops.append({"op": "probe_settle" if settle else "probe", "name": "a"})
    if transport == "ipc":
        ops.append({"op": "ipc_exists", "name": "a", "settle": settle})
    for k in eofs:
        ops.append({"op": "check_eof", "k": k})
    ops += [{"op": "tasks"}, {"op": "fds"}]
    return {"scen": scen, "sock": stype, "ops": ops, "tag": "%s/%s/%s" % (transport, prefix, how)}

def run(chk, replay=None):
    chk.rule = ("cases = cells of the grid {9 socket types} x {TCP v4, TCP v6, IPC} x {bound only, bound + accepted peer, connected out, mid-traffic with two peers, pending "
                "handshake} x {close(), drop} on the real runtime with real sockets (quick: every type x transport once with prefix and close/drop cycling, plus every prefix x close/drop "
                "for two types; thorough: all 270 cells); after close the driver probes at once, after drop it polls up to 10 s; every connected raw peer must read end-of-stream, "
                "the alive-task count and the descriptor count must return to their baselines; judged by TLC (TraceListener); the listener mechanism is model-checked (Listener); "
                "distinct = distinct cells; non-trivial = all")
    chk.assumptions = ["TLC and CommunityModules are correct", "'shortly afterwards' = within 10 s", "loopback TCP and Unix sockets of this host; tokio runtime metrics for the task count, /proc/self/fd for descriptors"]
    thorough = chk.tier == "thorough"
    if replay:
        sc = json.load(open(replay))["replay"]["script"]
        v = netlib.run_net(chk, [sc], "replay", procs=1)
        netlib.report(chk, v, [sc], ("C17/",), "replay")
        return
    for cfg, must in (("MC_Listener_ok", True), ("MC_Listener_close_keeps_peers", False), ("MC_Listener_pending_handshake_outlives_socket", False)):
        r = vlib.tlc("Listener", cfg + ".cfg", chk.wd, timeout=600, coverage=must)
        (chk.model_must_hold if must else chk.model_must_fail)(r, "Listener " + cfg + (": after Close nothing listens, no peer, no task, no pending handshake" if must else " (deviation: counterexample exists)"))
    fam, scen = [], 0
    transports = ["tcp4", "tcp6", "ipc"]
    if thorough:
        for t in netlib.TYPES:
            for tr in transports:
                for p in PREFIXES:
                    for how in ("close", "drop"):
                        scen += 1; fam.append(cell(t, tr, p, how, scen))
        chk.exhaustive = True
    else:
        i = 0
        for t in netlib.TYPES:
            for tr in transports:
                p = PREFIXES[i % 4]            # the pending-handshake prefix (known finding, waits the full bound) is covered by the dedicated cells below
                scen += 1; fam.append(cell(t, tr, p, "close" if i % 2 else "drop", scen)); i += 1
        for t, tr in (("ROUTER", "tcp4"), ("PUB", "ipc")):
            for p in PREFIXES:
                for how in ("close", "drop"):
                    scen += 1; fam.append(cell(t, tr, p, how, scen))
    for s in fam: chk.case((s["sock"], s["tag"]))
    chk.sample({"kind": "cell", "sock": fam[3]["sock"], "cell": fam[3]["tag"], "ops": [o["op"] for o in fam[3]["ops"]]})
    v = netlib.run_net(chk, fam, "c17", procs=8)
    netlib.report(chk, v, fam, ("C17/", "C16/fd-leak"), "grid")
