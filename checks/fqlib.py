"""Fair-queue part shared by C05, C06, C14: model checking of spec/FairQueue.tla, behaviour generation
(GenFQ), replay on the real queue (zv fq), layer-A trace validation (TraceFQ)."""
import json, os, random, re
import vlib

MUTANTS = [("MC_FairQueue_m1", "insert() does not wake the receiver", "NoLostWakeup"),
           ("MC_FairQueue_m2", "served stream re-queued with its stale ticket", "FairBoundTight"),
           ("MC_FairQueue_m3", "stream not put back after Pending", "NoStreamLost"),
           ("MC_FairQueue_m4", "receiver waker stored only when the slot is empty", "NoLostWakeup"),
           ("MC_FairQueue_m5", "every wake-up queues a ready event, also for a stream that is already queued (the code before fix 8512c0f)", "FairBoundTight"),
           ("MC_FairQueue_m6", "poll_next never gives control back while streams keep waking themselves (the code before fix 634cc7b)", "YieldBound"),
           ("MC_FairQueue_m7", "a polled stream is put back over a newer stream registered under its key meanwhile (the code before the supersede fix)", "NoStreamLost"),
           ("MC_FairQueue_m8", "re-insert of a registered key queues no ready event", "ReadyHasSignal"),
           ("MC_FairQueue_m9", "the owner of the queue is not told that a stream ended (the code before the orderly-close fix)", "EndReported"),
           ("MC_FairQueue_z1", "a checked-out stream whose key was removed meanwhile is put back (the code before fix 41afc99)", "RemovedStaysOut")]
REACH = ["MC_FairQueue_r1", "MC_FairQueue_r2", "MC_FairQueue_r3"]


def model_checks(chk, which=("safety", "mutants", "reach")):
    tier = chk.tier
    if "safety" in which:
        r = vlib.tlc("FairQueue", "MC_FairQueue_q.cfg", chk.wd, timeout=900, workers=12)
        chk.model_must_hold(r, "FairQueue 2 peers x 2 items, late/duplicate wake-ups of old waker clones, budget exhaustion (self-waking streams), cancel (exhaustive)", disabled=("Remove", "Reinsert"))
        r = vlib.tlc("FairQueue", "MC_FairQueue_qr.cfg", chk.wd, timeout=900)
        chk.model_must_hold(r, "FairQueue 2 peers x 2 items, remove, cancel (exhaustive)", disabled=("StaleFire", "Exhaust", "Reinsert"))
        r = vlib.tlc("FairQueue", "MC_FairQueue_qx.cfg", chk.wd, timeout=900, workers=12)
        chk.model_must_hold(r, "FairQueue 2 peers x 2 items, two superseding re-inserts of a registered key at any point incl. while its stream is checked out (exhaustive)", disabled=("StaleFire", "Exhaust", "Remove"))
        r = vlib.tlc("FairQueue", "MC_FairQueue_qxr.cfg", chk.wd, timeout=900, workers=12)
        chk.model_must_hold(r, "FairQueue 2 peers x 1 item, a superseding re-insert AND removal of a key at any point incl. while its stream is checked out: the stream of a removed key is never put back (exhaustive)", disabled=("StaleFire", "Exhaust"))
        if tier == "thorough":
            for cfg, what in (("MC_FairQueue_q2", "2 peers x 2 items, 2 stale wake-ups, exhaustion, remove"), ("MC_FairQueue_t", "3 peers x 2 items"),
                              ("MC_FairQueue_t2", "3 peers x 1 item, stale wake-up, exhaustion")):
                r = vlib.tlc("FairQueue", cfg + ".cfg", chk.wd, timeout=3000, heap="24g", workers=14)
                chk.model_must_hold(r, "FairQueue %s (exhaustive)" % what, disabled=("Reinsert",) if cfg == "MC_FairQueue_q2" else ("Remove", "StaleFire", "Exhaust", "Reinsert") if cfg == "MC_FairQueue_t" else ("Remove", "Reinsert"))
    if "liveness" in which:
        r = vlib.tlc("FairQueue", "MC_FairQueue_live.cfg", chk.wd, timeout=1200, coverage=False, workers=12)
        chk.model_must_hold(r, "FairQueue liveness: readable => eventually delivered, with budget exhaustion (WF receiver, WF wakers)")
        if tier == "thorough":
            r = vlib.tlc("FairQueue", "MC_FairQueue_live2.cfg", chk.wd, timeout=3000, coverage=False, workers=12, heap="16g")
            chk.model_must_hold(r, "FairQueue liveness with a stale wake-up and budget exhaustion")
    if "mutants" in which:
        for cfg, what, inv in MUTANTS:
            r = vlib.tlc("FairQueue", cfg + ".cfg", chk.wd, timeout=300, coverage=False)
            chk.model_must_fail(r, "spec mutant: %s -> %s violated" % (what, inv), inv)
    if "reach" in which:
        for cfg in REACH:
            r = vlib.tlc("FairQueue", cfg + ".cfg", chk.wd, timeout=300, coverage=False)
            chk.model_must_fail(r, "reachability companion " + cfg, "reach")


def gen_behaviours(chk, num, depth, seed):
    r = vlib.tlc("GenFQ", "GenFQ.cfg", chk.wd, workers=1, simulate="num=%d" % num, extra=["-depth", str(depth), "-seed", str(seed)], timeout=900, coverage=False)
    scripts = vlib.tlc_printed(r["out"], "REPLAY")
    if not scripts:
        raise vlib.ToolError("GenFQ produced no behaviours:\n" + r["out"][-2000:])
    return scripts


def starvation_scripts(rng, n):
    """Model-free scripts (layer A only): history, idle park, then a burst on one peer against a single
    message on another; also bursts without park, peers joining mid-burst, removals of idle peers."""
    out = []
    for i in range(n):
        nk = rng.randint(2, 4)
        keys = ["p%d" % j for j in range(1, nk + 1)]
        s = []
        late = rng.random() < 0.4
        start = keys[:-1] if late else keys
        for k in start:
            s.append({"a": "Insert", "k": k})
        # phase 1: history
        for _ in range(rng.randint(10, 60)):
            k = rng.choice(start)
            s.append({"a": "Produce", "k": k})
            s.append({"a": "Wake", "k": k})
            if rng.random() < 0.7:
                s += [{"a": "Nop"}, {"a": "Poll"}, {"a": "Nop"}]
        # phase 2: drain until parked (enough polls)
        if rng.random() < 0.8:
            for _ in range(70):
                s += [{"a": "Nop"}, {"a": "Poll"}]
            s.append({"a": "Nop"})
            if rng.random() < 0.3:
                s.append({"a": "Cancel"})
        # optional: remove an idle peer, leaving its stale event behind
        if nk >= 3 and rng.random() < 0.4:
            victim = start[0]
            s.append({"a": "Produce", "k": victim}); s.append({"a": "Wake", "k": victim})
            s.append({"a": "Remove", "k": victim})
            start = start[1:]
        # phase 3: burst
        order = start[:]
        rng.shuffle(order)
        busy, quiet = order[0], order[1:]
        burst = rng.randint(30, 70)
        first = rng.random() < 0.5
        if first:
            for q in quiet:
                s.append({"a": "Produce", "k": q}); s.append({"a": "Wake", "k": q})
        for _ in range(burst):
            s.append({"a": "Produce", "k": busy})
        s.append({"a": "Wake", "k": busy})
        if not first:
            for q in quiet:
                s.append({"a": "Produce", "k": q}); s.append({"a": "Wake", "k": q})
        if late:
            s.append({"a": "Insert", "k": keys[-1]})
            s.append({"a": "Produce", "k": keys[-1]})
        for j in range(burst + 12):
            s += [{"a": "Nop"}, {"a": "Poll"}]
            if late and j == 3 and rng.random() < 0.5:
                s.append({"a": "Produce", "k": keys[-1]})   # lands inside the window of this poll
        s.append({"a": "Nop"})
        out.append(s)
    return out


def hostile_env_scripts(rng, n):
    """Model-free scripts with a transport that uses its wakers the way real ones may: (a) it wakes OLD clones again
    (tokio does when readiness arrives between registering the waker and re-checking: the stream answers Ready and the
    registered waker still fires later), (b) every stream answers Pending after waking its own waker until the receiver
    task gets control back (a runtime's cooperative task budget; immediate self-wake is what tokio does for a future
    polled outside a scheduler context, e.g. the main future of block_on)."""
    out = []
    for i in range(n):
        nk = rng.randint(2, 4)
        keys = ["h%d" % j for j in range(1, nk + 1)]
        s = [{"a": "Insert", "k": k} for k in keys]
        busy, quiet = keys[0], keys[1:]
        if i % 2 == 0:
            # (a) duplicate wake-ups for a continuously busy peer, then the others become ready
            burst = rng.randint(120, 260)
            for k in keys:
                s += [{"a": "Nop"}, {"a": "Poll"}]                 # every stream is polled once and registers a waker
            for _ in range(burst):
                s.append({"a": "Produce", "k": busy})
            s.append({"a": "Wake", "k": busy})
            for _ in range(rng.randint(15, 50)):
                s += [{"a": "Nop"}, {"a": "Poll"}, {"a": "Nop"}, {"a": "StaleWake", "k": busy, "i": rng.randint(0, 3)}]
            m = rng.randint(4, 8)
            for q in quiet:
                for _ in range(m):
                    s.append({"a": "Produce", "k": q})
                s.append({"a": "Wake", "k": q})
            for _ in range(burst + m * len(quiet) + 10):
                s += [{"a": "Nop"}, {"a": "Poll"}]
        else:
            # (b) budget exhaustion at a random point of a busy period, also inside the unlocked window
            for k in keys:
                for _ in range(rng.randint(2, 6)):
                    s.append({"a": "Produce", "k": k})
            for _ in range(rng.randint(0, 5)):
                s += [{"a": "Nop"}, {"a": "Poll"}]
            if rng.random() < 0.5:
                s += [{"a": "Nop"}, {"a": "Exhaust"}, {"a": "Poll"}]          # exhausted when the poll starts
            else:
                s += [{"a": "Nop"}, {"a": "Poll"}, {"a": "Exhaust"}]          # exhausted by the first stream polled (inside the window)
            for _ in range(40):
                s += [{"a": "Nop"}, {"a": "Poll"}]
                if rng.random() < 0.1:
                    s += [{"a": "Nop"}, {"a": "Exhaust"}]
        s.append({"a": "Nop"})
        out.append(s)
    return out


def budget_scripts(rng, n):
    """Model-free scripts under a runtime's cooperative budget (tokio's): the receiver task may do k transport reads per poll of the
    task, a further read is refused (Pending although the data is there) and woken only after the task has given control back.  One
    source's backlog is already in its stream's buffer (handing it out needs no read), the others have a message that needs a read;
    the receiver is called back to back, so the task never yields by itself."""
    out = []
    for i in range(n):
        nk = rng.randint(2, 4)
        keys = ["g%d" % j for j in range(1, nk + 1)]
        s = [{"a": "Insert", "k": k} for k in keys]
        for k in keys:
            s += [{"a": "Nop"}, {"a": "Poll"}]                         # every stream polled once, waits for its waker
        busy = keys[i % nk]
        backlog = rng.randint(20, 90)
        s += [{"a": "Buffered", "k": busy}, {"a": "Budget", "n": 1 + i % 3}]
        for _ in range(backlog):
            s.append({"a": "Produce", "k": busy})
        s.append({"a": "Wake", "k": busy})
        for k in keys:
            if k != busy:
                for _ in range(rng.randint(1, 2)):
                    s.append({"a": "Produce", "k": k})
                s.append({"a": "Wake", "k": k})
        for _ in range(backlog + 2 * nk + 12):
            s += [{"a": "Nop"}, {"a": "Poll"}]
        s.append({"a": "Nop"})
        out.append(s)
    return out


def reconnect_scripts(rng, n):
    """Model-free scripts: a new connection registers under a key that is still in the queue (identity reuse while the old
    connection is half-open), at rest or inside the unlocked window of a poll (also of that very stream), with the old stream
    idle / ready / just served; afterwards the new connection's messages must be delivered."""
    out = []
    for i in range(n):
        keys = ["r%d" % j for j in range(1, rng.randint(1, 3) + 1)]
        s = [{"a": "Insert", "k": k} for k in keys]
        v = keys[0]
        mode = i % 4
        if mode in (0, 1):
            for k in keys:                      # every stream polled to Pending: events consumed, wakers registered
                s += [{"a": "Nop"}, {"a": "Poll"}]
        if mode == 1:
            s += [{"a": "Produce", "k": v}, {"a": "Wake", "k": v}]      # old connection has an unread message (lost with it)
        if mode == 2:
            s += [{"a": "Produce", "k": v}, {"a": "Produce", "k": v}, {"a": "Nop"}, {"a": "Poll"}]   # old stream just served, re-queued
        if mode == 3 or rng.random() < 0.5:
            # inside the window of a poll: the op right after Poll runs inside the first stream polled
            other = rng.choice(keys)
            s += [{"a": "Produce", "k": other}, {"a": "Wake", "k": other}, {"a": "Nop"}, {"a": "Poll"}, {"a": "Reinsert", "k": v}]
        else:
            s += [{"a": "Nop"}, {"a": "Reinsert", "k": v}]
        m = rng.randint(1, 4)
        for _ in range(m):
            s += [{"a": "Produce", "k": v}]
        s += [{"a": "Wake", "k": v}]
        for k in keys[1:]:
            if rng.random() < 0.5:
                s += [{"a": "Produce", "k": k}, {"a": "Wake", "k": k}]
        for _ in range(m + 6):
            s += [{"a": "Nop"}, {"a": "Poll"}]
        s.append({"a": "Nop"})
        out.append(s)
    return out


def random_scripts(rng, n, maxlen=120):
    """Model-free random walks with window activity (ops right after a Poll run inside the polled stream)."""
    out = []
    for i in range(n):
        keys = ["k%d" % j for j in range(1, rng.randint(1, 4) + 1)]
        ins, s = set(), []
        closed = set()
        for _ in range(rng.randint(10, maxlen)):
            x = rng.random()
            k = rng.choice(keys)
            if x < 0.12 and k not in ins:
                s.append({"a": "Insert", "k": k}); ins.add(k)
            elif x < 0.45 and k in ins and k not in closed:
                s.append({"a": "Produce", "k": k})
                if rng.random() < 0.8:
                    s.append({"a": "Wake", "k": k})
            elif x < 0.5 and k in ins and k not in closed:
                s.append({"a": "Close", "k": k}); s.append({"a": "Wake", "k": k}); closed.add(k)
            elif x < 0.55:
                s.append({"a": "Cancel"}) if rng.random() < 0.5 else s.append({"a": "Wake", "k": k})
            else:
                if rng.random() < 0.5:
                    s.append({"a": "Nop"})
                s.append({"a": "Poll"})
                if rng.random() < 0.5:
                    s.append({"a": "Nop"})
        s.append({"a": "Nop"})
        out.append(s)
    return out


def replay_and_validate(chk, scripts, label):
    """Run scripts on the real queue, validate the recorded trace against TraceFQ. Returns (viols, stats)."""
    inp = os.path.join(chk.wd, "fq-%s.in" % label)
    out = os.path.join(chk.wd, "fq-%s.trace" % label)
    vlib.write_ndjson(inp, scripts)
    rc, o, dt = vlib.sh([vlib.ZV, "fq", "--in", inp, "--out", out], timeout=900)
    if rc != 0:
        # the replay driver itself died (e.g. a panic inside the queue): that is data
        return [(0, "panic-or-abort-in-fair-queue", 0)], {"behaviours": len(scripts), "crashed": True, "out": o[-500:]}
    st = json.loads(o.strip().splitlines()[-1])
    viols, consumed, total, info = vlib.tlc_trace("TraceFQ", "TraceFQ.cfg", out, chk.wd)
    chk.traces += st["behaviours"]
    chk.states += info["distinct"]
    chk.transitions += info["generated"]
    return viols, st


def run_fq(chk, prefixes, nsim, nstarve, nrand, depth=300):
    """prefixes: codes this property owns, e.g. ("C06/",)"""
    rng = random.Random(chk.seed)
    all_stats = {}
    for label, scripts in (("model", gen_behaviours(chk, nsim, depth, chk.seed)),
                           ("starve", starvation_scripts(rng, nstarve)),
                           ("random", random_scripts(rng, nrand)),
                           ("hostile-env", hostile_env_scripts(rng, max(20, nstarve // 2))),
                           ("budget", budget_scripts(rng, max(12, nstarve // 4))),
                           ("reconnect", reconnect_scripts(rng, max(40, nstarve)))):
        viols, st = replay_and_validate(chk, scripts, label)
        all_stats[label] = {k: v for k, v in st.items() if k != "out"}
        for sc in scripts:
            chk.case(sc, nontrivial=any(e.get("a") in ("Poll", "Begin") for e in sc) and len(sc) > 3)
        if scripts:
            chk.sample({"kind": "fq-" + label, "script_head": scripts[0][:12], "len": len(scripts[0])})
        if st.get("drifted"):
            chk.drift.append("fair queue: %d of %d %s behaviours no longer match spec/FairQueue.tla, e.g. %s" % (st["drifted"], st["behaviours"], label, st.get("drift_samples", [""])[0][:300]))
        other = set()
        for scen, code, line in viols:
            if any(code.startswith(p) for p in prefixes) or code.startswith("panic"):
                idx = scen - 1
                chk.violation(code, {"layer": "fair-queue", "family": label, "scenario": scen, "trace_line": line},
                              {"kind": "fq", "script": scripts[idx] if 0 <= idx < len(scripts) else None})
            else:
                other.add(code)
        if other:
            all_stats[label]["codes_owned_by_other_properties"] = sorted(other)
    chk.notes["fair_queue_replay"] = all_stats
    return all_stats


def replay_one(chk, script):
    viols, st = replay_and_validate(chk, [script], "replay")
    return viols, st
