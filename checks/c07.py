"""C07 - REQ/REP envelopes are added, preserved and stripped exactly."""
import json, random
import vlib, dlvlib, rrlib

def run(chk, replay=None):
    chk.rule = ("cases = every (routing prefix, payload) shape enumerated by TLC (spec/MC_Envelope.tla: payload 0..N frames over {empty, short, 256 B, 70 KiB}, prefix 0..M identity "
                "frames of 1 / 255 bytes, incl. delimiter-last requests) executed on a real REP (request through a DEALER-like peer, reply must retrace the prefix) and a real REQ "
                "(send, reply with the same shape), plus the TLC-enumerated REQ/REP call sequences and seeded random multi-client schedules; judged by TLC (TraceReqRep); "
                "distinct = distinct scripts; non-trivial = all")
    chk.assumptions = ["requests without any delimiter are outside the statement and are not generated", "TLC and CommunityModules are correct"]
    thorough = chk.tier == "thorough"
    rng = random.Random(chk.seed)
    if replay:
        sc = json.load(open(replay))["replay"]["script"]
        rrlib.run_and_report(chk, [sc], "replay", ("C07/",))
        return
    env = rrlib.envelope_scripts(chk, 4 if thorough else 3, 3 if thorough else 2)
    for s in env: chk.case(("env", s["scen"]))
    chk.sample({"kind": "envelope scenario", "sock": env[7]["sock"], "ops": [(o["op"], [len(bytes.fromhex(f)) for f in o.get("m", [])]) for o in env[7]["ops"]]})
    rrlib.run_and_report(chk, env, "c07-env", ("C07/",))
    scen = len(env)
    fam = []
    for seq in rrlib.gen_seqs(chk, rrlib.REP_OPS, 5 if thorough else 4, ["recv_drop"], "rep"):
        scen += 1; fam.append(rrlib.rep_script(seq, scen))
    for seq in rrlib.gen_seqs(chk, rrlib.REQ_OPS, 5 if thorough else 4, ["recv_drop", "attach2", "punsol"], "req"):
        scen += 1; fam.append(rrlib.req_script(seq, scen))
    for seq in rrlib.gen_seqs(chk, rrlib.REQ_OPS_GONE, 6 if thorough else 5, ["recv_drop", "attach2", "pclose1"], "reqgone"):
        if "pclose1" in seq and "attach2" in seq:
            scen += 1; fam.append(rrlib.req_script(seq, scen))
    st = rrlib.req_stale_scripts(scen); scen += len(st); fam += st
    for s in fam: chk.case(("seq", s["scen"]))
    rrlib.run_and_report(chk, fam, "c07-seq", ("C07/",))
    rnd = rrlib.random_rep_scripts(rng, 1500 if thorough else 200, scen + 1)
    for s in rnd: chk.case(("rnd", json.dumps(s["ops"])[:1500]))
    rrlib.run_and_report(chk, rnd, "c07-rnd", ("C07/",))
