"""C09 - ROUTER labels inbound messages with the true sender and routes by first frame."""
import json, random
import vlib, sendlib, rrlib

def run(chk, replay=None):
    chk.rule = ("cases = every history of length D over {peer joins with announced identity (short / 255 bytes), peer joins with auto identity, peer joins with an empty Identity property, a new connection re-announces the identity of the departed first peer, or of the still-connected idle first peer (superseding it), a peer sends, recv, send to the first / "
                "the last peer, send to an unknown identity, first peer departs (closed and pipe broken)} enumerated by TLC (GenSeq) and executed on a real ROUTER socket, plus "
                "seeded random schedules with 1-4 peers, random segmentation and departures; judged by TLC (TraceSend); the identity table is model-checked (Router); "
                "distinct = distinct scripts; non-trivial = all")
    chk.assumptions = ["TLC and CommunityModules are correct", "duplicate announced identities are unspecified and not generated", "a departed peer has its read side closed and its write pipe broken, so a stale table entry cannot make a send look successful"]
    thorough = chk.tier == "thorough"
    rng = random.Random(chk.seed)
    if replay:
        sc = json.load(open(replay))["replay"]["script"]
        sendlib.run_and_report(chk, [sc], "replay", ("C09/",))
        return
    for cfg, must in (("MC_Router_ok", True), ("MC_Router_label_last_joined", False), ("MC_Router_route_any", False)):
        r = vlib.tlc("Router", cfg + ".cfg", chk.wd, timeout=900, coverage=must)
        (chk.model_must_hold if must else chk.model_must_fail)(r, "Router " + cfg + (": labels and routing over all join/leave/send orders, 3 connections x 3 identities" if must else " (spec mutant)"))
    scen = 0
    fam = []
    for seq in rrlib.gen_seqs(chk, sendlib.ROUTER_OPS, 5 if thorough else 4, ["recv", "depart_first", "rejoin_first", "rejoin_live"], "router"):
        scen += 1; fam.append(sendlib.router_script(seq, scen))
    for s in fam: chk.case(("hist", s["scen"]))
    chk.sample({"kind": "history (TLC-enumerated)", "ops": [o["op"] for o in fam[len(fam) // 2]["ops"]][:14]})
    sendlib.run_and_report(chk, fam, "c09-hist", ("C09/",))
    rnd = []
    for i in range(3000 if thorough else 800):
        scen += 1; rnd.append(sendlib.random_router(rng, scen))
    for s in rnd: chk.case(("rnd", json.dumps(s["ops"])[:1500]))
    sendlib.run_and_report(chk, rnd, "c09-rnd", ("C09/",))
