"""C19 - endpoint parsing is total, strict, and round-trips through its text form."""
import json, os, random
import vlib

ALPHA_Q = "{58, 47, 91, 93, 46, 48, 49, 57, 97, 10, 233, 43, 32, 54, 1637, 45}"      # : / [ ] . 0 1 9 a \n e-acute + space 6 arabic-indic-5 -
ALPHA_T = "{58, 47, 91, 93, 46, 48, 49, 57, 97, 10, 233, 43, 54}"

def near_misses(rng):
    base = ["tcp://h:1", "TCP://h:1", "Tcp://h:1", "tcp:/h:1", "tcp//h:1", "tcp:///h:1", "udp://h:1", "://h:1", "tcp://", "ipc://", "tcp://:1", "tcp://h:", "tcp://h", "tcp://h:65535",
            "tcp://h:65536", "tcp://h:99999", "tcp://h:000000", "tcp://h:0000065535", "tcp://h:-1", "tcp://h:+1", "tcp://h: 1", "tcp://h:1 ", "tcp://h:1\n", "tcp://h\n:1", "ipc://a\nb",
            "tcp://h:٥", "tcp://h:１", "ipc:// ", "ipc:///tmp/x.sock", "ipc://a", "ipcc://a", "ip://a", "tcp://a:b:1", "tcp://[::1]:1", "tcp://::1:1", "tcp://[::1]", "tcp://[::1:1",
            "tcp://::1]:1", "tcp://[[::1]]:1", "tcp://[]:1", "tcp://[1]:1", "tcp://[aa]:1", "tcp://[1.0.0.1]:1", "tcp://[[aa]]:5", "tcp://1.2.3.4:5", "tcp://1.2.3:5", "tcp://1.2.3.4.5:5",
            "tcp://01.2.3.4:5", "tcp://256.1.1.1:5", "tcp://1.2.3.4 :5", "tcp://0.0.0.0:0", "tcp://255.255.255.255:65535", "tcp://[1:2:3:4:5:6:7:8]:9", "tcp://1:2:3:4:5:6:7:8:9",
            "tcp://[1:2:3:4:5:6:7]:9", "tcp://[1:2:3:4:5:6:7:8:9]:9", "tcp://[1::8]:9", "tcp://[::]:9", "tcp://[1::]:9", "tcp://[::8]:9", "tcp://[1:::8]:9", "tcp://[1::2::3]:9",
            "tcp://[12345::]:9", "tcp://[g::1]:9", "tcp://[::ffff:1.2.3.4]:9", "tcp://[1:2:3:4:5:6:1.2.3.4]:9", "tcp://[::1.2.3]:9", "tcp://[ABCD:ef01::]:9", "tcp://[fe80::1%eth0]:9",
            "tcp://example.com:4567", "tcp://EXAMPLE.com:80", "tcp://*:80", "tcp://h:1:", "tcp://é:1", "tcp://h:1é", "é://h:1", "tcpé://h:1", "tcp://\x00:1", "", ":", "tcp", "a://b"]
    out = [[ord(c) for c in s] for s in base]
    # grammar-based valid and near-valid forms
    hexd = "0123456789abcdefABCDEF"
    for _ in range(1500):
        kind = rng.random()
        if kind < 0.3:
            parts = [str(rng.choice([0, 1, 9, 10, 99, 100, 255, 256, 300, 7])) for _ in range(rng.choice([3, 4, 4, 4, 5]))]
            if rng.random() < 0.15:
                parts[rng.randrange(len(parts))] = "0" + parts[0]
            host = ".".join(parts)
        elif kind < 0.7:
            n = rng.choice([1, 2, 3, 5, 7, 8, 8, 9])
            groups = ["".join(rng.choice(hexd) for _ in range(rng.choice([1, 2, 4, 4, 5]))) for _ in range(n)]
            host = ":".join(groups)
            if rng.random() < 0.6 and n >= 2:
                k = rng.randrange(1, n)
                host = ":".join(groups[:k]) + "::" + ":".join(groups[k + rng.choice([0, 1]):])
            if rng.random() < 0.5:
                host = "[" + host + "]"
            if rng.random() < 0.1:
                host = host.replace(":", "::", 1)
        else:
            host = "".join(rng.choice("abcXYZ019.-_[]: é") for _ in range(rng.randint(1, 8)))
        port = rng.choice(["0", "1", "80", "65535", "65536", "070", "", "x", "+5", "99999999999"])
        scheme = rng.choice(["tcp", "tcp", "tcp", "ipc", "TCP", "udp", "tc"])
        out.append([ord(c) for c in "%s://%s:%s" % (scheme, host, port)])
    # random Unicode
    for _ in range(1500):
        n = rng.randint(0, 14)
        s = [rng.choice([rng.randrange(32, 127), rng.randrange(0x80, 0x800), rng.randrange(0x800, 0xd800), rng.randrange(0x10000, 0x10400), 10, 58, 47]) for _ in range(n)]
        if rng.random() < 0.6:
            s = [ord(c) for c in rng.choice(["tcp://", "ipc://"])] + s
        out.append(s)
    return out

def run(chk, replay=None):
    chk.rule = ("cases = endpoint strings: EVERY string over a 16-symbol alphabet {: / [ ] . 0 1 9 6 a - + space newline non-ASCII-letter non-ASCII-digit} up to length N behind tcp:// and "
                "ipc:// enumerated by TLC (MC_Endpoint) with the reference class computed for each (totality of the reference), plus scheme / separator near-misses, grammar-generated "
                "valid and near-valid IPv4 / IPv6 / port forms and random Unicode; each parsed, formatted and re-parsed through the public API; the reference class and port are "
                "recomputed by TLC from the logged string (TraceEndpoint); distinct = distinct strings; non-trivial = all")
    chk.assumptions = ["strings containing a line break and IPv6-with-embedded-IPv4 / near-literal hosts are not judged accept-vs-reject (the statement does not pin them down), only totality and round trip",
                       "TLC and CommunityModules are correct"]
    thorough = chk.tier == "thorough"
    rng = random.Random(chk.seed)
    if replay:
        vectors = [json.load(open(replay))["replay"]["s"]]
    else:
        cfg = os.path.join(vlib.SPEC, "MC_Endpoint_run.cfg")
        open(cfg, "w").write("SPECIFICATION Spec\nCONSTANTS\n Alphabet = %s\n N = %d\nINVARIANTS Total Emit\nCHECK_DEADLOCK FALSE\n" % ((ALPHA_T, 5) if thorough else (ALPHA_Q, 4)))
        try:
            r = vlib.tlc("MC_Endpoint", "MC_Endpoint_run.cfg", chk.wd, timeout=3000, coverage=False, heap="12g")
        finally:
            os.remove(cfg)
        chk.model_must_hold(r, "MC_Endpoint: reference Class total on every enumerated string")
        vectors = vlib.tlc_printed(r["out"], "VEC")
        chk.exhaustive = True
        vectors += near_misses(rng)
    inp = os.path.join(chk.wd, "c19.in"); out = os.path.join(chk.wd, "c19.trace")
    vlib.write_ndjson(inp, vectors)
    rc, o, dt = vlib.sh([vlib.ZV, "c19", "--in", inp, "--out", out], timeout=1800)
    if rc != 0:
        chk.violation("C19/abort", {"what": "parser driver died", "out": o[-400:]}, {"vectors": inp})
        return
    viols, consumed, total, info = vlib.tlc_trace("TraceEndpoint", "TraceEndpoint.cfg", out, chk.wd, timeout=3000, heap="12g")
    chk.states += info["distinct"]; chk.transitions += info["generated"]; chk.traces += len(vectors)
    evs = vlib.read_ndjson(out)
    kinds = {}
    for e in evs:
        k = e.get("kind", e["res"]); kinds[k] = kinds.get(k, 0) + 1
        chk.case(json.dumps(e["s"]))
    chk.notes["outcomes"] = kinds
    ok = [e for e in evs if e["res"] == "ok"]
    chk.sample({"kind": "string", "text": "".join(chr(c) for c in ok[len(ok) // 2]["s"]), "event": ok[len(ok) // 2]})
    chk.sample({"kind": "string", "text": "".join(chr(c) for c in evs[len(evs) // 3]["s"]), "event": evs[len(evs) // 3]})
    for scen, code, line in viols:
        e = evs[line - 1] if 0 < line <= len(evs) else {}
        chk.violation(code, {"text": "".join(chr(c) for c in e.get("s", [])), "event": {k: v for k, v in e.items() if k != "s"}}, {"s": e.get("s")})
