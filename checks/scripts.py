"""Seeded generators of scenario scripts for the script engine (harness/src/engine.rs)."""
import random

PEER_OF = {"PULL": ["PUSH"], "SUB": ["PUB", "XPUB"], "DEALER": ["DEALER", "ROUTER", "REP"], "ROUTER": ["DEALER", "REQ", "ROUTER"],
           "REP": ["REQ", "DEALER"], "XPUB": ["SUB", "XSUB"], "REQ": ["REP", "ROUTER"], "PUSH": ["PULL"], "PUB": ["SUB", "XSUB"]}
RECV_TYPES = ["PULL", "SUB", "DEALER", "ROUTER", "REP", "XPUB"]


def hx(b):
    """frame notation for scripts: hex, or for large frames ending in a long run of one byte the compact form "~len:fill:prefix" (engine.rs hexs)"""
    if isinstance(b, str):
        b = b.encode()
    if len(b) > 512:
        fill = b[-1:]
        pre = b.rstrip(fill)
        if len(pre) < 200:
            return "~%d:%s:%s" % (len(b), fill.hex(), pre.hex())
    return b.hex()


def unhx(s):
    if s.startswith("~"):
        n, fill, pre = s[1:].split(":")
        b = bytes.fromhex(pre)
        return (b + bytes.fromhex(fill) * int(n))[:int(n)]
    return bytes.fromhex(s)


def frame(rng, tag, kind=None):
    """a frame body (bytes) containing tag; kind selects the size class"""
    kind = kind or rng.choice(["tag", "tag", "tag", "empty", "one", "255", "256", "300", "big"])
    t = tag.encode()
    if kind == "empty":
        return b""
    if kind == "one":
        return t[-1:]
    if kind == "tag":
        return t
    n = {"255": 255, "256": 256, "300": 300, "big": rng.choice([8191, 8192, 9000, 70000])}[kind]
    return (t + b"." * n)[:n]


def message(rng, tag, stype, nmax=4):
    """wire message (list of frame bodies) a peer sends to a socket of type stype; last frame always carries the tag"""
    n = rng.randint(1, nmax)
    u = rng.randrange(n)    # the frame that carries the unique tag; every other frame may be anything, incl. an empty last frame
    frames = [frame(rng, tag, rng.choice(["tag", "tag", "256", "big"])) if i == u else frame(rng, "%sf%d" % (tag, i)) for i in range(n)]
    if stype == "REP":
        # well-formed request: 0..2 routing frames (non-empty), delimiter, payload with non-empty... payload frames may be empty
        pre = [("r%d" % i).encode() + tag.encode() for i in range(rng.randint(0, 2))]
        frames = pre + [b""] + frames
    if stype == "XPUB" and rng.random() < 0.6:
        frames = [bytes([rng.choice([0, 1])]) + tag.encode()]
    return frames


def cuts(rng, frames):
    ln = sum(len(f) + (9 if len(f) > 255 else 2) for f in frames)
    if rng.random() < 0.5 or ln < 2:
        return []
    if ln <= 12 and rng.random() < 0.3:
        return list(range(1, ln))          # byte at a time
    return sorted(set(rng.randint(1, ln - 1) for _ in range(rng.randint(1, 3))))


def ops_ident(ops, c):
    for o in ops:
        if o.get("op") == "attach" and o.get("c") == c:
            return o.get("ident") or None
    return None


def delivery_script(rng, stype, scen, drops=True, faults=True):
    ops = []
    npeers = rng.randint(1, 3)
    attached, closed, half, cnt = [], set(), {}, {}
    nxt = 1
    sent = 0

    def attach():
        nonlocal nxt, sent
        c = nxt
        nxt += 1
        op = {"op": "attach", "c": c, "ptype": rng.choice(PEER_OF[stype])}
        if rng.random() < 0.4:
            op["ident"] = hx("id%d" % c if rng.random() < 0.8 else ("I%d" % c) + "I" * 253)   # unique per connection (duplicates are unspecified)
        if rng.random() < 0.3:
            cnt[c] = cnt.get(c, 0) + 1
            op["first"] = [hx(f) for f in message(rng, "c%dm%d" % (c, cnt[c]), stype)]
            sent += 1
        if rng.random() < 0.4:
            op["split"] = sorted(set(rng.randint(1, 120) for _ in range(rng.randint(1, 3))))
        ops.append(op)
        attached.append(c)

    attach()
    steps = rng.randint(6, 30)
    idents = {}
    for _ in range(steps):
        x = rng.random()
        live = [c for c in attached if c not in closed]
        idle_named = [c for c in live if c not in half and ops_ident(ops, c) and cnt.get(c, 0) == 0]    # never wrote anything: nothing of it can be lost
        if x < 0.04 and idle_named and nxt <= 6:
            # a new connection announces the identity of a still-connected, idle peer (e.g. that peer restarted and the old
            # connection is half-open): it supersedes the old one, which stays silent from now on; the receiver may be parked
            old = rng.choice(idle_named)
            c = nxt; nxt += 1
            if rng.random() < 0.7:
                ops.append({"op": "recv_poll"})
            ops.append({"op": "attach", "c": c, "ptype": rng.choice(PEER_OF[stype]), "ident": ops_ident(ops, old)})
            attached.append(c); closed.add(old)
            cnt[c] = 1
            m = message(rng, "c%dm%d" % (c, 1), stype)
            ops.append({"op": "psend", "c": c, "m": [hx(f) for f in m], "cuts": cuts(rng, m)}); sent += 1
            ops.append({"op": "quiescent"})
        elif x < 0.10 and len(attached) < npeers:
            attach()
        elif x < 0.45 and live:
            c = rng.choice(live)
            if c in half:
                ops.append({"op": "pfinish", "c": c}); half.pop(c); sent += 1
            else:
                cnt[c] = cnt.get(c, 0) + 1
                m = message(rng, "c%dm%d" % (c, cnt[c]), stype)
                if rng.random() < 0.25:
                    ops.append({"op": "pbegin", "c": c, "m": [hx(f) for f in m], "upto": rng.choice([1, 100, 500, 900, 999])}); half[c] = True
                else:
                    ops.append({"op": "psend", "c": c, "m": [hx(f) for f in m], "cuts": cuts(rng, m)}); sent += 1
        elif x < 0.52 and live and faults:
            c = rng.choice(live)
            ops.append({"op": "pclose", "c": c} if rng.random() < 0.7 else {"op": "pfail", "c": c, "kind": "reset"})
            closed.add(c); half.pop(c, None)
        elif x < 0.75:
            ops.append({"op": "recv"})
        elif x < 0.85 and drops:
            ops.append({"op": "recv_poll"})
            if rng.random() < 0.6:
                ops.append({"op": "recv_drop"})
        elif x < 0.92 and drops:
            ops.append({"op": "recv_drop"})
        else:
            ops.append({"op": "quiescent"})
    for c in list(half):
        if c not in closed and rng.random() < 0.7:
            ops.append({"op": "pfinish", "c": c}); sent += 1
    ops.append({"op": "recv_drop"})
    for _ in range(sent + 3):
        ops.append({"op": "recv"})
    ops.append({"op": "quiescent"})
    ops.append({"op": "recv_drop"})
    return {"scen": scen, "sock": stype, "ops": ops}
