"""C18 - bind/unbind manage independent listeners with exact endpoint bookkeeping."""
import json, os, random
import vlib, netlib, rrlib

OPS = ["bind4", "bind6", "bindL", "bindI", "dup", "dupI", "unbind_first", "unbind_last", "unbind_unknown", "client", "exchange"]

def script(seq, stype, scen):
    ops, names, ipcs, bound, nclients = [], [], set(), [], 0
    for o in seq:
        if o.startswith("bind"):
            tr = {"bind4": "tcp4", "bind6": "tcp6", "bindL": "local", "bindI": "ipc"}[o]
            n = "e%d" % (len(names) + 1)
            ops.append({"op": "bind", "name": n, "ep": netlib.ep(tr, "s%d-%s" % (scen, n))})
            names.append(n); bound.append(n)
            if tr == "ipc":
                ipcs.add(n)
        elif o == "dup" and bound:
            ops.append({"op": "bind_dup", "name": bound[0]})
        elif o == "dupI" and [b for b in bound if b in ipcs]:
            ops.append({"op": "bind_dup", "name": [b for b in bound if b in ipcs][-1]})
        elif o in ("unbind_first", "unbind_last") and bound:
            n = bound.pop(0 if o == "unbind_first" else -1)
            ops.append({"op": "unbind", "name": n})
        elif o == "unbind_unknown":
            ops.append({"op": "unbind_unknown"})
        elif o == "client" and bound:
            nclients += 1
            ops.append({"op": "client", "k": nclients, "name": bound[-1], "kind": "good"})
        elif o == "exchange" and nclients:
            ops.append({"op": "exchange", "k": 1})
        else:
            continue
        # after every operation: the bind set and a fresh connection attempt to every endpoint ever returned
        ops += netlib.probes(names, ipcs, bound=bound, silent=(len(ops) % 3 == 0))
    if nclients:
        ops.append({"op": "exchange", "k": nclients})
    return {"scen": scen, "sock": stype, "ops": ops, "tag": ",".join(seq)}

def run(chk, replay=None):
    chk.rule = ("cases = operation sequences of length 12 over {bind tcp v4 / v6 / localhost with port 0, bind a fresh ipc path, bind a duplicate of the oldest bound endpoint / of the newest ipc path, unbind the "
                "oldest / newest bound endpoint, unbind an unknown endpoint, a raw client connects and completes the handshake, exchange a message on an established connection} drawn by "
                "TLC -simulate from spec/GenSeq.tla with the seed, executed on real loopback sockets (socket types rotated); after EVERY operation the driver logs binds() and a fresh "
                "connect attempt to every endpoint ever returned - completing a handshake where the endpoint should be listening, sometimes after leaving a silent connection - and the existence of every ipc path; judged by TLC against the bind-set model (TraceListener); the listener "
                "mechanism is model-checked (Listener); distinct = distinct sequences; non-trivial = contains a bind")
    chk.assumptions = ["TLC and CommunityModules are correct", "loopback TCP (127.0.0.1, ::1, localhost) and Unix sockets of this host; 'refused' = connect() fails", "which address family localhost picks is not demanded"]
    thorough = chk.tier == "thorough"
    if replay:
        sc = json.load(open(replay))["replay"]["script"]
        v = netlib.run_net(chk, [sc], "replay", procs=1)
        netlib.report(chk, v, [sc], ("C18/",), "replay")
        return
    for cfg, must in (("MC_Listener_ok", True), ("MC_Listener_unbind_forgets_to_stop", False), ("MC_Listener_accept_awaits_handshake", False)):
        r = vlib.tlc("Listener", cfg + ".cfg", chk.wd, timeout=600, coverage=must)
        (chk.model_must_hold if must else chk.model_must_fail)(r, "Listener " + cfg + (": bind set = listening set, file iff listening, accept never blocked, closed means gone; 2 endpoints x 3 connections" if must else " (spec mutant)"))
    # sequences from TLC simulation of the generic enumerator
    cfg = os.path.join(vlib.SPEC, "GenSeq_run_c18.cfg")
    fmt = lambda xs: "{" + ", ".join('"%s"' % x for x in xs) + "}"
    open(cfg, "w").write("SPECIFICATION Spec\nCONSTANTS\n Ops = %s\n Depth = 12\n NoRepeat = {\"unbind_unknown\", \"dup\", \"dupI\"}\nINVARIANT Emit\nCHECK_DEADLOCK FALSE\n" % fmt(OPS))
    try:
        r = vlib.tlc("GenSeq", "GenSeq_run_c18.cfg", chk.wd, workers=1, simulate="num=%d" % (60 if thorough else 8), extra=["-depth", "13", "-seed", str(chk.seed)], timeout=600, coverage=False, name="genseq-c18")
    finally:
        os.remove(cfg)
    seqs = vlib.tlc_printed(r["out"], "SEQ")
    chk.add_tlc(r, "GenSeq simulate: %d operation sequences of length 12" % len(seqs))
    fam = [script(["bind4"] + s, netlib.TYPES[i % len(netlib.TYPES)], i + 1) for i, s in enumerate(seqs)]
    # a listener survives a failing accept(): the process runs out of descriptors while a connection waits in the backlog
    scen = len(fam)
    for t, tr in ((("ROUTER", "tcp4"), ("PULL", "ipc"), ("PUB", "tcp6")) + ((("REP", "tcp4"), ("DEALER", "ipc"), ("SUB", "tcp4")) if thorough else ())):
        scen += 1
        ops = [{"op": "bind", "name": "e1", "ep": netlib.ep(tr, "x%d" % scen)}, {"op": "bind", "name": "e2", "ep": netlib.ep("tcp4", "y%d" % scen)},
               {"op": "client", "k": 1, "name": "e1", "kind": "good"},
               {"op": "fd_exhaust", "keep": 2}, {"op": "client", "k": 20, "name": "e1", "kind": "stall", "at": 0}, {"op": "client", "k": 21, "name": "e2", "kind": "stall", "at": 0},
               {"op": "sleep", "ms": 300}, {"op": "fd_release"}, {"op": "sleep", "ms": 100}]
        ops += netlib.probes(["e1", "e2"], {"e1"} if tr == "ipc" else set(), bound=["e1", "e2"]) + [{"op": "exchange", "k": 1}, {"op": "unbind", "name": "e1"}]
        ops += netlib.probes(["e1", "e2"], {"e1"} if tr == "ipc" else set(), bound=["e2"])
        fam.append({"scen": scen, "sock": t, "ops": ops, "tag": "accept-fails-emfile/" + tr})
    for s in fam: chk.case(s["tag"], nontrivial=True)
    chk.sample({"kind": "operation sequence", "sock": fam[0]["sock"], "seq": fam[0]["tag"], "ops": len(fam[0]["ops"])})
    v = netlib.run_net(chk, fam, "c18")
    netlib.report(chk, v, fam, ("C18/",), "sequences")
