"""Shared machinery for /verif checks: harness build, TLC runner, trace validation, verdicts, evidence.
python3 stdlib only."""
import json, os, re, subprocess, sys, time, hashlib, shutil

VERIF = os.path.dirname(os.path.dirname(os.path.abspath(__file__)))
SPEC = os.path.join(VERIF, "spec")
HARNESS = os.path.join(VERIF, "harness")
WORK = os.path.join(VERIF, "work")
ZV = os.path.join(HARNESS, "target", "release", "zv")
JAR = "/opt/veriftools/tla/tla2tools.jar:/opt/veriftools/tla/CommunityModules-deps.jar"
NCPU = os.cpu_count() or 4


class ToolError(Exception):
    pass


def sh(cmd, cwd=None, env=None, timeout=None, check=False):
    e = dict(os.environ)
    if env:
        e.update(env)
    t0 = time.time()
    try:
        p = subprocess.run(cmd, cwd=cwd, env=e, stdout=subprocess.PIPE, stderr=subprocess.STDOUT, timeout=timeout, text=True, errors="replace")
    except subprocess.TimeoutExpired as ex:
        raise ToolError("timeout after %ss: %s" % (timeout, " ".join(cmd[:6])))
    if check and p.returncode != 0:
        raise ToolError("command failed (%d): %s\n%s" % (p.returncode, " ".join(cmd[:8]), p.stdout[-4000:]))
    return p.returncode, p.stdout, time.time() - t0


def build_harness():
    """Rebuild the conformance harness against /repo's current working tree (hooks enabled)."""
    lock = os.path.join(HARNESS, "Cargo.lock")
    if not os.path.exists(lock) and os.path.exists("/repo/Cargo.lock"):
        shutil.copy("/repo/Cargo.lock", lock)
    env = {"CARGO_NET_OFFLINE": "true", "RUSTFLAGS": os.environ.get("RUSTFLAGS", "")}
    rc, out, dt = sh(["cargo", "build", "--release", "--offline"], cwd=HARNESS, env=env, timeout=1500)
    if rc != 0:
        raise ToolError("harness build failed:\n" + out[-6000:])
    return dt


def workdir(pid):
    d = os.path.join(WORK, pid)
    os.makedirs(d, exist_ok=True)
    return d


def tlc(module, cfg, wd, workers=None, timeout=900, extra=None, env=None, simulate=None, heap="4g", deadlock_off=False, coverage=True, name=None):
    """Run TLC on spec/<module>.tla with spec/<cfg>. Returns dict(rc, out, generated, distinct, ok, violated, coverage{})."""
    meta = os.path.join(wd, "tlc-" + (name or cfg.replace(".cfg", "")))
    shutil.rmtree(meta, ignore_errors=True)
    os.makedirs(meta, exist_ok=True)
    jopts = ["-XX:+UseParallelGC", "-Xmx" + heap, "-Xss512m", "-Djava.io.tmpdir=" + meta]     # (TLC leaves a tlc-<n> directory in the JVM's temp dir per run)
    cmd = ["java"] + jopts + ["-cp", JAR, "tlc2.TLC", "-metadir", meta, "-noGenerateSpecTE", "-config", os.path.join(SPEC, cfg)]
    if simulate:
        cmd += ["-simulate", simulate]
    cmd += ["-workers", str(workers or min(NCPU, 12))]
    if coverage and not simulate:
        cmd += ["-coverage", "1"]
    if extra:
        cmd += extra
    cmd += [os.path.join(SPEC, module + ".tla")]
    rc, out, dt = sh(cmd, cwd=SPEC, env=env, timeout=timeout)
    shutil.rmtree(meta, ignore_errors=True)
    r = {"rc": rc, "out": out, "wall_s": dt, "cmd": " ".join(cmd)}
    m = re.findall(r"(\d+) states generated, (\d+) distinct states found", out)
    if m:
        r["generated"], r["distinct"] = int(m[-1][0]), int(m[-1][1])
    else:
        r["generated"], r["distinct"] = 0, 0
    r["violated"] = re.findall(r"Error: (?:Invariant|Action property|Temporal properties?) ?(\S*) (?:is|were) violated", out)
    r["ok"] = (rc == 0) and ("No error has been found" in out or simulate is not None)
    cov = {}
    for mm in re.finditer(r"^<(\w+) line \d+, col \d+ to line \d+, col \d+ of module (\w+)>: (\d+):(\d+)", out, re.M):
        cov[mm.group(1)] = cov.get(mm.group(1), 0) + int(mm.group(4))
    r["coverage"] = cov
    if rc not in (0, 12, 13) and not simulate:
        raise ToolError("TLC failed rc=%d on %s/%s:\n%s" % (rc, module, cfg, out[-5000:]))
    if simulate and rc not in (0, 12):
        raise ToolError("TLC simulate failed rc=%d on %s/%s:\n%s" % (rc, module, cfg, out[-5000:]))
    return r


def tlc_printed(out, tag):
    """Extract JSON payloads printed by PrintT(<<"TAG", ToJson(x)>>) -> list of python objects.
    TLC may pretty-print a long tuple over several lines (<< "TAG",\n   "..." >>): any white space is tolerated."""
    res = []
    pat = re.compile(r'<<\s*"%s",\s*"((?:[^"\\]|\\.)*)"\s*>>' % re.escape(tag))
    for m in pat.finditer(out):
        s = m.group(1).replace('\\"', '"').replace("\\\\", "\\")
        try:
            res.append(json.loads(s))
        except Exception as e:
            raise ToolError("cannot parse TLC-printed JSON: %s: %s" % (e, s[:200]))
    return res


def tlc_trace(module, cfg, tracefile, wd, timeout=900, env=None, heap="4g"):
    """Validate a recorded ndjson trace against a total-monitor trace spec.
    The monitor prints <<"VIOL", scen, code, line>> for every guard that failed and
    <<"CONSUMED", n, total>> from its postcondition. Returns (viols[list of (scen,code,line)], consumed, total, raw)."""
    e = {"TRACE": tracefile, "JAVA_TOOL_OPTIONS": "-Xss1g -Dtlc2.tool.queue.IStateQueue=StateDeque"}
    if env:
        e.update(env)
    meta = os.path.join(wd, "tlc-trace-" + module)
    shutil.rmtree(meta, ignore_errors=True)
    os.makedirs(meta, exist_ok=True)
    cmd = ["java", "-XX:+UseParallelGC", "-Xmx" + heap, "-Djava.io.tmpdir=" + meta, "-cp", JAR, "tlc2.TLC", "-metadir", meta, "-noGenerateSpecTE", "-workers", "1",
           "-config", os.path.join(SPEC, cfg), os.path.join(SPEC, module + ".tla")]
    rc, out, dt = sh(cmd, cwd=SPEC, env=e, timeout=timeout)
    shutil.rmtree(meta, ignore_errors=True)
    viols = []
    # TLC pretty-prints a tuple longer than its line width over several lines: the pattern tolerates any white space
    for m in re.finditer(r'<<\s*"VIOL",\s*(-?\d+),\s*"([^"]*)",\s*(\d+)\s*>>', out):
        viols.append((int(m.group(1)), m.group(2), int(m.group(3))))
    m = re.search(r'<<"CONSUMED", (\d+), (\d+)>>', out)
    consumed, total = (int(m.group(1)), int(m.group(2))) if m else (-1, -1)
    st = re.findall(r"(\d+) states generated, (\d+) distinct states found", out)
    info = {"rc": rc, "wall_s": dt, "out": out, "generated": int(st[-1][0]) if st else 0, "distinct": int(st[-1][1]) if st else 0}
    if consumed < 0 or consumed != total:
        raise ToolError("trace monitor %s did not consume the whole trace (%s of %s) rc=%d:\n%s" % (module, consumed, total, rc, out[-4000:]))
    return viols, consumed, total, info


def read_ndjson(path):
    with open(path) as f:
        return [json.loads(l) for l in f if l.strip()]


def write_ndjson(path, rows):
    with open(path, "w") as f:
        for r in rows:
            f.write(json.dumps(r, separators=(",", ":")) + "\n")


def known_findings():
    p = os.path.join(VERIF, "known_findings.json")
    if not os.path.exists(p):
        return []
    return json.load(open(p))["findings"]


class Check:
    """One run of one property's check: collects model-checking stats, conformance stats, violations."""

    def __init__(self, pid, level="model_checking"):
        self.pid = pid
        self.level = level
        self.tier = os.environ.get("VERIF_TIER", "quick")
        self.seed = int(os.environ.get("VERIF_SEED", "1") or 1)
        self.t0 = time.time()
        self.wd = workdir(pid)
        self.states = 0
        self.transitions = 0
        self.traces = 0
        self.evaluations = 0
        self.distinct = set()
        self.distinct_n = 0
        self.samples = []
        self.notes = {}
        self.viol = []          # (code, detail, replay_obj)
        self.drift = []
        self.assumptions = []
        self.rule = ""
        self.models = []
        self.exhaustive = False

    def add_tlc(self, r, label):
        self.states += r.get("distinct", 0)
        self.transitions += r.get("generated", 0)
        self.models.append({"model": label, "distinct_states": r.get("distinct", 0), "states_generated": r.get("generated", 0),
                            "wall_s": round(r.get("wall_s", 0), 1), "actions_covered": {k: v for k, v in sorted(r.get("coverage", {}).items())[:40]}})

    def model_must_hold(self, r, label, disabled=()):
        """A design-level model-checking run that must pass; a failure is a tool/model error (exit 2), not a code violation."""
        self.add_tlc(r, label)
        if not r["ok"]:
            raise ToolError("model %s does not satisfy its properties (model/spec problem, not a code verdict):\n%s" % (label, r["out"][-3000:]))
        # vacuity: an action of the model that was never taken means part of the specification was not exercised
        # (`disabled`: actions this configuration switches off by a constant, covered by a sibling configuration)
        dead = [a for a, n in r.get("coverage", {}).items() if n == 0 and a != "Init" and a not in disabled]
        if dead:
            raise ToolError("model %s: actions never taken in this configuration (vacuous exploration): %s" % (label, dead))

    def model_must_fail(self, r, label, expect=None):
        """A witness/mutant configuration that must produce a counterexample (vacuity / sensitivity demonstration)."""
        self.add_tlc(r, label)
        if r["ok"] or not r["violated"]:
            raise ToolError("witness model %s unexpectedly satisfied (%s)" % (label, expect))

    def sample(self, x, cap=6):
        if len(self.samples) < cap:
            self.samples.append(x)

    def case(self, key, nontrivial=True):
        self.evaluations += 1
        if nontrivial:
            self.distinct.add(key if isinstance(key, (str, int)) else hashlib.sha1(json.dumps(key, sort_keys=True).encode()).hexdigest())

    def violation(self, code, detail, replay=None):
        self.viol.append((code, detail, replay))

    def finish(self):
        known = [k for k in known_findings() if k.get("property") == self.pid and k.get("status") == "open"]
        kcodes = {k["code"]: k for k in known}
        new, seen_known = [], {}
        for code, detail, replay in self.viol:
            if code in kcodes:
                seen_known.setdefault(code, 0)
                seen_known[code] += 1
            else:
                new.append((code, detail, replay))
        for code, n in sorted(seen_known.items()):
            print("KNOWN-FINDING: property=%s %s — %s (%d occurrence(s) this run)" % (self.pid, code, kcodes[code].get("what", ""), n))
        for d in self.drift[:6]:
            print("MODEL-DRIFT property=%s %s" % (self.pid, d))
        rc = 0
        if new:
            rdir = os.path.join(WORK, "replays")
            os.makedirs(rdir, exist_ok=True)
            by = {}
            for code, detail, replay in new:
                by.setdefault(code, []).append((detail, replay))
            for code, lst in sorted(by.items()):
                detail, replay = lst[0]
                h = hashlib.sha1((self.pid + code + json.dumps(detail, sort_keys=True, default=str)).encode()).hexdigest()[:10]
                path = os.path.join(rdir, "%s-%s.json" % (self.pid, h))
                json.dump({"property": self.pid, "code": code, "detail": detail, "replay": replay, "occurrences": len(lst), "seed": self.seed, "tier": self.tier}, open(path, "w"), indent=1, default=str)
                print("VIOLATION property=%s replay=%s code=%s occurrences=%d detail=%s" % (self.pid, path, code, len(lst), json.dumps(detail, default=str)[:300]))
            rc = 1
        dn = max(len(self.distinct), self.distinct_n)
        cov = {"states": self.states, "transitions": self.transitions, "traces_validated_against_impl": self.traces,
               "samples": self.samples or ["(none)"], "evaluations": self.evaluations, "distinct_nontrivial": dn, "rule": self.rule,
               "models": self.models, "exhaustive": self.exhaustive, "known_findings_seen": sorted(seen_known.keys()),
               "model_drift": len(self.drift)}
        cov.update(self.notes)
        ev = {"property_id": self.pid, "tier": self.tier if self.tier in ("quick", "thorough") else "quick", "seed": self.seed, "level": self.level,
              "coverage": cov, "assumptions": self.assumptions, "wall_s": round(time.time() - self.t0, 2), "violations": len(new)}
        os.makedirs(os.path.join(VERIF, "evidence"), exist_ok=True)
        json.dump(ev, open(os.path.join(VERIF, "evidence", self.pid + ".json"), "w"), indent=1, default=str)
        print("%s %s: states=%d transitions=%d traces=%d evaluations=%d distinct=%d violations=%d known=%d wall=%.1fs" % (
            self.pid, self.tier, self.states, self.transitions, self.traces, self.evaluations, dn, len(new), len(seen_known), time.time() - self.t0))
        return rc
